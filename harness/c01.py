"""C01 correspondence harness: the real SSDP codec (`build_ssdp_packet`, `build_ssdp_search_packet`,
`decode_ssdp_packet`, `SsdpProtocol.datagram_received`) against the Lean byte-level model
(`Upnp.C01.decode` behind an explicit LRU) and the judge of `Spec/C01.lean`.  See design/C01.md."""
from __future__ import annotations

import asyncio
import itertools
from datetime import datetime, timedelta
from typing import Any, Dict, List, Optional

from harness.common import FakeTransport, VirtualTimeLoop, exc_token, tok_bytes
from vk.core import Case, Ctx

GEN_MODULES: List[str] = ["C01Ssdp"]
MANIFEST = {
    "design_ref": "§5 C01",
    "text": ("Lean theorems over a byte-level model of ssdp.py (builder, validity gate, aiohttp-3.9.5 HeadersParser "
             "transcription, multidict->dict, udn_from_usn, get_host_string, get_adjusted_url on a URL grammar, the two-dict "
             "header map of C16): decode_build (for every start line of the three kinds, every well-formed header list of any "
             "length and every source address, decoding the built datagram yields the same start line, every sent name looked "
             "up by any spelling gives the sent value (location: the adjusted URL, original kept), exactly the sent names plus "
             "metadata names, and _host/_port/_remote_addr/_udn derived from the source and the USN), decode_port_irrelevant, "
             "adjust_identity, lru_transparent (a bounded LRU cache of any capacity returns f(x) on every call of every call "
             "sequence), parse totality lemmas.  Tables (prefixes, metadata keys, separators, cache sizes) are regenerated from "
             "ssdp.py on every run.  The model is tied to the code by differential runs: every decode result (request line, "
             "iteration order, look-ups by respelled names, as_dict, case_map) is compared, and the Lean judge is evaluated on "
             "the implementation's observations (round trip, equal results for equal (datagram, source) across histories with "
             "cache eviction, earlier results unchanged unless their owner changed them — including key-set changes (delete, new and "
             "re-spelled names, clear, replace) followed by re-decodes, with the cached layers themselves read before and after)."),
    "note": ("Trusted: Lean kernel + propext/Classical.choice/Quot.sound; aiohttp HeadersParser, multidict, urllib.parse, "
             "ipaddress and the UTF-8 codec are modelled by transcription and sampled; object aliasing between results (CPython "
             "references) is outside the value-level model: independence of earlier results is carried by the correspondence "
             "histories and the judge, not by a theorem; URLs outside the modelled grammar are compared as opaque."),
    "technique": "Lean 4 proof (byte-level codec model, induction over header lists / call sequences) + model/implementation correspondence",
}
RULE = ("(i) round trips: header maps of 0..40 headers (token names in random case, near-collisions, metadata-like names; "
        "values: ASCII/UTF-8 up to ~1 kB with ':' quotes multi-byte text, USN/LOCATION/CACHE-CONTROL shapes, plus ill-formed "
        "values) x 3 start lines x IPv4 / IPv6 / scoped IPv6 sources, built by the real builder and decoded by the real decoder; "
        "(ii) histories of up to 6 decodes over a 3-datagram alphabet x 2 sources interleaved with set/del/replace on earlier "
        "results, plus eviction runs with > 600 distinct datagrams between two decodes of one datagram; (iii) delivery through "
        "SsdpProtocol.datagram_received to on_data / async_on_data; (iv) byte-mutated datagrams for the parser's error paths. "
        "non-trivial = a result with >= 1 header was produced; distinct = distinct canonical driver text")
EXHAUSTIVE = {"quick": False, "thorough": False}
ASSUMPTIONS = [
    "header names are ASCII tokens (the parser rejects anything else); str.lower on values is only used on the 5-byte 'uuid:' prefix",
    "round trip is claimed for header values without CR/LF/NUL, without surrounding SP/HT, at most 8190 bytes, and names that are not metadata keys",
    "URLs outside the modelled grammar (non-printable/non-ASCII bytes, userinfo, IPvFuture, IPv4-suffixed IPv6) are opaque to the model",
    "datetime.now is replaced by a virtual clock (ssdp.datetime patched)",
]
TRUSTED = ["C01: aiohttp 3.9.5 HeadersParser.parse_headers (non-lax), multidict {**md}, urllib.parse.urlsplit/urlunsplit, "
           "ipaddress.ip_address, bytes.decode are modelled by transcription (Model/C01Ssdp.lean) and checked by sampling"]

BASE = datetime(2024, 1, 1, 0, 0, 0)
START_LINES = ["NOTIFY * HTTP/1.1", "M-SEARCH * HTTP/1.1", "HTTP/1.1 200 OK"]
META = ["_timestamp", "_host", "_port", "_local_addr", "_remote_addr", "_udn", "_location_original", "location"]


# ---- canonical tokens ------------------------------------------------------------------------------

def tb(b: bytes) -> str:
    return tok_bytes(b)


def ts(s: str) -> str:
    return tok_bytes(s.encode("utf-8", "surrogateescape"))


def tok_addr(a) -> str:
    if len(a) == 2:
        return f"{ts(a[0])}:{a[1]}"
    return f"{ts(a[0])}:{a[1]}:{a[2]}:{a[3]}"


def tok_val(v: Any) -> str:
    if v is None:
        return "N"
    if isinstance(v, str):
        return "s" + (ts(v) if v else "")
    if isinstance(v, bool):
        return "x-bool"
    if isinstance(v, int):
        return f"i{v}"
    if isinstance(v, datetime):
        d = v - BASE
        return f"t{(d.days * 86400 + d.seconds) * 1000000 + d.microseconds}"
    if isinstance(v, tuple) and len(v) in (2, 4) and isinstance(v[0], str):
        return "a" + tok_addr(v)
    return "x-" + type(v).__name__


def lst(items) -> str:
    items = list(items)
    return ",".join(items) if items else "~"


def observe(h, probes: List[str]) -> str:
    gets = []
    for k in probes:
        try:
            gets.append(f"{ts(k)}={tok_val(h[k])}")
        except KeyError:
            gets.append(f"{ts(k)}=!")
    return (f"iter={lst(ts(k) for k in h)} get={lst(gets)} "
            f"data={lst(f'{ts(k)}={tok_val(v)}' for k, v in h.as_dict().items())} "
            f"cmap={lst(f'{ts(k)}={ts(v)}' for k, v in h.case_map().items())}")


def respell(rng, k: str) -> str:
    c = rng.randrange(4)
    if c == 0:
        return k.lower()
    if c == 1:
        return k.upper()
    if c == 2:
        return "".join(ch.upper() if rng.random() < 0.5 else ch.lower() for ch in k)
    return k


# ---- running one recipe -----------------------------------------------------------------------------

class _Env:
    """per-case state: virtual clock, registers, lazily created event loop"""

    def __init__(self) -> None:
        self.clock = 0
        self.regs: Dict[int, Any] = {}
        self.probes: Dict[int, List[str]] = {}
        self.loop: Optional[VirtualTimeLoop] = None
        self.nbuilt = 0
        self.box: List[Any] = []
        self.abox: List[Any] = []
        self.protos: Dict[str, Any] = {}

    def close(self) -> None:
        if self.loop is not None:
            self.loop.close()
            asyncio.set_event_loop(None)


def _patch_clock(env: _Env):
    from async_upnp_client import ssdp

    class FakeDT(datetime):
        @classmethod
        def now(cls, tz=None):  # noqa: ARG003
            return BASE + timedelta(microseconds=env.clock)

    ssdp.datetime = FakeDT  # type: ignore[attr-defined]


def _clear_caches() -> None:
    from async_upnp_client import ssdp

    for f in (ssdp._cached_decode_ssdp_packet, ssdp._cached_header_parse, ssdp.get_adjusted_url,
              ssdp.udn_from_usn, ssdp.is_valid_ssdp_packet):
        if hasattr(f, "cache_clear"):
            f.cache_clear()


def _datagram(env: _Env, spec: Dict[str, Any], lines: List[str], tags: set):
    """returns (bytes, built index or None, header names for probing)"""
    from async_upnp_client import ssdp

    if "raw" in spec:
        return bytes.fromhex(spec["raw"]), None, spec.get("names", [])
    if "srch" in spec:
        tgt, mx, st = spec["srch"]
        tgt = tuple(tgt)
        data = ssdp.build_ssdp_search_packet(tgt, mx, st)
        lines.append(f"srch {env.nbuilt} {tok_addr(tgt)} {ts(str(mx))} {ts(st)} {tb(data)}")
        env.nbuilt += 1
        tags.add("build:search")
        return data, env.nbuilt - 1, ["HOST", "MAN", "MX", "ST"]
    hs = {k: v for k, v in spec["hs"]}
    data = ssdp.build_ssdp_packet(spec["sl"], hs)
    lines.append(f"bld {env.nbuilt} {ts(spec['sl'])} {lst(f'{ts(k)}={ts(v)}' for k, v in hs.items())} {tb(data)}")
    env.nbuilt += 1
    tags.add("build:packet")
    return data, env.nbuilt - 1, list(hs)


def run_recipe(ctx: Ctx, recipe: Dict[str, Any], cid: str) -> Case:
    import random

    from async_upnp_client import ssdp

    env = _Env()
    _patch_clock(env)
    _clear_caches()
    prng = random.Random(recipe.get("pseed", 0))
    lines: List[str] = []
    tags: set = set()
    nontrivial = False
    try:
        for op in recipe["ops"]:
            name = op[0]
            if name in ("dec", "recv"):
                _, r, spec, src, local = op[:5]
                mode = op[5] if len(op) > 5 else "sync"
                quiet = bool(spec.get("quiet"))
                src = tuple(src)
                local = tuple(local) if local else None
                data, bidx, names = _datagram(env, spec, lines, tags)
                env.clock += 1000
                bref = f" b={bidx}" if bidx is not None else ""
                mtok = f" m={mode}" if name == "recv" else ""
                lines.append(f"{name} {r} {tb(data)} {tok_addr(src)} {tok_addr(local) if local else 'N'} {env.clock}{bref}{mtok}")
                got = None
                res = None
                try:
                    if name == "dec":
                        got = ssdp.decode_ssdp_packet(data, local, src)
                    else:
                        # ONE protocol object per delivery flavour lives for the whole case (as it does for the life of a
                        # socket): state a change might keep in the protocol instance travels from datagram to datagram
                        # The constructor configuration is a dimension: only on_data ("sync"), only async_on_data ("async"),
                        # both, neither.  EVERY configured sink must receive the decoded (start line, headers) exactly once.
                        sbox, abox = env.box, env.abox
                        del sbox[:]
                        del abox[:]
                        if mode not in env.protos:
                            kw: Dict[str, Any] = {}
                            if mode in ("async", "both"):
                                if env.loop is None:
                                    env.loop = VirtualTimeLoop()
                                    asyncio.set_event_loop(env.loop)

                                async def acb(rl, h, _b=abox):
                                    _b.append((rl, h))

                                kw["async_on_data"] = acb
                            if mode in ("sync", "both"):
                                kw["on_data"] = lambda rl, h, _b=sbox: _b.append((rl, h))
                            env.protos[mode] = ssdp.SsdpProtocol(env.loop, **kw)  # type: ignore[arg-type]
                        proto = env.protos[mode]
                        proto.transport = FakeTransport()  # type: ignore[assignment]
                        proto.local_addr = local
                        proto.datagram_received(data, src)
                        if mode in ("async", "both"):
                            env.loop.run_until_complete(asyncio.sleep(0))
                            env.loop.run_until_complete(asyncio.sleep(0))
                        want_s, want_a = mode in ("sync", "both"), mode in ("async", "both")
                        ns, na = len(sbox), len(abox)
                        delivered = max(ns, na) > 0
                        if mode == "neither":
                            res = "nosink"
                        elif ns > 1 or na > 1 or (not want_s and ns) or (not want_a and na):
                            res = f"EXC:callbacks=s{ns}a{na}"
                        elif delivered and ((want_s and ns != 1) or (want_a and na != 1)):
                            res = f"EXC:sink-missed=s{ns}a{na}"          # one configured callback did not get the message
                        elif not delivered:
                            res = "drop"
                        else:
                            got = sbox[0] if want_s else abox[0]
                            if mode == "both":
                                (rl1, h1), (rl2, h2) = sbox[0], abox[0]
                                # the code hands the SAME mapping object to both callbacks; equal content is what is demanded
                                tags.add("sinks:same-object" if h1 is h2 else "sinks:independent")
                                if rl1 != rl2 or observe(h1, META) != observe(h2, META) or list(h1.as_dict().items()) != list(h2.as_dict().items()):
                                    res = "EXC:sinks-differ"
                                    got = None
                        tags.add(f"recv:{mode}")
                except Exception as e:  # noqa: BLE001 - the exception class is the observation
                    res = "EXC:" + exc_token(e)
                if res is None:
                    rl, h = got
                    res = "ok " + ts(rl)
                    env.regs[r] = h
                    env.probes[r] = [respell(prng, k) for k in names] + META
                    if len(h) > 5:
                        nontrivial = True
                    tags.add("src:" + ("v4" if len(src) == 2 else ("v6scoped" if src[3] else "v6")))
                else:
                    tags.add("res:" + res.split(" ")[0])
                lines.append("res " + res)
                if quiet:
                    env.regs.pop(r, None)
            elif name in ("set", "del", "dell", "repl", "clear"):
                r = op[1]
                if r not in env.regs:
                    continue
                h = env.regs[r]
                steps = []
                if name == "set":
                    steps.append((f"set {r} {ts(op[2])} {tok_val(op[3])}", lambda k=op[2], v=op[3]: h.__setitem__(k, v)))
                elif name == "del":
                    steps.append((f"del {r} {ts(op[2])}", lambda k=op[2]: h.__delitem__(k)))
                elif name == "dell":
                    steps.append((f"dell {r} {ts(op[2])}", lambda k=op[2]: h.del_lower(k)))
                elif name == "repl":
                    d = {k: v for k, v in op[2]}
                    steps.append((f"repl {r} {lst(f'{ts(k)}={tok_val(v)}' for k, v in d.items())}", lambda d=d: h.replace(d)))
                else:  # clear: delete every name the map iterates, one by one
                    for k in list(h)[: op[2] if len(op) > 2 else None]:
                        steps.append((f"del {r} {ts(k)}", lambda k=k: h.__delitem__(k)))
                for i, (line, act) in enumerate(steps):
                    lines.append(line)
                    try:
                        act()
                        lines.append("res ok")
                    except KeyError:
                        lines.append("res KeyError")
                    except Exception as e:  # noqa: BLE001 - reported as the observation
                        lines.append("res EXC:" + exc_token(e))
                    if i + 1 < len(steps):
                        lines.append(f"obs {r} {observe(h, env.probes[r])}")
                tags.add("mut:" + name)
            elif name == "core":
                _, r, spec, src = op[:4]
                src = tuple(src)
                data, _b, names = _datagram(env, spec, lines, tags)
                a0 = (src[0], 0) if len(src) == 2 else (src[0], 0, src[2], src[3])
                lines.append(f"core {r} {tb(data)} {tok_addr(src)}")
                try:
                    rl, h = ssdp._cached_decode_ssdp_packet(data, a0)
                    lines.append("res ok " + ts(rl))
                    env.regs[r] = h
                    env.probes[r] = [respell(prng, k) for k in names] + META
                except Exception as e:  # noqa: BLE001
                    lines.append("res EXC:" + exc_token(e))
                try:
                    ph, _rl, udn = ssdp._cached_header_parse(data)
                    lines.append(f"hpo {tb(data)} {ts(udn) if udn is not None else '!'} {lst(f'{ts(str(k))}={ts(v)}' for k, v in ph.items())}")
                except Exception:  # noqa: BLE001 - already observed through the decode
                    pass
                tags.add("peek:core")
            else:
                raise ValueError(name)
            for r in sorted(env.regs):
                if r < 7:
                    lines.append(f"obs {r} {observe(env.regs[r], env.probes[r])}")
    finally:
        env.close()
    return Case(cid, lines, recipe, nontrivial, sorted(tags))


# ---- generators -------------------------------------------------------------------------------------

TCHARS = "!#$%&'*+-.^_`|~0123456789abcdefghijklmnopqrstuvwxyzABCDEFGHIJKLMNOPQRSTUVWXYZ"
COMMON = ["HOST", "MAN", "MX", "ST", "NT", "NTS", "USN", "LOCATION", "CACHE-CONTROL", "SERVER", "EXT", "DATE", "OPT",
          "BOOTID.UPNP.ORG", "CONFIGID.UPNP.ORG", "SEARCHPORT.UPNP.ORG", "01-NLS", "X-User-Agent", "Content-Length"]
LOCATIONS = ["http://192.168.1.7:8000/desc.xml", "http://[fe80::1]:8000/desc.xml", "http://[fe80::abcd:1]/x?y=1#z",
             "HTTP://[FE80::1]:80", "http://169.254.1.1/d", "http://[fe80::1%eth0]/", "http://[2001:db8::1]:49152/a/b.xml",
             "http://host.example/", "//[fe80::1]/p", "http://[::1]/", "http://[fe80::1]:0/", "http://[fe80::1]:080/a?",
             "http://[febf:1:2:3:4:5:6:7]/", "http://[fec0::1]/", "http://[fe80:0:0:0:0:0:0:1]:1/", "https://[fe80::9]/#",
             "http://10.0.0.1/x y", "http://[fe80::1]/é", "http://[fe80::1]:8080/päth/ü?q=日本#z", "http://[fe80::2]/a b/c", "http://[fe80::3]/\u00a0x ", "\x0b", "http://[fe80::1]/?", "http://[fe80::]/", "http://[fe80::1]x:5/"]
BAD_LOCATIONS = ["http://[fe80::1/", "foo", "http://[fe80::1]:99999/", "http://[fe80::1]:x/", "http://fe80::1]/",
                 "http://[fe80::zz]/", "http://[1.2.3.4]/", "http://[fe80::1]:" + "9" * 4400 + "/", "http:///x", "http://:80/"]
USNS = ["uuid:device-1::upnp:rootdevice", "uuid:device-1", "UUID:ABC::urn:x", "Uuid:", "uuid", "urn:foo", "uuid:a:b::c::d",
        "uuid:é::x", "", "uu\u0130d:a::b", "UU\u0131D:a", "\u212auid:a", "uuid:\u212a::k", "\uff55uid:a"]
SOURCES = [("192.168.1.7", 1900), ("192.168.1.7", 50000), ("fe80::1", 1900, 0, 0), ("fe80::1", 1900, 0, 3),
           ("fe80::1", 4000, 0, 3), ("2001:db8::5", 1900, 0, 0), ("fe80::2", 1900, 7, 12), ("10.0.0.255", 0)]
LOCALS = [("192.168.1.2", 1900), None, ("fe80::10", 1900, 0, 3)]


def rand_name(rng) -> str:
    c = rng.randrange(10)
    if c < 6:
        return respell(rng, rng.choice(COMMON))
    if c < 9:
        return "".join(rng.choice(TCHARS) for _ in range(rng.randrange(1, 12)))
    return rng.choice(["_host", "_udn", "_port", "_timestamp", "_location_original", "_Remote_Addr", "_source",
                       "_HOST", "_Host", "_UDN", "_Udn", "_PORT", "_LOCATION_ORIGINAL", "LOCATION", "location"])


def rand_text(rng, n: int) -> str:
    alph = rng.choice(["abcXYZ019 :;\"'=,/-_.", "aé日本語ß→😀 :", "\t a:b", "0123456789"])
    return "".join(rng.choice(alph) for _ in range(n))


def rand_value(rng, name: str, wf: bool) -> str:
    low = name.lower()
    if low == "usn" and rng.random() < 0.9:
        return rng.choice(USNS)
    if low == "location" and rng.random() < 0.9:
        return rng.choice(LOCATIONS + (BAD_LOCATIONS if rng.random() < 0.3 else []))
    if low == "cache-control" and rng.random() < 0.7:
        return rng.choice(["max-age=1800", "max-age = 5", "no-cache", "MAX-AGE=100"])
    c = rng.randrange(20)
    n = rng.choice([0, 1, 3, 8, 20, 60]) if c < 19 or rng.random() < 0.6 else rng.choice([300, 1000])
    v = rand_text(rng, n).strip(" \t")
    if not wf:
        k = rng.randrange(8)
        if k == 0:
            v = " " + v
        elif k == 1:
            v = v + "\t"
        elif k == 2:
            v = v[: len(v) // 2] + rng.choice(["\r", "\n", "\r\n", "\x00"]) + v[len(v) // 2:]
        elif k == 3 and rng.random() < 0.15:
            v = "x" * rng.choice([8190, 8191, 9000])
        elif k == 4:
            v = v + rng.choice(["\x0b", "\x0c", " ", "\x85"])
    return v


def rand_headers(rng, wf: bool) -> List[List[str]]:
    n = rng.choice([0, 1, 2, 3, 4, 5, 6, 8, 10, 12, 15]) if rng.random() < 0.93 else rng.randrange(16, 41)
    hs: List[List[str]] = []
    seen = set()
    for _ in range(n):
        k = rand_name(rng)
        if wf and (k.lower() in seen or k.lower() in META or k.lower().startswith("_")):
            continue
        seen.add(k.lower())
        hs.append([k, rand_value(rng, k, wf or rng.random() < 0.7)])
    if not wf and hs and rng.random() < 0.3:
        k = hs[0][0]
        hs.append([k.swapcase() if k.swapcase() != k else k + "x", rand_value(rng, k, True)])
    return hs


def rand_spec(rng) -> Dict[str, Any]:
    c = rng.randrange(20)
    if c == 0:
        tgt = rng.choice([("239.255.255.250", 1900), ("FF02::C", 1900, 0, 3), ("ff02::c", 1900, 0, 0), ("192.168.1.9", 1900)])
        return {"srch": [list(tgt), rng.choice([0, 1, 4, 120]), rng.choice(["ssdp:all", "upnp:rootdevice", "uuid:x", "urn:a:b:1"])]}
    return {"sl": rng.choice(START_LINES), "hs": rand_headers(rng, wf=c < 14)}


def mutate(rng, data: bytes) -> bytes:
    b = bytearray(data)
    for _ in range(rng.choice([1, 1, 2, 3])):
        k = rng.randrange(9)
        pos = rng.randrange(len(b) + 1)
        if k == 0 and b:
            b[pos % len(b)] = rng.randrange(256)
        elif k == 1 and b:
            del b[pos % len(b)]
        elif k == 2:
            b[pos:pos] = bytes([rng.choice([0, 9, 10, 13, 32, 58, 0x80, 0xC3, 0xE2, 0xFF, 65])])
        elif k == 3:
            b[pos:pos] = rng.choice([b"\r\n", b"\n", b"\r", b":", b" :", b"\r\n\r\n", b"\n\n"])
        elif k == 4 and b:
            del b[pos % len(b):]
        elif k == 5 and rng.random() < 0.2:
            b[pos:pos] = b"A" * rng.choice([8189, 8190, 8191])
        elif k == 6 and b:
            i = pos % len(b)
            b[i:i] = b[i:i + rng.randrange(1, 30)]
        elif k == 7:
            b += rng.choice([b"", b"x", b"\r\nk:v", b"\r\n \r\n"])
        else:
            b[:0] = rng.choice([b" ", b"\r\n", b"\xff", b"\t"])
    return bytes(b)


def raw_spec(rng) -> Dict[str, Any]:
    from async_upnp_client import ssdp

    sp = rand_spec(rng)
    if "srch" in sp:
        tgt, mx, st = sp["srch"]
        data = ssdp.build_ssdp_search_packet(tuple(tgt), mx, st)
        names = ["HOST", "MAN", "MX", "ST"]
    else:
        data = ssdp.build_ssdp_packet(sp["sl"], {k: v for k, v in sp["hs"]})
        names = [k for k, _ in sp["hs"]]
    return {"raw": mutate(rng, data).hex(), "names": names}


ALPHA = [
    {"sl": "NOTIFY * HTTP/1.1", "hs": [["HOST", "239.255.255.250:1900"], ["NT", "upnp:rootdevice"], ["NTS", "ssdp:alive"],
                                       ["USN", "uuid:d1::upnp:rootdevice"], ["LOCATION", "http://[fe80::1]:80/d.xml"]]},
    {"sl": "HTTP/1.1 200 OK", "hs": [["ST", "upnp:rootdevice"], ["Usn", "uuid:d2"], ["Location", "http://192.168.1.7/d"], ["EXT", ""]]},
    {"sl": "NOTIFY * HTTP/1.1", "hs": [["HOST", "239.255.255.250:1900"], ["NT", "upnp:rootdevice"], ["NTS", "ssdp:alive"],
                                       ["USN", "uuid:d1::upnp:rootdevice"], ["LOCATION", "http://[fe80::1]:80/d.xml"], ["X", "1"]]},
]
ALPHA_SRC = [("fe80::1", 1900, 0, 3), ("192.168.1.7", 1900)]


NAMES_IN_ALPHA = ["HOST", "NT", "NTS", "USN", "LOCATION", "ST", "Usn", "Location", "EXT", "X"]


def rand_mut(rng, r: int):
    """the owner changes an earlier result: value edits and — what exposes shared case maps — KEY-SET edits"""
    c = rng.randrange(10)
    k = rng.choice(NAMES_IN_ALPHA + ["location", "usn", "_host", "_udn", "new-key", "_timestamp", "_location_original"])
    if c == 0:
        return ["set", r, k, rng.choice(["changed", "", "http://evil/"])]
    if c == 1:
        return ["repl", r, [[k, "v"], ["Other", "w"]]]
    if c == 2:
        return ["set", r, respell(rng, k), "again"]          # re-spelling an existing name
    if c == 3:
        return ["set", r, "X-New-" + str(rng.randrange(3)), "n"]  # a name the datagram does not have
    if c == 4:
        return ["dell", r, k.lower()]
    if c == 5:
        return ["clear", r, rng.choice([1, 3, 99])]
    if c == 6:
        return ["repl", r, []]
    return ["del", r, respell(rng, k)]


KEYSET_MUTS = [
    [["del", 0, "USN"]], [["del", 0, "location"]], [["del", 0, "_host"]], [["dell", 0, "nt"]], [["dell", 0, "_udn"]],
    [["set", 0, "X-New", "1"]], [["set", 0, "usn", "respelled"]], [["set", 0, "lOcAtIoN", "x"]], [["set", 0, "_HOST", "h"]],
    [["clear", 0, 99]], [["clear", 0, 2]], [["repl", 0, []]], [["repl", 0, [["Only", "1"]]]],
    [["del", 0, "USN"], ["set", 0, "usn", "back"]], [["set", 0, "X-New", "1"], ["del", 0, "x-new"]],
    [["repl", 0, [["usn", "z"]]], ["del", 0, "USN"]], [["dell", 0, "location"], ["dell", 0, "_location_original"]],
]


def keyset_cases(rng) -> List[List[list]]:
    """decode(D,S); key-set change on the returned map; decode(D,S) again, D from another source / port, another
    datagram from S; the cached entries themselves are observed before and after (never touched by the harness)"""
    out = []
    for spec in ALPHA:
        for mut in KEYSET_MUTS:
            for first in ("dec", "recv"):
                s0 = list(ALPHA_SRC[rng.randrange(2)])
                other = list(ALPHA_SRC[0] if s0 == list(ALPHA_SRC[1]) else ALPHA_SRC[1])
                port = list(s0)
                port[1] = 2222
                d2 = ALPHA[(ALPHA.index(spec) + 1) % 3]
                ops = [["core", 5, spec, s0], [first, 0, spec, s0, None]]
                ops += [list(m) for m in mut]
                ops += [["dec", 1, spec, s0, None], ["recv", 2, spec, port, None, "both"], ["dec", 3, spec, other, None],
                        ["dec", 4, d2, s0, None], ["core", 6, spec, s0]]
                # a second round: mutate the second result too, decode once more
                ops += [[m[0], 1] + list(m[2:]) for m in mut] + [["dec", 0, spec, s0, None]]
                out.append(ops)
    # the same datagram delivered again and again through ONE protocol object (both flavours), other datagrams in between
    for spec in ALPHA:
        for mode in ("sync", "async", "both", "neither"):
            s0 = list(ALPHA_SRC[rng.randrange(2)])
            d2 = ALPHA[(ALPHA.index(spec) + 1) % 3]
            out.append([["recv", 0, spec, s0, None, mode], ["recv", 1, spec, s0, None, mode], ["recv", 2, d2, s0, None, mode],
                        ["recv", 3, spec, s0, None, mode], ["recv", 0, spec, s0, None, mode]])
    return out


def filler(rng, n: int) -> List[list]:
    ops = []
    for i in range(n):
        spec = {"sl": "NOTIFY * HTTP/1.1", "hs": [["NT", f"t{i}"], ["USN", f"uuid:f{i}-{rng.randrange(10**6)}"],
                                                  ["LOCATION", f"http://[fe80::{i:x}]/"]], "quiet": True}
        ops.append(["dec", 7, spec, list(rng.choice(ALPHA_SRC)), None])
    return ops


def history(rng, depth: int, with_fill: bool) -> List[list]:
    ops: List[list] = []
    for i in range(depth):
        spec = rng.choice(ALPHA)
        src = rng.choice(ALPHA_SRC + [("fe80::1", 2222, 0, 3)])
        kind = rng.choice(["dec", "dec", "recv"])
        op = [kind, rng.randrange(0, 4), spec, list(src), list(rng.choice(LOCALS) or []) or None]
        if kind == "recv":
            op.append(rng.choice(["sync", "async", "both", "both", "neither"]))
        ops.append(op)
        while rng.random() < 0.6:
            ops.append(rand_mut(rng, op[1] if rng.random() < 0.6 else rng.randrange(0, 4)))
        if rng.random() < 0.3:
            ops.append(["core", 6, spec, list(src)])
        if with_fill and i == depth // 2:
            ops += filler(rng, rng.choice([130, 260, 520, 620]))
    return ops


CORPUS = [
    # F01a: a metadata name received in two spellings used to override the decoder's own value (`_host`, `_udn`)
    {"ops": [["dec", 0, {"sl": "HTTP/1.1 200 OK", "hs": [["_udn", "a"], ["_UDN", "b"], ["_host", "x"], ["_HOST", "y"], ["ST", "t"],
                                                         ["USN", "uuid:real::t"], ["LOCATION", "http://1.2.3.4/"]]}, ["9.9.9.9", 1900], None],
             ["recv", 1, {"sl": "NOTIFY * HTTP/1.1", "hs": [["_Host", "x"], ["_hOST", "y"], ["_port", "1"], ["_PORT", "2"],
                                                           ["_remote_addr", "r"], ["_REMOTE_ADDR", "s"]]}, ["fe80::2", 1900, 0, 3], None]]},
    # design-time probes: duplicate spellings, metadata-like names, scoped source with adjusted / odd locations
    {"ops": [["dec", 0, {"sl": "NOTIFY * HTTP/1.1", "hs": [["Key", "1"], ["KEY", "2"], ["LOCATION", "http://[fe80::1]:80/x?"],
                                                           ["usn", "uuid:a::b"], ["USN", "zz"]]}, ["fe80::2", 1900, 0, 3], ["1.1.1.1", 5]]]},
    {"ops": [["dec", 0, {"sl": "HTTP/1.1 200 OK", "hs": [["_host", "spoof"], ["_udn", "uuid:spoof"], ["_timestamp", "x"]]}, ["192.168.1.7", 1900], None]]},
    {"ops": [["dec", 0, {"sl": "HTTP/1.1 200 OK", "hs": [["LOCATION", loc]]}, ["fe80::2", 1900, 0, 3], None] for loc in BAD_LOCATIONS]},  # F02c-e seen through C01
    {"ops": [["dec", 0, {"sl": "M-SEARCH * HTTP/1.1", "hs": []}, ["192.168.1.7", 1900], None]]},
    {"ops": [["dec", 0, ALPHA[0], ["fe80::1", 1900, 0, 3], None], ["set", 0, "location", "http://evil/"],
             ["dec", 1, ALPHA[0], ["fe80::1", 1900, 0, 3], None], ["del", 1, "USN"], ["dec", 2, ALPHA[0], ["fe80::1", 5, 0, 3], None]]},
    {"ops": [["dec", 0, {"raw": b"NOTIFY * HTTP/1.1\r\nA: 1\r\n b\r\n\r\n".hex(), "names": ["A"]}, ["192.168.1.7", 1900], None]]},
    {"ops": [["dec", 0, {"raw": b"NOTIFY * HTTP/1.1 \xff\r\nA:1\r\n\r\n".hex(), "names": ["A"]}, ["192.168.1.7", 1900], None]]},
    {"ops": [["recv", 0, {"raw": b"NOTIFY * HTTP/1.1\r\nA:" .hex() + (b"x" * 8191).hex() + b"\r\n\r\n".hex(), "names": ["A"]}, ["192.168.1.7", 1900], None]]},
]


def _one(ctx, ops, cid, pseed):
    return run_recipe(ctx, {"ops": ops, "pseed": pseed}, cid)


def gen_part(ctx: Ctx, kind: str, n: int, prefix: str) -> List[Case]:
    """n cases of one kind from ctx.rng (inline in the quick tier, in worker processes in the thorough tier)"""
    rng = ctx.rng
    cases: List[Case] = []
    if kind == "rt":
        # (i) round trips, two datagrams per case (sync / async delivery mixed in)
        for _ in range(n):
            ops = []
            for r in range(2):
                spec = rand_spec(rng)
                k = "dec" if rng.random() < 0.8 else "recv"
                op = [k, r, spec, list(rng.choice(SOURCES)), list(rng.choice(LOCALS) or []) or None]
                if k == "recv":
                    op.append(rng.choice(["sync", "async", "both", "both", "neither"]))
                ops.append(op)
            cases.append(_one(ctx, ops, f"{prefix}{len(cases)}", rng.randrange(1 << 30)))
            if ctx.time_left() < 60:
                break
    elif kind == "raw":
        # (iv) malformed stream
        for _ in range(n):
            ops = []
            for r in range(2):
                k = "dec" if rng.random() < 0.6 else "recv"
                ops.append([k, r, raw_spec(rng), list(rng.choice(SOURCES)), None])
            cases.append(_one(ctx, ops, f"{prefix}{len(cases)}", rng.randrange(1 << 30)))
    elif kind == "ex4":
        # (ii) all orders of 4 decodes over (3 datagrams x 2 sources), earlier results mutated in between
        alpha_ops = [["dec", k % 4, ALPHA[k % 3], list(ALPHA_SRC[k // 3]), None] for k in range(6)]
        for seq in itertools.product(range(6), repeat=4):
            ops = []
            for j, k in enumerate(seq):
                op = list(alpha_ops[k])
                op[1] = j % 4
                ops.append(op)
                if j == 1:
                    ops.append(["set", 0, "location", "http://evil/"])
                if j == 2:
                    ops.append(["del", 1, "usn"])
            cases.append(_one(ctx, ops, f"{prefix}{len(cases)}", 0))
    elif kind == "ex6":
        # (ii) all orders of up to 6 decodes over the 3-datagram alphabet from one source
        for depth in range(1, 7):
            for seq in itertools.product(range(3), repeat=depth):
                ops = []
                for j, k in enumerate(seq):
                    ops.append(["dec" if j % 2 == 0 else "recv", j % 4, ALPHA[k], list(ALPHA_SRC[0]), None])
                    if j == 2:
                        ops.append(["repl", 0, [["X", "1"]]])
                cases.append(_one(ctx, ops, f"{prefix}{len(cases)}", 0))
    elif kind == "keyset":
        for ops in keyset_cases(rng):
            cases.append(_one(ctx, ops, f"{prefix}{len(cases)}", rng.randrange(1 << 30)))
    elif kind == "hist":
        for _ in range(n):
            cases.append(_one(ctx, history(rng, rng.randrange(2, 7), False), f"{prefix}{len(cases)}", rng.randrange(1 << 30)))
    elif kind == "ev":
        for _ in range(n):
            cases.append(_one(ctx, history(rng, rng.randrange(2, 5), True), f"{prefix}{len(cases)}", rng.randrange(1 << 30)))
    else:
        raise ValueError(kind)
    return cases


def _worker(args) -> List[Case]:
    import time
    from pathlib import Path

    from vk import core

    tier, seed, kind, n, prefix = args
    core.activate_repo()
    ctx = Ctx("C01", tier, seed, Path("/tmp"), time.time() + 1200)
    return gen_part(ctx, kind, n, prefix)


def generate(ctx: Ctx) -> List[Case]:
    cases: List[Case] = []
    for i, rec in enumerate(CORPUS):
        cases.append(run_recipe(ctx, rec, f"corpus{i}"))
    if not ctx.thorough:
        for kind, n in (("keyset", 0), ("rt", 1500), ("raw", 500), ("hist", 330), ("ev", 6)):
            cases += gen_part(ctx, kind, n, kind)
        return cases
    import multiprocessing as mp

    jobs = [("thorough", 0, "ex4", 0, "ex4-"), ("thorough", 0, "ex6", 0, "ex6-")]
    jobs += [("thorough", ctx.rng.randrange(1 << 30), "keyset", 0, f"keyset{c}-") for c in range(4)]
    for kind, n, chunks in (("rt", 4000, 12), ("raw", 1500, 8), ("hist", 600, 8), ("ev", 8, 8)):
        for c in range(chunks):
            jobs.append(("thorough", ctx.rng.randrange(1 << 30), kind, n, f"{kind}{c}-"))
    with mp.Pool(min(16, mp.cpu_count())) as pool:
        for part in pool.imap(_worker, jobs):
            cases += part
    return cases


def signature(case: Case, verdict) -> str:
    kinds = " ".join(sorted({ln.split()[0] for ln in case.lines if not ln.startswith(("obs", "res"))}))
    return f"C01 ops[{kinds}] {verdict.notes[:300]}"
