"""C02 correspondence harness: every SSDP endpoint of the library (advertisement listener, search
listener, SsdpListener with its device tracker, the server's SsdpSearchResponder) is fed datagrams through
the real `SsdpProtocol.datagram_received`; per datagram the exception (if any), the number of user callbacks,
sends and timers and the known-device map before/after are compared with the Lean model `Upnp.C02.recv` and
judged by `Upnp.C02.ok` (no raise; dropped => inert).  See design/C02.md."""
from __future__ import annotations

import asyncio
import logging
import re
from datetime import datetime, timedelta
from types import SimpleNamespace
from typing import Any, Dict, List, Optional

from harness.common import FakeSocket, FakeTransport, VirtualTimeLoop, exc_token, tok_bytes
from vk.core import Case, Ctx

GEN_MODULES: List[str] = ["C01Ssdp", "C02Recv", "C02Sites", "C03Tracker"]
MANIFEST = {
    "design_ref": "§5 C02",
    "text": ("Lean theorems over a model of the whole SSDP receive path in which every raising primitive is explicit "
             "(Except over a catalogue of 12 exception kinds; each repair is a switch of the model): recv_total (for every "
             "endpoint, tracker state, byte string, local/source address and clock value the repaired receive path returns "
             "normally), dropped_inert (a datagram that is not a well-formed message for the endpoint fires no callback, "
             "sends nothing, schedules nothing and leaves the tracker state unchanged), dispatched_effect (a well-formed "
             "message has its effect; device keys stay unique), recv_sequence_total / recv_sequence_nodup (any sequence "
             "of datagrams to any endpoints), model_judged_ok (the run-time judge holds of the model's own outcome), "
             "classify_clock_irrelevant, responder_only_msearch, sites_covered (every call of a primitive that may raise on "
             "attacker-controlled text in the receive-path functions, enumerated from the source by ast, is a row of the table of "
             "sites the model accounts for), parser totality lemmas (IndexError and KeyError unreachable), and one decided "
             "witness datagram per repair showing that the unrepaired variant raises.  Tables (gate prefixes, default "
             "max-age, cache-control regex, the location test handed to is_usable_location, MX cap, jitter bounds, caught exception classes) are "
             "regenerated from the source on every run.  The model is tied to the code by differential runs through the real "
             "SsdpProtocol.datagram_received of all four endpoints, with a malformed stream generated per raising primitive "
             "and call site; the Lean judge is evaluated on the implementation's observations."),
    "note": ("Trusted: Lean kernel + standard axioms; the catalogue of raising primitives (which library calls can raise what) "
             "is pinned against the source (sites_covered) and validated by the differential stream; non-ASCII digits/blanks in MX and "
             "CACHE-CONTROL and URLs outside the modelled grammar are outside the model; the combined listener is the C03/C04 tracker "
             "model composed with the C01 decoder model (interface assumption proved: decode_guarantee), its callbacks compared exactly."),
    "technique": "Lean 4 proof (totality of an Except-model by case analysis, invariants over datagram sequences) + model/implementation correspondence",
}
RULE = ("sequences of 1..20 datagrams to one of five entry points (advertisement listener, search listener, SsdpListener via its "
        "advertisement socket / its search socket, search responder); datagrams: valid NOTIFY alive/update/byebye, M-SEARCH and 200 OK "
        "over 3 UDNs x types x IPv4/IPv6 locations x max-age values; byte-, token- and header-level mutations of them; a targeted family "
        "per raising primitive and call site (non-UTF-8 request line, 8190/8191-byte fields, datagrams at the UDP maximum, malformed header lines, LOCATION shapes "
        "that made urlsplit / hostname / port raise, max-age with 10..4301 digits and at the datetime boundary, MX shapes, spoofed "
        "metadata headers); senders IPv4 / IPv6 / scoped IPv6; clock gaps from 0 to hours so that devices expire. "
        "non-trivial = at least one datagram was dispatched (callback, send, timer or device change); distinct = distinct driver text")
EXHAUSTIVE = {"quick": False, "thorough": False}
ASSUMPTIONS = [
    "MX and CACHE-CONTROL values are ASCII in the compared stream: Python int(), \\d and \\s accept ~650 non-ASCII digits and 17 non-ASCII blanks; "
    "such values (family x:unicode-*) are run against the real code on every run and judged for 'no raise' only (flag x: outside the model)",
    "ST / USN / NT / NTS / MAN may be any text: str.lower() is modelled by ASCII lower-casing plus U+212A KELVIN SIGN -> k, the only non-ASCII "
    "character whose lower-case form is pure ASCII (enumerated over all code points at the start of every run); device UDNs and types are ASCII",
    "a LOCATION outside the modelled URL grammar from a scoped IPv6 sender is compared only for raise/no-raise; the model then adopts the implementation's tracker state",
    "the combined listener is the C03/C04 tracker model run on the C01 decoder's header map; its callback (device, type, source) is compared exactly",
    "datetime.now is a virtual clock (ssdp.datetime patched); the responder's event loop is a stub that records call_at",
]
TRUSTED = ["C02: which exception classes each primitive on the receive path can raise (catalogue in Model/C02Recv.lean) is validated by sampling only"]

BASE = datetime(2024, 1, 1)
DISCOVER = '"ssdp:discover"'
EPS = ["adv", "search", "ladv", "lsearch", "resp"]
ROOT_UDN = "uuid:00000000-0000-0000-0000-0000000000a1"
EMB_UDN = "uuid:00000000-0000-0000-0000-0000000000a2"
ROOT_TYPE = "urn:schemas-upnp-org:device:MediaServer:2"
EMB_TYPE = "urn:schemas-upnp-org:device:Speaker:1"   # has a `k`: U+212A KELVIN SIGN in ST lower-cases onto it
SVC_TYPES = ["urn:schemas-upnp-org:service:ContentDirectory:3", "urn:schemas-upnp-org:service:AVTransport:1"]


def tb(b: bytes) -> str:
    return tok_bytes(b)


def ts(s: str) -> str:
    return tok_bytes(s.encode("utf-8", "surrogateescape"))


def tok_addr(a) -> str:
    if len(a) == 2:
        return f"{ts(a[0])}:{a[1]}"
    return f"{ts(a[0])}:{a[1]}:{a[2]}:{a[3]}"


def us(d: datetime) -> int:
    x = d - BASE
    return (x.days * 86400 + x.seconds) * 1000000 + x.microseconds


def lst(items) -> str:
    items = list(items)
    return ",".join(items) if items else "~"


# ---- endpoints ------------------------------------------------------------------------------------

class LoopStub:
    """records call_at (the responder's deferred sends); never runs them"""

    def __init__(self) -> None:
        self.timers: List[Any] = []

    def time(self) -> float:
        return 0.0

    def call_at(self, when, cb, *args):
        self.timers.append((when, cb, args))
        return SimpleNamespace(cancel=lambda: None)


def make_device():
    import xml.etree.ElementTree as ET

    from async_upnp_client.client import UpnpRequester
    from async_upnp_client.const import DeviceInfo, ServiceInfo
    from async_upnp_client.server import UpnpServerDevice, UpnpServerService

    def dinfo(udn, dtype, name):
        return DeviceInfo(device_type=dtype, friendly_name=name, manufacturer="m", manufacturer_url=None, model_name="n",
                          model_url=None, udn=udn, upc=None, model_description="d", model_number="1", serial_number="1",
                          presentation_url=None, url="/device.xml", icons=[], xml=ET.Element("server_device"))

    def sinfo(stype, n):
        return ServiceInfo(service_id=f"urn:upnp-org:serviceId:S{n}", service_type=stype, control_url=f"/c{n}",
                           event_sub_url=f"/e{n}", scpd_url=f"/s{n}.xml", xml=ET.Element("server_service"))

    class S1(UpnpServerService):
        SERVICE_DEFINITION = sinfo(SVC_TYPES[0], 1)
        STATE_VARIABLE_DEFINITIONS: Dict[str, Any] = {}

    class S2(UpnpServerService):
        SERVICE_DEFINITION = sinfo(SVC_TYPES[1], 2)
        STATE_VARIABLE_DEFINITIONS: Dict[str, Any] = {}

    class Emb(UpnpServerDevice):
        DEVICE_DEFINITION = dinfo(EMB_UDN, EMB_TYPE, "emb")
        EMBEDDED_DEVICES: List[Any] = []
        SERVICES = [S2]

    class Root(UpnpServerDevice):
        DEVICE_DEFINITION = dinfo(ROOT_UDN, ROOT_TYPE, "root")
        EMBEDDED_DEVICES = [Emb]
        SERVICES = [S1]

    class Req(UpnpRequester):
        async def async_http_request(self, http_request):  # pragma: no cover - never called
            raise RuntimeError("no HTTP in this harness")

    return Root(Req(), "http://192.168.1.2:8000")


class Env:
    def __init__(self, recipe: Dict[str, Any]) -> None:
        from async_upnp_client import ssdp
        from async_upnp_client.advertisement import SsdpAdvertisementListener
        from async_upnp_client.search import SsdpSearchListener
        from async_upnp_client.server import SsdpSearchResponder
        from async_upnp_client.ssdp_listener import SsdpListener

        self.clock = 0
        env = self

        class FakeDT(datetime):
            @classmethod
            def now(cls, tz=None):  # noqa: ARG003
                return BASE + timedelta(microseconds=env.clock)

        ssdp.datetime = FakeDT  # type: ignore[attr-defined]
        for f in (ssdp._cached_decode_ssdp_packet, ssdp._cached_header_parse, ssdp.get_adjusted_url,
                  ssdp.udn_from_usn, ssdp.is_valid_ssdp_packet):
            if hasattr(f, "cache_clear"):
                f.cache_clear()
        self.loop = VirtualTimeLoop()
        asyncio.set_event_loop(self.loop)
        self.count = 0
        self.async_mode = recipe.get("cb", "sync") == "async"
        target_host = recipe.get("target", "")

        def cb(*_a):
            env.count += 1

        async def acb(*_a):
            env.count += 1

        kw = (lambda **names: {("async_" + k if env.async_mode else k): (acb if env.async_mode else cb) for k in names})
        self.adv = SsdpAdvertisementListener(loop=self.loop, **kw(on_alive=1, on_byebye=1, on_update=1))
        self.search = SsdpSearchListener(loop=self.loop, **({"async_callback": acb} if self.async_mode else {"callback": cb}))
        self.search._target_host = target_host
        self.cbs: List[str] = []

        def lcb(dev, dst, source):
            env.count += 1
            env.cbs.append(f"{ts(dev.udn)}|{ts(dst)}|{getattr(source, 'value', source)}")

        async def alcb(dev, dst, source):
            lcb(dev, dst, source)

        self.listener = SsdpListener(loop=self.loop, **({"async_callback": alcb} if self.async_mode else {"callback": lcb}))
        # what SsdpListener.async_start builds, without the sockets
        self.l_adv = SsdpAdvertisementListener(on_alive=self.listener._on_alive, on_update=self.listener._on_update,
                                               on_byebye=self.listener._on_byebye, loop=self.loop)
        self.l_search = SsdpSearchListener(callback=self.listener._on_search, loop=self.loop)
        self.l_search._target_host = target_host
        self.listener._advertisement_listener = self.l_adv
        self.listener._search_listener = self.l_search
        self.device = make_device()

        async def mk():
            return SsdpSearchResponder(self.device)

        self.responder = self.loop.run_until_complete(mk())
        self.rsock = FakeSocket(("192.168.1.2", 1900))
        self.responder._response_socket = self.rsock  # type: ignore[assignment]
        self.responder._transport = FakeTransport()  # type: ignore[assignment]
        self.stub = LoopStub()
        self.responder._loop = self.stub  # type: ignore[assignment]
        self.protos = {}
        for name, on_data in (("adv", self.adv._on_data), ("search", self.search._on_data), ("ladv", self.l_adv._on_data),
                              ("lsearch", self.l_search._on_data), ("resp", self.responder._on_data)):
            # the protocol's constructor configuration is a dimension of the case: the endpoint's `_on_data` is reached through
            # `on_data`, through `async_on_data` (a coroutine wrapper; what it raises is reported like a raise of the receive
            # path), or through `on_data` with a second, counting `async_on_data` next to it ("both": each must get every message)
            self.pcfg = recipe.get("proto", "on")
            self.dl = [0, 0]
            self.task_exc: List[BaseException] = []

            def sync_sink(rl, h, _f=on_data):
                env.dl[0] += 1
                _f(rl, h)

            async def async_sink(rl, h, _f=on_data):
                env.dl[1] += 1
                if env.pcfg == "async":
                    try:
                        _f(rl, h)
                    except Exception as e:  # noqa: BLE001 - reported by the harness as the escaping exception
                        env.task_exc.append(e)

            kw: Dict[str, Any] = {}
            if self.pcfg in ("on", "both"):
                kw["on_data"] = sync_sink
            if self.pcfg in ("async", "both"):
                kw["async_on_data"] = async_sink
            p = ssdp.SsdpProtocol(self.loop, **kw)
            p.transport = FakeTransport()  # type: ignore[assignment]
            self.protos[name] = p

    def cfg_line(self, target_host: str) -> str:
        d = self.device
        devs = lst(f"{ts(x.udn)}={ts(x.device_type)}" for x in d.all_devices)
        svcs = lst(ts(s.service_type) for s in d.all_services)
        return f"cfg target={ts(target_host)} root={ts(d.udn)} devs={devs} svcs={svcs} always=0 proto={self.pcfg}"

    def close(self) -> None:
        try:
            self.loop.run_until_complete(asyncio.sleep(0))
        finally:
            self.loop.close()
            asyncio.set_event_loop(None)


class _Swallow(logging.Handler):
    """formats every record (so that a bad format string / argument shows) and drops it"""

    def emit(self, record):  # noqa: D102
        record.getMessage()


def run_recipe(ctx: Ctx, recipe: Dict[str, Any], cid: str) -> Case:
    # the DEBUG-only branches of the receive path (`if _LOGGER.isEnabledFor(logging.DEBUG)` and the traffic logger) run in
    # about half of the cases; the records are formatted and dropped
    lg = logging.getLogger("async_upnp_client")
    old_level, old_prop = lg.level, lg.propagate
    handler = _Swallow()
    if recipe.get("debug"):
        lg.setLevel(logging.DEBUG)
        lg.propagate = False
        lg.addHandler(handler)
    try:
        return _run_recipe(ctx, recipe, cid)
    finally:
        lg.removeHandler(handler)
        lg.setLevel(old_level)
        lg.propagate = old_prop


def _run_recipe(ctx: Ctx, recipe: Dict[str, Any], cid: str) -> Case:
    env = Env(recipe)
    lines = [env.cfg_line(recipe.get("target", ""))]
    tags = set()
    nontrivial = False
    try:
        for op in recipe["ops"]:
            ep, hexdata, src, local, gap = op[:5]
            tag = op[5] if len(op) > 5 else None
            data = bytes.fromhex(hexdata)
            src = tuple(src)
            local = tuple(local) if local else None
            env.clock += int(gap)
            proto = env.protos[ep]
            proto.local_addr = local
            tracker = env.listener._device_tracker
            before = sorted(tracker.devices)
            c0, s0, t0 = env.count, len(env.rsock.sent), len(env.stub.timers)
            del env.cbs[:]
            del env.task_exc[:]
            env.dl[0] = env.dl[1] = 0
            tsent0 = sum(len(p.transport.sent) for p in env.protos.values())
            raised = "-"
            try:
                proto.datagram_received(data, src)
                if env.async_mode or env.pcfg != "on":
                    env.loop.run_until_complete(asyncio.sleep(0))
                    env.loop.run_until_complete(asyncio.sleep(0))
                    env.loop.run_until_complete(asyncio.sleep(0))
                if env.task_exc:
                    raise env.task_exc.pop()
            except Exception as e:  # noqa: BLE001 - the escaping exception is the observation
                raised = exc_token(e)
            cbn = env.count - c0
            sends = len(env.rsock.sent) - s0 + sum(len(p.transport.sent) for p in env.protos.values()) - tsent0
            timers = len(env.stub.timers) - t0
            devs = lst(f"{ts(k)}={us(v.valid_to)}" for k, v in tracker.devices.items())
            nx = tracker.next_valid_to
            outside = " x" if (tag or "").startswith("x:") or not in_model(data) else ""
            lines.append(f"dg {ep} {tb(data)} {tok_addr(src)} {tok_addr(local) if local else 'N'} {env.clock}{outside}")
            lines.append(f"eff raised={raised} cb={cbn} sends={sends} timers={timers} devs={devs} "
                         f"next={'N' if nx is None else us(nx)} before={lst(ts(k) for k in before)} "
                         f"after={lst(ts(k) for k in sorted(tracker.devices))} cbs={lst(env.cbs)} dl={env.dl[0]}:{env.dl[1]}")
            tags.add("ep:" + ep)
            if recipe.get("debug"):
                tags.add("log:debug")
            tags.add("proto:" + env.pcfg)
            if tag:
                tags.add("fam:" + tag)
            if raised != "-":
                tags.add("raised:" + raised)
            if cbn or sends or timers or before != sorted(tracker.devices):
                nontrivial = True
                tags.add("dispatched:" + ep)
            else:
                tags.add("inert:" + ep)
    finally:
        env.close()
    return Case(cid, lines, recipe, nontrivial, sorted(tags))


# ---- datagram generators --------------------------------------------------------------------------

UDNS = ["uuid:dev-1", "uuid:dev-2", "UUID:Dev-3"]
TYPES = ["upnp:rootdevice", "urn:schemas-upnp-org:device:Basic:1", "urn:schemas-upnp-org:service:X:1"]
LOCS = ["http://192.168.1.7:8000/desc.xml", "http://192.168.1.8/d", "http://[fe80::1]:8000/desc.xml", "http://[2001:db8::1]/d",
        "HTTP://[FE80::2]:80/", "https://10.0.0.9/x"]
INVALID_LOCS = ["", "ftp://x/", "http://127.0.0.1/d", "http://[::1]/d", "http://169.254.3.3/", "x http://a/"]
URL_RAISERS = ["http://[fe80::1/", "http://fe80::1]/", "http://[fe80::zz]/", "http://[1.2.3.4]/", "http://[]/",       # urlsplit ValueError
               "foo", "http:///x", "http://:80/", "//", "http:",                                                        # hostname assertion
               "http://[fe80::1]:99999/", "http://[fe80::1]:x/", "http://[fe80::1]:65536/", "http://169.254.1.1:-1/",
               "http://[fe80::1]:" + "9" * 4400 + "/"]                                                                   # port ValueError
MAX_AGES = ["max-age=1800", "max-age=1", "max-age = 5", "MAX-AGE=100", "no-cache", "max-age=", "max-age=0",
            "public, max-age=60", "max-age=x, max-age=7"]
MAX_AGE_RAISERS = ["max-age=" + "9" * n for n in (10, 11, 12, 13, 14, 15, 20, 100, 4300, 4301, 5000)] + [
    "max-age=86399999999999", "max-age=86400000000000", "max-age=251698233599", "max-age=251698233600", "max-age=251698233598",
    "max-age=" + "0" * 4301, "max-age=" + "0" * 4295 + "12345"]
MXS = ["-1", "-5", "0", "1", "2", "5", "6", "abc", "9" * 20, "-" + "9" * 20, "9" * 4301, "+2", " 3", "1_0", "1__0", "_1", "", "0x3", "3.0", "١"]
SRCS = [("192.168.1.7", 1900), ("192.168.1.7", 50000), ("fe80::1", 1900, 0, 0), ("fe80::1", 1900, 0, 3),
        ("2001:db8::5", 1900, 0, 0), ("fe80::2", 1900, 7, 12)]
SCOPED = [("fe80::1", 1900, 0, 3), ("fe80::2", 1900, 7, 12)]
LOCALS = [("192.168.1.2", 1900), None, ("fe80::10", 1900, 0, 3)]
GAPS = [0, 1, 1000, 10**6, 4 * 10**6, 6 * 10**6, 60 * 10**6, 901 * 10**6, 2000 * 10**6, 7200 * 10**6]


def pkt(sl: str, hs: List[List[str]]) -> bytes:
    return (sl + "\r\n" + "".join(f"{k}:{v}\r\n" for k, v in hs) + "\r\n").encode("utf-8", "surrogateescape")


def notify(nts: str, udn: str, typ: str, loc: Optional[str], cc: Optional[str], extra=()) -> bytes:
    hs = [["HOST", "239.255.255.250:1900"], ["NT", typ], ["NTS", nts], ["USN", udn if typ.startswith("uuid:") else f"{udn}::{typ}"]]
    if loc is not None:
        hs.append(["LOCATION", loc])
    if cc is not None:
        hs.append(["CACHE-CONTROL", cc])
    hs += [["SERVER", "x/1 UPnP/1.1 y/2"], ["BOOTID.UPNP.ORG", "1"]]
    hs += [list(e) for e in extra]
    return pkt("NOTIFY * HTTP/1.1", hs)


def response(udn: str, typ: str, loc: Optional[str], cc: Optional[str], extra=()) -> bytes:
    hs = [["CACHE-CONTROL", cc]] if cc is not None else []
    hs += [["EXT", ""], ["ST", typ], ["USN", f"{udn}::{typ}"], ["SERVER", "x/1 UPnP/1.1 y/2"]]
    if loc is not None:
        hs.append(["LOCATION", loc])
    hs += [list(e) for e in extra]
    return pkt("HTTP/1.1 200 OK", hs)


def msearch(st: str, mx: Optional[str], man: str = DISCOVER, extra=()) -> bytes:
    hs = [["HOST", "239.255.255.250:1900"], ["MAN", man]]
    if mx is not None:
        hs.append(["MX", mx])
    hs.append(["ST", st])
    hs += [list(e) for e in extra]
    return pkt("M-SEARCH * HTTP/1.1", hs)


KELVIN = "\u212a"
STS_UNICODE = [EMB_TYPE.replace("k", KELVIN), EMB_TYPE.replace("k", KELVIN).upper(), "urn:schemas-upnp-org:device:Spea\u212aer:0",
               "ssdp:a\u0130l", "ssdp:\u00c5ll", "upnp:rootdev\u0130ce", "upnp:rootdev\u0131ce", "UPNP:ROOTDEVICE\u212a", "ssdp:all\u00a0",
               ROOT_UDN.replace("a1", "\uff41\uff11"), "\u212a", "uu\u0130d:x"]
STS = ["ssdp:all", "upnp:rootdevice", ROOT_UDN, EMB_UDN.upper(), ROOT_TYPE, ROOT_TYPE[:-1] + "1", ROOT_TYPE[:-1] + "3", EMB_TYPE,
       SVC_TYPES[0], SVC_TYPES[0][:-1] + "0", SVC_TYPES[1].upper(), "urn:foreign:device:X:1", "uuid:unknown", "", "ssdp:ALL", ROOT_TYPE[:-2]]


def valid_datagram(rng) -> bytes:
    c = rng.randrange(10)
    udn, typ = rng.choice(UDNS), rng.choice(TYPES)
    loc = rng.choice(LOCS) if rng.random() < 0.9 else rng.choice(INVALID_LOCS + [None])
    cc = rng.choice(MAX_AGES + [None, None])
    if c < 3:
        return notify("ssdp:alive", udn, typ, loc, cc)
    if c == 3:
        return notify("ssdp:update", udn, typ, loc, cc)
    if c == 4:
        return notify("ssdp:byebye", udn, typ, None if rng.random() < 0.7 else loc, None)
    if c < 8:
        return response(udn, typ, loc, cc)
    return msearch(rng.choice(STS + STS_UNICODE), rng.choice(["1", "2", "5", None, "0"]))


ASCII_ONLY = re.compile(rb"^(mx|cache-control)\s*:(.*)$", re.I | re.M)


def in_model(data: bytes) -> bool:
    """MX / CACHE-CONTROL values must be ASCII (see ASSUMPTIONS); everything else may be any text"""
    for m in ASCII_ONLY.finditer(data.replace(b"\r\n", b"\n")):
        if any(b > 127 for b in m.group(2)):
            return False
    return True


def mutate(rng, data: bytes) -> bytes:
    b = bytearray(data)
    for _ in range(rng.choice([1, 1, 2, 3])):
        k = rng.randrange(10)
        pos = rng.randrange(len(b) + 1)
        if k == 0 and b:
            b[pos % len(b)] = rng.randrange(256)
        elif k == 1 and b:
            del b[pos % len(b)]
        elif k == 2:
            b[pos:pos] = bytes([rng.choice([0, 9, 10, 11, 13, 32, 58, 0x80, 0xC3, 0xE2, 0xFF, 65])])
        elif k == 3:
            b[pos:pos] = rng.choice([b"\r\n", b"\n", b"\r", b":", b" :", b"\r\n\r\n", b"\n\n"])
        elif k == 4 and b:
            del b[pos % len(b):]
        elif k == 5 and rng.random() < 0.2:
            b[pos:pos] = b"A" * rng.choice([8189, 8190, 8191])
        elif k == 6 and b:
            i = pos % len(b)
            b[i:i] = b[i:i + rng.randrange(1, 30)]
        elif k == 7:
            # token level: swap a header name / drop a header line / duplicate one
            ls = bytes(b).split(b"\r\n")
            if len(ls) > 3:
                i = rng.randrange(1, len(ls) - 2)
                c = rng.randrange(3)
                if c == 0:
                    del ls[i]
                elif c == 1:
                    ls.insert(i, ls[rng.randrange(1, len(ls) - 2)])
                else:
                    ls[i] = rng.choice([b"USN", b"NT", b"NTS", b"ST", b"MAN", b"LOCATION", b"_udn", b"_host", b"MX"]) + b":" + ls[i].partition(b":")[2]
                b = bytearray(b"\r\n".join(ls))
        elif k == 8:
            b[:0] = rng.choice([b" ", b"\r\n", b"\xff", b"\t"])
        else:
            b += rng.choice([b"", b"x", b"k:v\r\n", b" \r\n"])
    return bytes(b)


def targeted(rng) -> List[tuple]:
    """(family tag, datagram, sender or None) — one family per raising primitive and call site"""
    out: List[tuple] = []
    udn, typ, loc = "uuid:dev-1", "upnp:rootdevice", "http://192.168.1.7:8000/desc.xml"
    # bytes.decode of the request line (three kinds)
    for sl in (b"NOTIFY * HTTP/1.1", b"M-SEARCH * HTTP/1.1", b"HTTP/1.1 200 OK"):
        for bad in (b"\xff", b" \xc3", b"\xed\xa0\x80", b"\xf5\x80\x80\x80", b"\xc0\xaf"):
            out.append(("decode-request-line", sl + bad + b"\r\nNT:x\r\nNTS:ssdp:alive\r\nUSN:uuid:a\r\nLOCATION:http://a/\r\n\r\n", None))
        out.append(("decode-request-line-ok", sl + " é".encode() + b"\r\nNT:x\r\nNTS:ssdp:alive\r\n\r\n", None))
    # HeadersParser: LineTooLong at name / value, boundary
    for n in (8190, 8191):
        out.append((f"name-{n}", notify("ssdp:alive", udn, typ, loc, None, extra=[["N" * n, "v"]]), None))
        out.append((f"value-{n}", notify("ssdp:alive", udn, typ, loc, None, extra=[["X", "v" * n]]), None))
        out.append((f"value-{n}-padded", notify("ssdp:alive", udn, typ, loc, None, extra=[["X", "  " + "v" * (n - 1) + "\t"]]), None))
        out.append((f"search-value-{n}", msearch("ssdp:all", "1", extra=[["X", "v" * n]]), None))
    # HeadersParser: InvalidHeader shapes
    for line in (b"nocolon", b":novalue", b" lead:1", b"trail :1", b"na me:1", b"n\xc3\xa9:1", b"a:b\rc", b"a:b\x00c", b"\tX:1", b"a\x00:1"):
        out.append(("invalid-header", b"NOTIFY * HTTP/1.1\r\nNT:x\r\n" + line + b"\r\nNTS:ssdp:alive\r\n\r\n", None))
    # lines[1] / running off the end: no LF at all, nothing after the start line
    for d in (b"NOTIFY * HTTP/1.1", b"NOTIFY * HTTP/1.1\n", b"NOTIFY * HTTP/1.1\r\nA:1", b"HTTP/1.1 200 OK\r", b"", b"\n", b"M-SEARCH * HTTP/1.1\r\n\r\n"):
        out.append(("lines-index", d, None))
    # get_adjusted_url: urlsplit / hostname / port, from scoped and unscoped senders, through every message kind
    for u in URL_RAISERS:
        for s in SCOPED[:1] + [("192.168.1.7", 1900), ("fe80::1", 1900, 0, 0)]:
            out.append(("url", notify("ssdp:alive", udn, typ, u, None), s))
            out.append(("url", response(udn, typ, u, None), s))
        out.append(("url", msearch("ssdp:all", "0", extra=[["LOCATION", u]]), SCOPED[0]))
    # extract_uncache_after / extract_valid_to
    for cc in MAX_AGE_RAISERS:
        out.append(("max-age", notify("ssdp:alive", udn, typ, loc, cc), None))
        out.append(("max-age", response(udn, typ, loc, cc), None))
    # responder: int(mx) and the jitter range
    for mx in MXS:
        for st in ("ssdp:all", "upnp:rootdevice", "uuid:unknown"):
            out.append(("mx", msearch(st, mx), None))
    # datagrams at the UDP maximum: one giant field, thousands of header lines, a valid prefix followed by noise
    out.append(("udp-max", notify("ssdp:alive", udn, typ, loc, None, extra=[["X", "v" * 64000]]), None))
    out.append(("udp-max", notify("ssdp:alive", udn, typ, loc, "max-age=5", extra=[[f"H{i}", "v" * 55] for i in range(1000)]), None))
    out.append(("udp-max", response(udn, typ, loc, None, extra=[[f"H{i}", "w" * 100] for i in range(600)]), None))
    out.append(("udp-max", msearch("ssdp:all", "1", extra=[["USER-AGENT", "a" * 8000], ["X", "b" * 8190]]), None))
    out.append(("udp-max", b"NOTIFY * HTTP/1.1\r\n" + bytes((i * 37 + 11) % 256 for i in range(65400)), None))
    # the responder answers M-SEARCH only: other start lines with MAN "ssdp:discover" and a matching ST must send nothing
    for sl in ("NOTIFY * HTTP/1.1", "HTTP/1.1 200 OK", "M-SEARCH * HTTP/1.1 x", "M-SEARCH * HTTP/1.10", "M-SEARCH * HTTP/1.1\t"):
        for st in ("ssdp:all", "upnp:rootdevice", ROOT_UDN, ROOT_TYPE):
            for mx in ("0", "2", None):
                hs = [["HOST", "239.255.255.250:1900"], ["MAN", DISCOVER], ["ST", st]] + ([["MX", mx]] if mx is not None else [])
                out.append(("resp-startline", pkt(sl, hs), None))
    for man in ("ssdp:discover", '"ssdp:discover" ', '"SSDP:DISCOVER"', "", '"ssdp:discover"x'):
        out.append(("resp-man", msearch("ssdp:all", "0", man=man), None))
    # non-ASCII text where the code lower-cases or compares: ST (str.lower, U+212A -> k), USN prefix, NT / NTS / MAN
    for st in STS_UNICODE:
        out.append(("unicode-st", msearch(st, rng.choice(["0", "2"])), None))
    for usn in ("uu\u0130d:dev-1::x", "UU\u0131D:dev-1", "\u212auid:dev-1", "uuid:\u212a::upnp:rootdevice", "uuid:dev-\u0130", "\uff55uid:dev-1"):
        hs = [["NT", typ], ["NTS", "ssdp:alive"], ["USN", usn], ["LOCATION", loc]]
        out.append(("unicode-usn", pkt("NOTIFY * HTTP/1.1", hs), None))
        out.append(("unicode-usn", pkt("HTTP/1.1 200 OK", [["ST", typ], ["USN", usn], ["LOCATION", loc]]), None))
    for nts in ("ssdp:al\u0130ve", "ssdp:alive\u00a0", "SSDP:ALIVE", "ssdp:\u212a", "ssdp:bye\u0062ye\u0301"):
        out.append(("unicode-nts", pkt("NOTIFY * HTTP/1.1", [["NT", "upnp:rootdevice\u212a"], ["NTS", nts], ["USN", "uuid:dev-1"], ["LOCATION", loc]]), None))
    for man in ("\u201cssdp:discover\u201d", '"ssdp:d\u0130scover"', '"ssdp:discover"\u00a0', '"SSDP:DISCOVER\u212a"'):
        out.append(("unicode-man", msearch("ssdp:all", "0", man=man), None))
        out.append(("unicode-man", pkt("NOTIFY * HTTP/1.1", [["MAN", man], ["NT", typ], ["NTS", "ssdp:alive"], ["USN", "uuid:dev-1"], ["LOCATION", loc]]), None))
    # excluded points (ASSUMPTIONS): non-ASCII digits / blanks in MX and CACHE-CONTROL are run against the real code,
    # judged for "no raise" only (flag x: outside the model)
    for mx in ("\u0661", "\u0661\u0662", "\uff15", "\u00a02\u2003", "\u0967_\u0967", "-\u0663", "\u00b2", "\u2164"):
        out.append(("x:unicode-mx", msearch("ssdp:all", mx), None))
    for cc in ("max-age=\u0661\u0662", "max-age\u00a0=\u20035", "max-age=\uff11" + "\u0669" * 30, "max-age=" + "\u0660" * 4301, "max-age=\u00b9", "MAX-AGE=\u0e51"):
        out.append(("x:unicode-max-age", notify("ssdp:alive", udn, typ, loc, cc), None))
        out.append(("x:unicode-max-age", response(udn, typ, loc, cc), None))
    # F01a: a metadata name in two spellings next to a valid USN (the decoder's own value must win)
    for a, b in (("_udn", "_UDN"), ("_UDN", "_udn"), ("_host", "_HOST"), ("_Udn", "_uDN")):
        hs2 = [[a, "uuid:spoof-1"], [b, "uuid:spoof-2"], ["NT", typ], ["ST", typ], ["NTS", "ssdp:alive"], ["USN", "uuid:dev-1::" + typ], ["LOCATION", loc]]
        out.append(("spoof-two-spellings", pkt("NOTIFY * HTTP/1.1", hs2), None))
        out.append(("spoof-two-spellings", pkt("HTTP/1.1 200 OK", [h for h in hs2 if h[0] not in ("NT", "NTS")]), None))
    # metadata spoofing: `_udn` without a USN reaches `_see_device`
    for kind in ("alive", "search", "byebye"):
        hs = [["_udn", "uuid:spoof"], ["LOCATION", loc], ["NT", typ], ["ST", typ], ["NTS", "ssdp:" + ("byebye" if kind == "byebye" else "alive")]]
        if kind == "search":
            hs = [h for h in hs if h[0] not in ("NT", "NTS")]
            out.append(("spoof-udn", pkt("HTTP/1.1 200 OK", hs), None))
        else:
            out.append(("spoof-udn", pkt("NOTIFY * HTTP/1.1", hs), None))
        out.append(("spoof-udn", pkt("NOTIFY * HTTP/1.1", hs + [["USN", "urn:not-a-uuid"]]), None))
    return out


HEADER_NAMES = ["HOST", "CACHE-CONTROL", "LOCATION", "NT", "NTS", "SERVER", "USN", "ST", "MAN", "MX", "EXT", "DATE", "OPT", "01-NLS",
                "BOOTID.UPNP.ORG", "CONFIGID.UPNP.ORG", "NEXTBOOTID.UPNP.ORG", "SEARCHPORT.UPNP.ORG", "SECURELOCATION.UPNP.ORG",
                "CONTENT-LENGTH", "USER-AGENT", "TCPPORT.UPNP.ORG", "CPFN.UPNP.ORG", "CPUUID.UPNP.ORG"]
HOSTILE = ["", "abc", "-1", "9" * 25, "9" * 4301, "1.5", "0x10", "1e9", "http://[", "[::", "::", "%", "a:b:c", "\x0b", "1 2", "١٢", "é", "\t7"]


_SOURCE_NAMES: Optional[List[str]] = None


def source_header_names() -> List[str]:
    """every header name the library's SSDP modules look up (`get_lower("x")`, `get("x")`, `headers["x"]`), read from the
    source under test with `ast`: a vendor header parsed by a future change is attacked without anybody listing it"""
    global _SOURCE_NAMES
    if _SOURCE_NAMES is None:
        import ast

        from vk.core import REPO

        names = set()
        for f in ("ssdp.py", "advertisement.py", "search.py", "ssdp_listener.py", "server.py"):
            try:
                mod = ast.parse((REPO / "async_upnp_client" / f).read_text())
            except (OSError, SyntaxError):
                continue
            for n in ast.walk(mod):
                c = None
                if isinstance(n, ast.Call) and isinstance(n.func, ast.Attribute) and n.func.attr in ("get_lower", "get", "del_lower", "pop") and n.args:
                    c = n.args[0]
                elif isinstance(n, ast.Subscript):
                    c = n.slice
                if isinstance(c, ast.Constant) and isinstance(c.value, str) and c.value and not c.value.startswith("_") \
                        and all(ch in TOKEN_CHARS for ch in c.value):
                    names.add(c.value.upper())
        _SOURCE_NAMES = sorted(names)
    return _SOURCE_NAMES


TOKEN_CHARS = "!#$%&'*+-.^_`|~0123456789abcdefghijklmnopqrstuvwxyzABCDEFGHIJKLMNOPQRSTUVWXYZ"


def hostile(rng) -> bytes:
    """a valid message in which ONE known header (present or added) carries a hostile value: any int()/float()/URL
    parsing a future change applies to a header value on the receive path meets text it cannot parse"""
    pool = HEADER_NAMES + [n for n in source_header_names() if n not in HEADER_NAMES]
    name, val = (rng.choice(pool) if rng.random() < 0.85 else "X-" + "".join(rng.choice("ABCDEFGHIJ-") for _ in range(6))), rng.choice(HOSTILE)
    udn, typ, loc = rng.choice(UDNS), rng.choice(TYPES), rng.choice(LOCS)
    c = rng.randrange(4)
    if c == 0:
        d = notify(rng.choice(["ssdp:alive", "ssdp:update", "ssdp:byebye"]), udn, typ, loc, rng.choice(MAX_AGES + [None]))
    elif c == 1:
        d = response(udn, typ, loc, rng.choice(MAX_AGES + [None]))
    else:
        d = msearch(rng.choice(STS[:9]), rng.choice(["1", None, "0"]))
    ls = d.split(b"\r\n")
    line = f"{name}:{val}".encode("utf-8", "surrogateescape")
    for i in range(1, len(ls)):
        if ls[i].upper().startswith(name.encode() + b":"):
            ls[i] = line
            break
    else:
        ls.insert(rng.randrange(1, max(2, len(ls) - 2)), line)
    return b"\r\n".join(ls)


def seq_prefix(rng, n: int) -> List[list]:
    """valid traffic that fills the tracker"""
    ops = []
    for _ in range(n):
        d = valid_datagram(rng)
        ep = "lsearch" if d.startswith(b"HTTP/1.1 200") else ("resp" if d.startswith(b"M-SEARCH") else "ladv")
        ops.append([ep, d.hex(), list(rng.choice(SRCS)), list(rng.choice(LOCALS) or []) or None, rng.choice(GAPS[:7])])
    return ops


CORPUS = [
    # composition with the C03 tracker model: `urlparse` raises (suppressed) on an unbalanced bracket, so the new location has
    # no ip version and is NOT a change — the C03 model read `[fe80::1` as IPv6 (corrected by `C02.ipv`)
    {"ops": [["lsearch", response("uuid:dev-1", "upnp:rootdevice", "http://[fe80::1]:8000/desc.xml", "no-cache").hex(), ["192.168.1.7", 1900], None, 1000],
             ["ladv", notify("ssdp:alive", "uuid:dev-1", "upnp:rootdevice", "http://[fe80::1/", None).hex(), ["192.168.1.7", 1900], None, 4000000],
             ["ladv", notify("ssdp:alive", "uuid:dev-1", "upnp:rootdevice", "http://fe80::1]/", None).hex(), ["192.168.1.7", 1900], None, 1000]]},
    # §7 probes, each through the endpoint that raised
    {"ops": [["ladv", notify("ssdp:alive", "uuid:dev-1", "upnp:rootdevice", "http://192.168.1.7/d", None, extra=[["X", "v" * 8191]]).hex(), ["192.168.1.7", 1900], None, 1000]]},  # F02a
    {"ops": [["adv", (b"NOTIFY * HTTP/1.1 \xff\r\nNT:x\r\nNTS:ssdp:alive\r\n\r\n").hex(), ["192.168.1.7", 1900], None, 1000]]},  # F02b
    {"ops": [["lsearch", response("uuid:dev-1", "upnp:rootdevice", "http://[fe80::1/", None).hex(), ["fe80::1", 1900, 0, 3], None, 1000]]},  # F02c
    {"ops": [["search", response("uuid:dev-1", "upnp:rootdevice", "foo", None).hex(), ["fe80::1", 1900, 0, 3], None, 1000]]},  # F02d
    {"ops": [["ladv", notify("ssdp:alive", "uuid:dev-1", "upnp:rootdevice", "http://[fe80::1]:99999/", None).hex(), ["fe80::1", 1900, 0, 3], None, 1000]]},  # F02e
    {"ops": [["ladv", notify("ssdp:alive", "uuid:dev-1", "upnp:rootdevice", "http://192.168.1.7/d", "max-age=" + "9" * 20).hex(), ["192.168.1.7", 1900], None, 1000]]},  # F02f
    {"ops": [["lsearch", response("uuid:dev-1", "upnp:rootdevice", "http://192.168.1.7/d", "max-age=999999999999").hex(), ["192.168.1.7", 1900], None, 1000]]},  # F02g
    {"ops": [["ladv", notify("ssdp:alive", "uuid:dev-1", "upnp:rootdevice", "http://192.168.1.7/d", "max-age=" + "9" * 4301).hex(), ["192.168.1.7", 1900], None, 1000]]},  # F02h
    {"ops": [["resp", msearch("ssdp:all", "-1").hex(), ["192.168.1.7", 50000], None, 1000]]},  # F02i
    # F02j: a message without USN but with a spoofed `_udn` header purged expired devices although it was dropped
    {"ops": [["ladv", notify("ssdp:alive", "uuid:dev-1", "upnp:rootdevice", "http://192.168.1.7/d", "max-age=1").hex(), ["192.168.1.7", 1900], None, 1000],
             ["ladv", pkt("NOTIFY * HTTP/1.1", [["_udn", "uuid:spoof"], ["NT", "x"], ["NTS", "ssdp:alive"], ["LOCATION", "http://192.168.1.7/d"]]).hex(),
              ["192.168.1.7", 1900], None, 5 * 10**6]]},
    {"ops": [["lsearch", response("uuid:dev-1", "upnp:rootdevice", "http://192.168.1.7/d", "max-age=1").hex(), ["192.168.1.7", 1900], None, 1000],
             ["lsearch", pkt("HTTP/1.1 200 OK", [["_udn", "uuid:spoof"], ["ST", "x"], ["LOCATION", "http://192.168.1.7/d"]]).hex(),
              ["192.168.1.7", 1900], None, 5 * 10**6]]},
]


def gen_part(ctx: Ctx, kind: str, n: int, prefix: str) -> List[Case]:
    """n cases of one kind from ctx.rng (run inline in the quick tier, in worker processes in the thorough tier)"""
    rng = ctx.rng
    cases: List[Case] = []

    def add(ops, target="", cbm=None):
        rec = {"ops": ops, "target": target, "cb": cbm or rng.choice(["sync", "async"]), "debug": rng.random() < 0.5,
               "proto": rng.choice(["on", "on", "async", "both", "both"])}
        cases.append(run_recipe(ctx, rec, f"{prefix}{len(cases)}"))

    if kind == "targeted":
        # every family at every endpoint, alone and after valid traffic
        fam = targeted(rng)
        for _ in range(n):
            for tag, data, src in fam:
                if not in_model(data) and not tag.startswith("x:"):
                    continue
                for ep in EPS:
                    s = src or rng.choice(SRCS)
                    pre = seq_prefix(rng, rng.choice([0, 0, 2, 4]))
                    add(pre + [[ep, data.hex(), list(s), list(rng.choice(LOCALS) or []) or None, rng.choice(GAPS), tag]],
                        target=rng.choice(["", "", "192.168.1.7", "fe80::1%3"]))
    elif kind == "valid":
        # valid traffic, sequences of 1..20 datagrams
        for _ in range(n):
            ops = []
            for _ in range(rng.randrange(1, 21)):
                d = valid_datagram(rng)
                ops.append([rng.choice(EPS), d.hex(), list(rng.choice(SRCS)), list(rng.choice(LOCALS) or []) or None, rng.choice(GAPS), "valid"])
            add(ops, target=rng.choice(["", "", "192.168.1.7", "fe80::1%3"]))
    elif kind == "sandwich":
        # a dropped datagram between valid ones: tracker non-empty (same and other UDNs), responder timers pending
        pool = [(t, d) for t, d, _s in targeted(rng) if in_model(d)]
        for _ in range(n):
            udn_a, udn_b = rng.sample(UDNS, 2)
            typ, loc = rng.choice(TYPES), rng.choice(LOCS[:4])
            src = list(rng.choice(SRCS))
            mk = lambda ep, d, gap, tag: [ep, d.hex(), src if rng.random() < 0.7 else list(rng.choice(SRCS)), None, gap, tag]
            ops = [mk("ladv", notify("ssdp:alive", udn_a, typ, loc, rng.choice(["max-age=1800", "max-age=2", None])), 1000, "valid"),
                   mk("resp", msearch("ssdp:all", "3"), 1000, "valid"),
                   mk("lsearch", response(udn_b, typ, loc, "max-age=1800"), 1000, "valid")]
            for _ in range(rng.randrange(1, 4)):
                c = rng.randrange(4)
                if c == 0:
                    tag, d = rng.choice(pool)
                elif c == 1:   # claims the known UDN but is not a well-formed message
                    tag, d = "bad-same-udn", notify(rng.choice(["ssdp:alive", "ssdp:byebye", "ssdp:update"]), udn_a, typ,
                                                    rng.choice(INVALID_LOCS), None, extra=[["NT", ""]] if rng.random() < 0.3 else ())
                    if rng.random() < 0.5:
                        d = d.replace(b"USN:uuid:", b"USN:uid:").replace(b"USN:UUID:", b"USN:UID:")
                elif c == 2:   # another UDN, malformed
                    tag, d = "bad-other-udn", mutate(rng, response("uuid:dev-9", typ, rng.choice(INVALID_LOCS), None))
                else:
                    tag, d = "hostile", hostile(rng)
                if not in_model(d):
                    continue
                ops.append(mk(rng.choice(EPS), d, rng.choice(GAPS[:8]), tag))
                if rng.random() < 0.5:
                    ops.append(mk("ladv", notify("ssdp:alive", rng.choice([udn_a, udn_b]), typ, loc, None), rng.choice(GAPS[:6]), "valid"))
            ops.append(mk("ladv", notify("ssdp:byebye", udn_a, typ, None, None), 1000, "valid"))
            add(ops, target="")
    elif kind == "hostile":
        for _ in range(n):
            ops = seq_prefix(rng, rng.choice([0, 1, 3]))
            d = hostile(rng)
            if not in_model(d):
                continue
            for ep in rng.sample(EPS, 3):
                ops.append([ep, d.hex(), list(rng.choice(SRCS)), list(rng.choice(LOCALS) or []) or None, rng.choice(GAPS), "hostile"])
            add(ops, target=rng.choice(["", "", "192.168.1.7"]))
    elif kind == "mutated":
        # mutated stream inside valid traffic
        for _ in range(n):
            ops = seq_prefix(rng, rng.choice([0, 1, 3, 8]))
            for _ in range(4):
                d = mutate(rng, valid_datagram(rng))
                if not in_model(d):
                    continue
                ops.append([rng.choice(EPS), d.hex(), list(rng.choice(SRCS)), list(rng.choice(LOCALS) or []) or None, rng.choice(GAPS), "mutated"])
            add(ops, target=rng.choice(["", "", "192.168.1.7"]))
            if ctx.time_left() < 90:
                break
    else:
        raise ValueError(kind)
    return cases


def _worker(args) -> List[Case]:
    import time
    from pathlib import Path

    from vk import core

    tier, seed, kind, n, prefix = args
    core.activate_repo()
    ctx = Ctx("C02", tier, seed, Path("/tmp"), time.time() + 1200)
    return gen_part(ctx, kind, n, prefix)


def lower_to_ascii() -> List[int]:
    """every non-ASCII code point whose str.lower() is pure ASCII (the model's `lowerPy` knows exactly these)"""
    import sys

    return [c for c in range(128, sys.maxunicode + 1) if chr(c).lower().isascii()]


def generate(ctx: Ctx) -> List[Case]:
    got = lower_to_ascii()
    if got != [0x212A]:
        raise RuntimeError(f"Python's str.lower maps other non-ASCII characters onto ASCII than the model assumes: {[hex(c) for c in got]}")
    cases: List[Case] = []
    for i, rec in enumerate(CORPUS):
        cases.append(run_recipe(ctx, rec, f"corpus{i}"))
    if not ctx.thorough:
        for kind, n in (("targeted", 1), ("sandwich", 400), ("hostile", 600), ("valid", 900), ("mutated", 1300)):
            cases += gen_part(ctx, kind, n, kind[0])
        return cases
    import multiprocessing as mp

    jobs = []
    for kind, n, chunks in (("targeted", 1, 8), ("sandwich", 900, 8), ("hostile", 1100, 8), ("valid", 1300, 16), ("mutated", 1200, 24)):
        for c in range(chunks):
            jobs.append(("thorough", ctx.rng.randrange(1 << 30), kind, n, f"{kind[0]}{c}-"))
    with mp.Pool(min(16, mp.cpu_count())) as pool:
        for part in pool.imap(_worker, jobs):
            cases += part
    return cases


def signature(case: Case, verdict) -> str:
    eps = " ".join(sorted({ln.split()[1] for ln in case.lines if ln.startswith("dg ")}))
    return f"C02 eps[{eps}] {verdict.notes[:300]}"
