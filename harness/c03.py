"""C03 correspondence harness: real SsdpListener / SsdpDeviceTracker vs the Lean tracker model, judged by `Upnp.C03.ok`.
See DESIGN.md §5 C03 and design/C03.md."""
from __future__ import annotations

from typing import Any, Dict, List

from harness import c03_common as K
from vk.core import Case, Ctx

GEN_MODULES: List[str] = ["C03Tracker"]
MANIFEST = {
    "design_ref": "§5 C03",
    "text": ("Lean theorems over every history of tracker events (search/alive/update/byebye messages, explicit purges, dropped "
             "packets; arbitrary integer timestamps): the watermark invariant (next_valid_to is a lower bound of every valid_to), "
             "lazy purge = eager filter, presence of every device within its max-age with a location, no expired device after a "
             "sighting or purge, byebye removes exactly the named device, invalid messages create and refresh nothing; together: the "
             "judge C03.ok holds on every trace of the model (c03_history). The model is tied to ssdp_listener.py by generated "
             "constants (default max-age, regex text, validity needles, comparison operators) pinned by decide-theorems and by a "
             "per-event differential check through the real listener stack; the same judge runs on the implementation's device maps. New in round 2: present_within_max_age as a standalone theorem; the string layer is characterised (max-age regex reads any decimal numeral, default otherwise; udn_from_usn; needles; ip version range) and invalid_inert_raw / valid_search_raw / c03_history_raw state the results on the raw decoded headers (whole model: dispatch + string layer + tracker). Round 4: saturating max-age / valid_to inside the model (max_age_saturates, valid_to_saturates, saturated_never_expires), ipaddress-faithful IPv6 recogniser with Parse.ipVersion_v6."),
    "note": ("Trusted: Lean kernel + propext/Classical.choice/Quot.sound; the max-age regex, udn_from_usn, the location test and "
             "ip_version_from_location are hand-modelled for ASCII input and the URL grammar of the generator (sampled, not proved); "
             "header maps are the abstract maps of C16; datetime arithmetic is integer microseconds (overflow is C02's concern); "
             "a location is judged by its parsed host (Parse.locUsable = is_usable_location: http/https URL whose host is not loopback / IPv4 link-local); F03a / F04a are fixed, their inputs stay as a regression stream; legacy shorthand hosts (127.1) are names."),
    "technique": "Lean 4 proof (invariants by induction over event histories) + generated-constant pins + model/implementation correspondence",
}
RULE = ("histories of raw SSDP datagrams (search responses, ssdp:alive/update/byebye, invalid and dropped packets) over 3 devices x 3 "
        "types x 7 locations (IPv4/IPv6/scoped/hostname) x 11 cache-control forms x time gaps {0, +-1 us, 1..2000 s, negative} plus "
        "explicit purges, sent through SsdpProtocol.datagram_received of a real SsdpListener; after every event the device map "
        "(keys, valid_to, _locations, location, next_valid_to, stored headers of the sender) is compared with the model and the "
        "trace is judged by C03.ok. corpus first, then all sequences to a fixed depth over 8 templates x 3 gaps, then random. "
        "non-trivial = at least one notification and two events; distinct = distinct canonical driver text")
EXHAUSTIVE = {"quick": False, "thorough": False}
ASSUMPTIONS = [
    "header names and values are ASCII (str.lower / regex classes on non-ASCII are outside the model)",
    "timestamps are integers (microseconds) on the harness' axis (epoch 2020-01-01), all within [datetime.min, datetime.max]; the saturating sums of extract_uncache_after / extract_valid_to are modelled (Cfg.tMax, tdMaxUs, tdLimitSec, intMaxDigits are CPython constants, not extracted from the library)",
    "_udn is what decode_ssdp_packet derives from the USN (or a literal _udn header when there is no uuid USN)",
    "URLs follow scheme://[user@]host[:port]/path with host a dotted quad, a name or a bracketed IPv6 literal",
]
TRUSTED = ["C03/C04: CPython dict order and CaseInsensitiveDict are modelled by PyDict / the C16 abstract map"]

run_recipe = K.run_recipe
signature = K.signature


def recipes(ctx: Ctx):
    out = []
    i = 0
    for rec in K.CORPUS:
        out.append((f"corpus{i}", rec))
        i += 1
    depth = 3 if ctx.thorough else 2
    for ops in K.exhaustive_histories(depth):
        out.append((f"e{i}", {"ops": ops, "cbs": ["both", "sync", "async"][i % 3], "target": K.TARGETS[(i // 3) % 8] if (i // 3) % 8 < 4 else None}))
        i += 1
    for nd in ([70, 130] if not ctx.thorough else [70, 130, 200, 300, 90, 150, 65, 100]):
        out.append((f"m{i}", {"ops": K.many_devices_history(ctx.rng, nd)}))
        i += 1
    for _ in range(40 if ctx.thorough else 12):
        out.append((f"f{i}", {"ops": K.f03a_history(ctx.rng)}))
        i += 1
    n_random = 18000 if ctx.thorough else 1200
    for _ in range(n_random):
        n = ctx.rng.randrange(2, 60 if ctx.thorough else 30)
        mode = ctx.rng.randrange(4)
        if mode == 0:   # one device, dense in time
            ops = K.rand_history(ctx.rng, n, udns=K.UDNS[:1], types=K.TYPES[:2])
        elif mode == 1:  # many invalid / purge
            ops = K.rand_history(ctx.rng, n, p_invalid=0.35, p_purge=0.25)
        else:
            ops = K.rand_history(ctx.rng, n)
        out.append((f"r{i}", {"ops": ops, "cbs": ctx.rng.choice(["both", "both", "sync", "async"]), "target": K.rand_target(ctx.rng)}))
        i += 1
    return out


def generate(ctx: Ctx) -> List[Case]:
    return K.run_all(ctx, recipes(ctx))
