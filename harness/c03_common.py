"""Shared harness of C03 and C04: drives a real `SsdpListener` (real `async_start` on fake sockets, real
`SsdpProtocol.datagram_received` -> `decode_ssdp_packet` -> `_on_data` -> tracker -> user callbacks) with datagrams whose
receive time the harness controls (`ssdp.datetime.now` is replaced), and writes the line protocol of
lean/Upnp/Model/C03Wire.lean.  Recipes are lists of raw packets, so a replay re-sends exactly the same bytes."""
from __future__ import annotations

import asyncio
import itertools
from datetime import datetime, timedelta
from enum import Enum
from typing import Any, Dict, List, Optional, Tuple

from harness.common import FakeSocket, FakeTransport, VirtualTimeLoop, tok_str
from vk.core import Case, Ctx

BASE = datetime(2020, 1, 1)
US = timedelta(microseconds=1)
SEC = 1_000_000


TMAX = (datetime.max - BASE) // US   # datetime.max on the harness' time axis (= Cfg.tMax in lean/Upnp/Spec/C03Cfg.lean)
TMIN = (datetime.min - BASE) // US
assert TMAX == 251824463999999999, "the epoch of the harness and Cfg.tMax must agree"


def clamp(ts: int) -> int:
    return max(TMIN, min(TMAX, ts))


def to_us(dt: datetime) -> int:
    return (dt - BASE) // US


def cv(v: Any) -> str:
    """canonical text of a header value"""
    if isinstance(v, Enum):
        return str(v.value)
    if isinstance(v, str):
        return str(v)
    if isinstance(v, datetime):
        return str(to_us(v))
    return repr(v)


class _Sock(FakeSocket):
    def bind(self, address) -> None:  # advertisement.async_start binds
        self.bound = address

    def setsockopt(self, *a) -> None:
        pass


class RigLoop(VirtualTimeLoop):
    """virtual-time loop whose datagram endpoints are fakes: the protocol factory is called and connected to a FakeTransport"""

    def __init__(self) -> None:
        super().__init__()
        self.protos: List[Any] = []

    async def create_datagram_endpoint(self, protocol_factory, *a, **kw):  # type: ignore[override]
        proto = protocol_factory()
        tr = FakeTransport()
        proto.connection_made(tr)
        self.protos.append(proto)
        return tr, proto


class Rig:
    """one listener under test + the line writer"""

    def __init__(self, loop: RigLoop, cbs: str = "both", target: Optional[List[Any]] = None) -> None:
        from async_upnp_client import advertisement, search, ssdp, ssdp_listener
        from async_upnp_client.ssdp_listener import SsdpDeviceTracker, SsdpListener

        self.loop = loop
        self.now_us = 0
        self.lines: List[str] = []
        self.ids: Dict[str, int] = {}
        self.tags: set = set()
        self._mods = (advertisement, search, ssdp, ssdp_listener)
        self._saved = (advertisement.get_ssdp_socket, search.get_ssdp_socket, ssdp.datetime, ssdp_listener.datetime)
        rig = self

        class FakeNow(datetime):
            """the wall clock of both modules: local time is the virtual clock; UTC lies 9 h behind (so that a
            library that confuses the two is seen)"""

            @classmethod
            def now(cls, tz=None):
                return BASE + rig.now_us * US

            @classmethod
            def utcnow(cls):
                return BASE + rig.now_us * US - timedelta(hours=9)

        def fake_socket(source, target):
            return _Sock(("192.168.1.2", 1900)), source, target

        advertisement.get_ssdp_socket = fake_socket
        search.get_ssdp_socket = fake_socket
        ssdp.datetime = FakeNow
        ssdp_listener.datetime = FakeNow
        self.tracker = SsdpDeviceTracker()
        kw = {"both": dict(async_callback=self._acb, callback=self._cb), "sync": dict(callback=self._cb),
              "async": dict(async_callback=self._acb)}[cbs]
        if target is not None:
            kw["target"] = tuple(target)   # unicast mode of the search listener (set up by the real async_start)
        self.listener = SsdpListener(device_tracker=self.tracker, loop=loop, **kw)
        self.lines.append(f"mode {cbs}")
        # the filter host the harness EXPECTS for this configuration (its own reading of the configuration, not
        # the listener's attribute): none for the multicast default, else the target's ip, with %scope when scoped
        if target is None:
            self.lines.append("target -")
        else:
            host = target[0] if len(target) < 4 or not target[3] else f"{target[0]}%{target[3]}"
            self.lines.append(f"target {self.sid(host)}")
        self.tags.add("target:" + ("multicast" if target is None else "unicast4" if len(target) == 2 else
                                   "unicast6-scoped" if target[3] else "unicast6"))
        self.tags.add(f"cbs:{cbs}")
        self.captured: Optional[Tuple] = None

    def restore(self) -> None:
        advertisement, search, ssdp, ssdp_listener = self._mods
        advertisement.get_ssdp_socket, search.get_ssdp_socket, ssdp.datetime, ssdp_listener.datetime = self._saved

    async def start(self) -> None:
        await self.listener.async_start()
        adv, srch = self.loop.protos  # async_start creates the advertisement listener first
        self.proto = {"A": adv, "S": srch}
        for name, p in self.proto.items():
            p.on_data = self._wrap(name, p.on_data)

    # ---- line writer -------------------------------------------------------------------------------
    def sid(self, s: str) -> str:
        i = self.ids.get(s)
        if i is None:
            i = len(self.ids)
            self.ids[s] = i
            self.lines.append(f"str {tok_str(s)}")
        return str(i)

    def pairs(self, items) -> str:
        out = [f"{self.sid(str(k))}={self.sid(cv(v))}" for k, v in items]
        return ",".join(out) if out else "~"

    def keylist(self, keys) -> str:
        out = [self.sid(str(k)) for k in keys]
        return ",".join(out) if out else "~"

    def look(self, u: Optional[str], ty: Optional[str]) -> str:
        d = self.listener.devices.get(u) if u is not None else None
        head = f"{'-' if u is None else self.sid(u)} {'-' if ty is None else self.sid(ty)}"
        if d is None:
            return f"{head} 0 ~ ~ ! !"
        sh = d.search_headers.get(ty) if ty is not None else None
        ah = d.advertisement_headers.get(ty) if ty is not None else None
        return (f"{head} 1 {self.keylist(d.search_headers)} {self.keylist(d.advertisement_headers)} "
                f"{'!' if sh is None else self.pairs(sh.as_dict().items())} "
                f"{'!' if ah is None else self.pairs(ah.as_dict().items())}")

    def snap(self) -> str:
        nx = self.tracker.next_valid_to
        devs = self.listener.devices
        out = [f"snap {'-' if nx is None else to_us(nx)} {len(devs)}"]
        for udn, d in devs.items():
            locs = ",".join(f"{self.sid(loc)}={to_us(vt)}" for loc, vt in d._locations.items()) or "~"  # noqa: SLF001
            loc = d.location
            out.append(f"{self.sid(udn)} {to_us(d.valid_to)} {'-' if d.last_seen is None else to_us(d.last_seen)} "
                       f"{locs} {'-' if loc is None else self.sid(loc)}")
        return " ".join(out)

    # ---- user callbacks ------------------------------------------------------------------------------
    def _note_cb(self, flavour: str, device, dst, source) -> None:
        comb = device.combined_headers(dst)
        self.lines.append(f"cb {flavour} {self.sid(device.udn)} {self.sid(str(dst))} {cv(source)} {self.pairs(comb.as_dict().items())}")
        self.tags.add(f"cb:{cv(source)}")
        allc = device.all_combined_headers
        if dst not in allc or allc[dst].as_dict() != comb.as_dict():
            self.lines.append("exc all_combined_headers-disagrees")

    def _cb(self, device, dst, source) -> None:
        self._note_cb("s", device, dst, source)

    async def _acb(self, device, dst, source) -> None:
        self._note_cb("a", device, dst, source)

    # ---- events ------------------------------------------------------------------------------------------
    def _wrap(self, name: str, orig):
        def on_data(request_line, headers):
            u = headers.get_lower("_udn")
            ty = headers.get_lower("st" if name == "S" else "nt")
            u = u if isinstance(u, str) and u else None
            ty = ty if isinstance(ty, str) and ty else None
            toks = [f"{self.sid(str(k))}={self.sid(cv(v))}" for k, v in headers.as_dict().items()]
            self.lines.append(f"msg {name} {' '.join(toks)}")
            self.lines.append(f"pre {self.look(u, ty)}")
            self.captured = (u, ty)
            orig(request_line, headers)
        return on_data

    async def packet(self, sock: str, ts_us: int, data: bytes, addr: tuple, sent: Optional[List[List[str]]] = None) -> None:
        self.now_us = ts_us
        self.captured = None
        try:
            self.proto[sock].datagram_received(data, addr)
        except Exception as e:  # noqa: BLE001 - reported as an observation (the model never raises)
            self.lines.append(f"exc {type(e).__name__}")
            self.tags.add(f"exc:{type(e).__name__}")
        for _ in range(3):
            await asyncio.sleep(0)
        if self.captured is None and sent is not None:
            # the harness knows what it sent: a well-formed SSDP message that never reached `_on_data` is judged as the
            # message it is (headers as built, plus the receive time and the udn of a uuid USN), not as noise
            pairs = [[k.strip(), v.strip()] for k, v in sent] + [["_timestamp", str(ts_us)]]
            usn = next((v.strip() for k, v in sent if k.strip().lower() == "usn"), "")
            if usn.lower().startswith("uuid:"):
                pairs.append(["_udn", usn.partition("::")[0]])
            toks = [f"{self.sid(k)}={self.sid(v)}" for k, v in pairs]
            self.lines.append(f"lost {sock} {ts_us} {' '.join(toks)}")
            self.tags.add("ev:lost")
        elif self.captured is None:
            self.lines.append(f"drop {ts_us}")
            self.tags.add("ev:drop")
        else:
            self.lines.append(f"post {self.look(*self.captured)}")
        self.lines.append(self.snap())

    async def purge(self, ts_us: int, wall: bool = False) -> None:
        if wall:  # the no-argument form applications call: "purge now" (wall clock = the virtual clock)
            self.now_us = ts_us
            try:
                self.tracker.purge_devices()
            except Exception as e:  # noqa: BLE001
                self.lines.append(f"exc {type(e).__name__}")
            self.tags.add("ev:purge-wallclock")
        else:
            self.tracker.purge_devices(BASE + ts_us * US)
        self.lines.append(f"purge {ts_us}")
        self.lines.append(self.snap())
        self.tags.add("ev:purge")


def build_packet(first_line: str, headers: List[List[str]]) -> bytes:
    return (first_line + "\r\n" + "".join(f"{k}:{v}\r\n" for k, v in headers) + "\r\n").encode()


def run_ops(ops: List[Any], cbs: str = "both", target: Optional[List[Any]] = None) -> Tuple[List[str], List[str]]:
    """run one history on a fresh listener; returns (lines, tags)"""
    loop = RigLoop()
    asyncio.set_event_loop(loop)
    rig = None
    try:
        rig = Rig(loop, cbs, target)

        async def go():
            await rig.start()
            for op in ops:
                if op[0] == "pkt":
                    _, sock, ts, first, hdrs, addr = op
                    rig.tags.add(f"ev:{op_kind(op)}")
                    await rig.packet(sock, int(ts), build_packet(first, hdrs), tuple(addr), sent=hdrs)
                elif op[0] == "raw":
                    _, sock, ts, hexdata, addr = op
                    rig.tags.add("ev:raw")
                    await rig.packet(sock, int(ts), bytes.fromhex(hexdata), tuple(addr))
                elif op[0] == "purge":
                    await rig.purge(int(op[1]))
                elif op[0] == "purge0":
                    await rig.purge(int(op[1]), wall=True)
            return rig.lines

        lines = loop.run_until_complete(go())
        return lines, sorted(rig.tags)
    finally:
        if rig is not None:
            rig.restore()
        asyncio.set_event_loop(None)
        loop.close()


def op_kind(op) -> str:
    if op[0] != "pkt":
        return op[0]
    first, hdrs = op[3], op[4]
    h = {k.lower(): v for k, v in hdrs}
    if first.startswith("HTTP/1.1 200"):
        return "search" + ("@A" if op[1] == "A" else "")
    if first.startswith("M-SEARCH"):
        return "msearch"
    return h.get("nts", "notify-no-nts").replace("ssdp:", "") + ("@S" if op[1] == "S" else "")


def run_recipe(ctx: Optional[Ctx], recipe: Dict[str, Any], cid: str) -> Case:
    lines, tags = run_ops(recipe["ops"], recipe.get("cbs", "both"), recipe.get("target"))
    nontrivial = any(ln.startswith("cb ") for ln in lines) and sum(1 for ln in lines if ln.startswith("snap ")) >= 2
    return Case(cid, lines, recipe, nontrivial, tags)


# ---------------------------------------------------------------------------------------------------------
# generators (pure: recipes only; the real code runs in run_recipe)

UDNS = ["uuid:aaaaaaaa-0000-0000-0000-000000000001", "uuid:bbbbbbbb-0000-0000-0000-000000000002", "UUID:cccc-3", "uuid:d:e-4"]
TYPES = ["upnp:rootdevice", "urn:schemas-upnp-org:device:MediaServer:1", "urn:schemas-upnp-org:service:ContentDirectory:1"]
ADDR4 = ["192.168.1.10", 1900]
ADDR4B = ["192.168.1.11", 1900]
ADDR6 = ["2001:db8::10", 1900, 0, 0]
ADDR6LL = ["fe80::1", 1900, 0, 3]
ADDR6LL_OTHER_SCOPE = ["fe80::1", 1900, 0, 4]    # the same address through another interface
ADDR4_OTHER_PORT = ["192.168.1.10", 50000]        # the same host, another source port
# configurations of the search listener: multicast default, unicast IPv4, unicast IPv6 unscoped, unicast IPv6 link-local
TARGETS = [None, ["192.168.1.10", 1900], ["2001:db8::10", 1900, 0, 0], ["fe80::1", 1900, 0, 3]]


def rand_target(rng):
    return None if rng.random() < 0.6 else rng.choice(TARGETS[1:])


GOOD_LOCS = [
    ("http://192.168.1.10:80/desc.xml", ADDR4),
    ("http://192.168.1.11:8080/desc.xml", ADDR4B),
    ("http://[2001:db8::10]:80/desc.xml", ADDR6),
    ("http://[fe80::1]:80/desc.xml", ADDR6LL),     # adjusted to [fe80::1%3] by get_adjusted_url
    ("https://tv.example:443/d", ADDR4),             # no ip version
    ("http://[::ffff:10.2.3.4]:80/m", ADDR6),         # embedded IPv4 (IPv4-mapped, not loopback / link-local)
    ("http://[2001:db8::11]/x", ADDR6),
    ("http://[2001:db8:0:1:2:3:4:5]:8080/full", ADDR6),   # full form
    ("http://[1:2:3:4:5:6:7::]/t", ADDR6),                # trailing ::
    ("http://[::2:3]/l", ADDR6),                          # leading ::
]
# regression corpus of the fixed findings F03a / F04a: locations the library used to accept (they start with "http" and
# contain none of its former three substrings) although the property text forbids them or they are no http(s) URL with a host
TEXT_BAD_LOCS = ["http://127.0.0.2:80/d", "http://user@127.0.0.1/d", "http://[0:0:0:0:0:0:0:1]/d", "http://[::0001]/d",
                 "http://localhost/d", "http://user@169.254.7.7/d", "http://[::ffff:169.254.7.7]/d", "httpx://192.168.1.7/d",
                 "http-but-not-a-url", "http://[fe80::1/", "http://127.9.9.9:1/", "http://[::ffff:127.0.0.1]/", "http:///nohost",
                 "http://[1::2:3:4:5:6:7:8]/bad"]   # the last: 8 hextets with `::` — ip_address refuses, urlsplit raises
BAD_LOCS = ["http://127.0.0.1:80/d", "http://[::1]:80/d", "http://169.254.7.7/d", "ftp://192.168.1.10/d", "", "xhttp://192.168.1.10/",
            "HTTP://192.168.1.10/"]
CACHE = [None, "max-age=1", "max-age=5", "max-age=1800", "max-age=3600", "max-age=7200", "max-age=86400", "max-age=1000000", "max-age = 5", "MAX-AGE=7", "no-cache", "max-age=0",
         "public, max-age=30", "max-age=", "xmax-age=4, max-age=9", "max-age=007", "max-age=12abc", "Max-Age \t= \t3, x",
         "no-store, MAX-AGE=2;q", "m=1, ma=2, max-age-x=3"]
# saturation (C02's fixes): 10 digits (representable), 12 digits (valid_to beyond datetime.max), the timedelta boundary,
# 20 digits (timedelta refuses), 4301 digit characters (int() refuses; with and without leading zeros), 4300 (accepted)
HUGE = ["max-age=9999999999", "max-age=999999999999", "max-age=86399999999999", "max-age=86400000000000",
        "max-age=" + "7" * 20, "max-age=" + "1" * 4301, "max-age=" + "0" * 4300 + "5", "max-age=" + "0" * 4299 + "5",
        "max-age=251824463999", "max-age=251824464000"]
GAPS_S = [0, 0, 1, 1, 4, 6, 2000, -1, 899, 900, 901, 5, 7, 30, 1799, 1801, -5, 3000, 5000, 50000, 900000]
EXTRA = [
    [], [["BOOTID.UPNP.ORG", "1"]], [["BOOTID.UPNP.ORG", "2"]], [["Bootid.upnp.org", "1"]], [["bootid.upnp.org", "2"]],
    [["CONFIGID.UPNP.ORG", "7"]], [["CONFIGID.UPNP.ORG", "8"], ["BOOTID.UPNP.ORG", "1"]],
    [["X-Custom", "a"]], [["x-custom", "b"]], [["X-Custom", "abc"]], [["X-Custom", "ABC"]], [["x-custom", "Abc"]],
    [["X-Custom", "abc "]], [["X-Custom", "abcd"]], [["BOOTID.UPNP.ORG", "1 "]], [["CONFIGID.UPNP.ORG", "A7"]], [["CONFIGID.UPNP.ORG", "a7"]], [["SERVER", "Linux UPnP/1.0 x/1"]], [["SERVER", "other/2"]],
    [["DATE", "Mon, 01 Jan 2020 00:00:00 GMT"]], [["DATE", "Tue"]], [["_private", "1"]], [["_private", "2"]],
    [["EXT", ""]], [["HOST", "239.255.255.250:1900"]],
]


def usn_of(udn: str, ty: str) -> str:
    return udn if ty.startswith("uuid:") else f"{udn}::{ty}"


def mk_search(ts, udn, ty, loc, addr, cache, extra, sock="S"):
    h = []
    if cache is not None:
        h.append(["CACHE-CONTROL", cache])
    h.append(["EXT", ""])
    if loc is not None:
        h.append(["LOCATION", loc])
    h.append(["SERVER", "OS/1 UPnP/1.1 prod/1"])
    if ty is not None:
        h.append(["ST", ty])
    if udn is not None:
        h.append(["USN", usn_of(udn, ty or "upnp:rootdevice")])
    names = {k.lower() for k, _ in extra}
    h = [p for p in h if p[0].lower() not in names] + [list(p) for p in extra]
    return ["pkt", sock, ts, "HTTP/1.1 200 OK", h, addr]


def mk_notify(ts, nts, udn, ty, loc, addr, cache, extra, sock="A"):
    h = [["HOST", "239.255.255.250:1900"]]
    if cache is not None:
        h.append(["CACHE-CONTROL", cache])
    if loc is not None:
        h.append(["LOCATION", loc])
    if ty is not None:
        h.append(["NT", ty])
    if nts is not None:
        h.append(["NTS", nts])
    h.append(["SERVER", "OS/1 UPnP/1.1 prod/1"])
    if udn is not None:
        h.append(["USN", usn_of(udn, ty or "upnp:rootdevice")])
    names = {k.lower() for k, _ in extra}
    h = [p for p in h if p[0].lower() not in names] + [list(p) for p in extra]
    return ["pkt", sock, ts, "NOTIFY * HTTP/1.1", h, addr]


def rand_valid(rng, ts, udns=UDNS, types=TYPES):
    udn = rng.choice(udns)
    ty = rng.choice(types)
    loc, addr = rng.choice(GOOD_LOCS[:4]) if rng.random() < 0.8 else rng.choice(GOOD_LOCS)
    if rng.random() < 0.08:
        ty = udn  # the UDA device advertisement: NT / ST uuid:<device-UUID> with the bare USN uuid:<device-UUID>
    cache = rng.choice(CACHE[:8]) if rng.random() < 0.7 else rng.choice(CACHE)
    if rng.random() < 0.04:
        cache = rng.choice(HUGE)
    extra = rng.choice(EXTRA[:7]) if rng.random() < 0.7 else rng.choice(EXTRA)
    if rng.random() < 0.12:
        addr = {tuple(ADDR6LL): ADDR6LL_OTHER_SCOPE, tuple(ADDR4): ADDR4_OTHER_PORT}.get(tuple(addr), addr)
    c = rng.randrange(10)
    if c < 4:
        return mk_search(ts, udn, ty, loc, addr, cache, extra)
    if c < 7:
        return mk_notify(ts, "ssdp:alive", udn, ty, loc, addr, cache, extra)
    if c < 8:
        return mk_notify(ts, "ssdp:update", udn, ty, loc, addr, cache, extra)
    if rng.random() < 0.5:
        return mk_notify(ts, "ssdp:byebye", udn, ty, None, addr, None, extra)
    return mk_notify(ts, "ssdp:byebye", udn, ty, loc, addr, cache, extra)


def rand_invalid(rng, ts):
    udn = rng.choice(UDNS)
    ty = rng.choice(TYPES)
    loc, addr = rng.choice(GOOD_LOCS[:4])
    cache = rng.choice(CACHE[:4])
    c = rng.randrange(16)
    nts = rng.choice(["ssdp:alive", "ssdp:update"])
    if c == 0:
        return mk_search(ts, None, ty, loc, addr, cache, [])                       # no USN
    if c == 1:
        return mk_notify(ts, nts, None, ty, loc, addr, cache, [])
    if c == 2:
        return mk_search(ts, udn, ty, loc, addr, cache, [["USN", "urn:not-a-uuid::" + ty]])
    if c == 3:
        return mk_search(ts, udn, None, loc, addr, cache, [["USN", udn]])         # no ST
    if c == 4:
        return mk_notify(ts, nts, udn, None, loc, addr, cache, [["USN", udn]])    # no NT
    if c == 5:
        return mk_search(ts, udn, ty, rng.choice(BAD_LOCS), ADDR4, cache, [])  # not from a scoped sender: see f03a_history
    if c == 6:
        return mk_notify(ts, nts, udn, ty, rng.choice(BAD_LOCS), ADDR4, cache, [])
    if c == 7:
        return mk_search(ts, udn, ty, None, addr, cache, [])                       # no LOCATION
    if c == 8:
        return mk_search(ts, None, ty, loc, addr, cache, [["_udn", udn]])          # literal _udn header, no USN: ignored, state untouched
    if c == 9:
        return mk_notify(ts, nts, None, ty, loc, addr, cache, [["_UDN", udn]])
    if c == 10:
        return mk_notify(ts, "ssdp:foo", udn, ty, loc, addr, cache, [])           # unknown NTS
    if c == 11:
        return mk_notify(ts, nts, udn, ty, loc, addr, cache, [], sock="S")         # NOTIFY on the search socket
    if c == 12:
        return mk_search(ts, udn, ty, loc, addr, cache, [], sock="A")              # response on the advertisement socket
    if c == 13:
        return ["pkt", rng.choice("SA"), ts, "M-SEARCH * HTTP/1.1",
                [["HOST", "239.255.255.250:1900"], ["MAN", '"ssdp:discover"'], ["MX", "4"], ["ST", ty]], addr]
    if c == 14:
        return ["raw", rng.choice("SA"), ts, rng.choice([b"", b"GET / HTTP/1.1\r\n\r\n", b"NOTIFY", b"\xff\xfe\r\n"]).hex(), addr]
    return mk_notify(ts, "ssdp:byebye", None, ty, None, addr, None, [["_udn", udn]])  # byebye without uuid USN


def start_time(rng) -> int:
    """mostly around the epoch; sometimes within seconds of datetime.max / datetime.min"""
    r = rng.random()
    if r < 0.06:
        return TMAX - rng.choice([0, 1, 3 * SEC, 10 * SEC, 2000 * SEC])
    if r < 0.09:
        return TMIN + rng.choice([0, 1, 3 * SEC, 2000 * SEC])
    return rng.randrange(0, 5) * SEC


def rand_history(rng, n: int, p_invalid=0.15, p_purge=0.12, udns=UDNS, types=TYPES) -> List[Any]:
    ts = start_time(rng)
    ops = []
    for _ in range(n):
        gap = rng.choice(GAPS_S) * SEC
        if rng.random() < 0.15:
            gap += rng.choice([1, -1, 500_000])
        ts = clamp(ts + gap)
        r = rng.random()
        if r < p_purge:
            ops.append([rng.choice(["purge", "purge0"]), ts])
        elif r < p_purge + p_invalid:
            ops.append(rand_invalid(rng, ts))
        else:
            ops.append(rand_valid(rng, ts, udns, types))
    return ops


def many_devices_history(rng, ndev: int) -> List[Any]:
    """`ndev` devices (UDNs from a counter) announced within seconds of each other with a long max-age, then a few
    purges / refreshes / byebyes while all of them are still valid: every one must stay known"""
    ts = 0
    ops = []
    for i in range(ndev):
        ts += rng.choice([0, 0, 1]) * SEC
        udn = f"uuid:many-{i:04d}"
        loc = f"http://10.{i // 250}.{i % 250}.7:80/d"
        addr = [f"10.{i // 250}.{i % 250}.7", 1900]
        cache = rng.choice(["max-age=1800", "max-age=3600", None])
        if rng.random() < 0.5:
            ops.append(mk_search(ts, udn, TYPES[0], loc, addr, cache, []))
        else:
            ops.append(mk_notify(ts, "ssdp:alive", udn, TYPES[0], loc, addr, cache, []))
    for _ in range(6):
        ts += rng.choice([1, 30, 200]) * SEC
        i = rng.randrange(ndev)
        c = rng.randrange(4)
        if c == 0:
            ops.append([rng.choice(["purge", "purge0"]), ts])
        elif c == 1:
            ops.append(mk_notify(ts, "ssdp:byebye", f"uuid:many-{i:04d}", TYPES[0], None, [f"10.{i // 250}.{i % 250}.7", 1900], None, []))
        else:
            ops.append(mk_search(ts, f"uuid:many-{i:04d}", TYPES[0], f"http://10.{i // 250}.{i % 250}.7:80/d",
                                 [f"10.{i // 250}.{i % 250}.7", 1900], "max-age=1800", []))
    return ops


def f03a_history(rng) -> List[Any]:
    """one or two messages whose location the library used to accept although the text forbids it (fixed F03a / F04a)"""
    ts = rng.randrange(0, 5) * SEC
    loc = rng.choice(TEXT_BAD_LOCS)
    addr = ADDR4
    if rng.random() < 0.15:
        # an IPv4 link-local location announced by a scoped IPv6 sender used to be rewritten by get_adjusted_url to
        # http://[169.254.7.7%3]/d, which did not contain the substring "://169.254" and was accepted
        loc, addr = "http://169.254.7.7/d", ADDR6LL
    udn = rng.choice(UDNS)
    ty = rng.choice(TYPES)
    ops = []
    if rng.random() < 0.5:
        ops.append(mk_search(ts, rng.choice(UDNS), ty, *GOOD_LOCS[0], "max-age=1800", []))
    if rng.random() < 0.5:
        ops.append(mk_search(ts + SEC, udn, ty, loc, addr, "max-age=1800", []))
    else:
        ops.append(mk_notify(ts + SEC, rng.choice(["ssdp:alive", "ssdp:update"]), udn, ty, loc, addr, "max-age=1800", []))
    return ops


def exhaustive_histories(depth: int) -> List[List[Any]]:
    """all sequences of `depth` steps over a reduced alphabet: (template, gap) with running time"""
    u1, u2 = UDNS[0], UDNS[1]
    t1 = TYPES[0]
    l1, a1 = GOOD_LOCS[0]
    l2, a2 = GOOD_LOCS[1]
    l6, a6 = GOOD_LOCS[2]
    templates = [
        lambda ts: mk_search(ts, u1, t1, l1, a1, "max-age=5", []),
        lambda ts: mk_search(ts, u1, t1, l2, a2, None, [["BOOTID.UPNP.ORG", "2"]]),
        lambda ts: mk_notify(ts, "ssdp:alive", u1, t1, l1, a1, "max-age=5", []),
        lambda ts: mk_notify(ts, "ssdp:alive", u2, t1, l6, a6, "max-age=1", []),
        lambda ts: mk_notify(ts, "ssdp:update", u1, TYPES[1], l6, a6, "max-age=1800", []),
        lambda ts: mk_notify(ts, "ssdp:byebye", u1, t1, None, a1, None, []),
        lambda ts: ["purge", ts],
        lambda ts: mk_search(ts, u2, t1, "http://127.0.0.1/x", a1, "max-age=5", []),
    ]
    gaps = [0, 3 * SEC, 6 * SEC]
    alphabet = list(itertools.product(range(len(templates)), gaps))
    out = []
    for seq in itertools.product(alphabet, repeat=depth):
        ts = 0
        ops = []
        for ti, gap in seq:
            ts += gap
            ops.append(templates[ti](ts))
        out.append(ops)
    return out


# design-time probes and minimised past failures: always run first
CORPUS: List[Dict[str, Any]] = [
    # a device is purged lazily by the next sighting of another device, and exactly at validity + 1 µs
    {"ops": [mk_search(0, UDNS[0], TYPES[0], *GOOD_LOCS[0], "max-age=5", []),
             mk_notify(5 * SEC, "ssdp:alive", UDNS[1], TYPES[0], *GOOD_LOCS[1], "max-age=1800", []),
             mk_notify(5 * SEC + 1, "ssdp:alive", UDNS[1], TYPES[0], *GOOD_LOCS[1], "max-age=1800", [])]},
    # shrinking validity lowers the watermark
    {"ops": [mk_search(0, UDNS[0], TYPES[0], *GOOD_LOCS[0], "max-age=1800", []),
             mk_search(1 * SEC, UDNS[0], TYPES[0], *GOOD_LOCS[0], "max-age=1", []),
             ["purge", 3 * SEC]]},
    # default max-age 900 s
    {"ops": [mk_search(0, UDNS[0], TYPES[0], *GOOD_LOCS[0], None, []), ["purge", 900 * SEC], ["purge", 900 * SEC + 1]]},
    # byebye removes only the named device and does not purge
    {"ops": [mk_search(0, UDNS[0], TYPES[0], *GOOD_LOCS[0], "max-age=1", []),
             mk_search(0, UDNS[1], TYPES[0], *GOOD_LOCS[1], "max-age=1", []),
             mk_notify(10 * SEC, "ssdp:byebye", UDNS[1], TYPES[0], None, ADDR4B, None, [])]},
    # literal _udn header without USN: passes valid_search_headers, then _see_device ignores it without purging (F02j)
    {"ops": [mk_search(0, UDNS[0], TYPES[0], *GOOD_LOCS[0], "max-age=1", []),
             mk_search(10 * SEC, None, TYPES[0], *GOOD_LOCS[0], "max-age=5", [["_udn", UDNS[1]]])]},
    # header spelling changes between two alives; BOOTID change; volatile header change
    {"ops": [mk_notify(0, "ssdp:alive", UDNS[0], TYPES[0], *GOOD_LOCS[0], "max-age=1800", [["BOOTID.UPNP.ORG", "1"]]),
             mk_notify(1 * SEC, "ssdp:alive", UDNS[0], TYPES[0], *GOOD_LOCS[0], "max-age=1800", [["Bootid.upnp.org", "1"]]),
             mk_notify(2 * SEC, "ssdp:alive", UDNS[0], TYPES[0], *GOOD_LOCS[0], "max-age=1800", [["bootid.upnp.org", "2"]]),
             mk_notify(3 * SEC, "ssdp:alive", UDNS[0], TYPES[0], *GOOD_LOCS[0], "max-age=5", [["bootid.upnp.org", "2"], ["SERVER", "x"]]),
             mk_search(4 * SEC, UDNS[0], TYPES[0], *GOOD_LOCS[0], "max-age=5", []),
             mk_search(5 * SEC, UDNS[0], TYPES[0], *GOOD_LOCS[1], "max-age=5", []),
             mk_search(6 * SEC, UDNS[0], TYPES[0], *GOOD_LOCS[2], "max-age=5", []),
             mk_notify(7 * SEC, "ssdp:update", UDNS[0], TYPES[0], *GOOD_LOCS[0], "max-age=5", []),
             mk_notify(8 * SEC, "ssdp:byebye", UDNS[0], TYPES[0], None, ADDR4, None, [])]},
    # expired-but-unpurged location: second location outlives the first, then the first comes back
    {"ops": [mk_search(0, UDNS[0], TYPES[0], *GOOD_LOCS[0], "max-age=5", []),
             mk_search(1 * SEC, UDNS[0], TYPES[0], *GOOD_LOCS[1], "max-age=1800", []),
             mk_search(2 * SEC, UDNS[1], TYPES[0], *GOOD_LOCS[1], "max-age=1", []),
             mk_search(10 * SEC, UDNS[0], TYPES[0], *GOOD_LOCS[0], "max-age=1800", []),
             mk_search(11 * SEC, UDNS[0], TYPES[0], *GOOD_LOCS[0], "max-age=1800", [])]},
]


CORPUS += [
    # saturation: 12 digits -> valid_to = datetime.max; 20 digits / 4301 digit characters -> timedelta.max -> datetime.max;
    # a saturated device survives a purge at datetime.max and is refreshed down by a later small max-age
    {"ops": [mk_search(0, UDNS[0], TYPES[0], *GOOD_LOCS[0], "max-age=999999999999", []),
             mk_search(1 * SEC, UDNS[1], TYPES[0], *GOOD_LOCS[1], "max-age=" + "7" * 20, []),
             mk_notify(2 * SEC, "ssdp:alive", UDNS[2], TYPES[0], *GOOD_LOCS[2], "max-age=" + "0" * 4300 + "5", []),
             mk_notify(2 * SEC, "ssdp:alive", UDNS[3], TYPES[0], *GOOD_LOCS[1], "max-age=" + "0" * 4299 + "5", []),
             ["purge", TMAX], mk_search(TMAX, UDNS[0], TYPES[0], *GOOD_LOCS[0], "max-age=5", []), ["purge", TMAX],
             mk_search(5 * SEC, UDNS[0], TYPES[0], *GOOD_LOCS[0], "max-age=1", []), ["purge", 7 * SEC]]},
    # the timedelta boundary and the datetime boundary
    {"ops": [mk_search(0, UDNS[0], TYPES[0], *GOOD_LOCS[0], "max-age=86399999999999", []),
             mk_search(0, UDNS[1], TYPES[0], *GOOD_LOCS[1], "max-age=86400000000000", []),
             mk_search(0, UDNS[2], TYPES[0], *GOOD_LOCS[2], "max-age=251824463999", []),
             mk_search(1, UDNS[3], TYPES[0], *GOOD_LOCS[1], "max-age=251824463999", []),
             ["purge", TMAX - 1], ["purge", TMAX]]},
    # the same datagram twice (audit C03-4): the second one refreshes the validity (seen at 3 with max-age 5 -> valid to 8)
    {"ops": [mk_search(0, UDNS[0], TYPES[0], *GOOD_LOCS[0], "max-age=5", []),
             mk_search(3 * SEC, UDNS[0], TYPES[0], *GOOD_LOCS[0], "max-age=5", []), ["purge", 6 * SEC],
             mk_notify(7 * SEC, "ssdp:update", UDNS[0], TYPES[0], *GOOD_LOCS[0], "max-age=5", []),
             mk_notify(8 * SEC, "ssdp:update", UDNS[0], TYPES[0], *GOOD_LOCS[0], "max-age=5", []), ["purge0", 12 * SEC]]},
    # URLs on which the URL layer of the model once differed from ip_version_from_location (found by the C02 engineer):
    # embedded IPv4, TAB inside the URL (urlsplit removes it), both as second locations of a device known at IPv6 / IPv4
    {"ops": [mk_search(0, UDNS[0], TYPES[0], "http://[2001:db8::10]:80/desc.xml", ADDR6, "max-age=1800", []),
             mk_search(1 * SEC, UDNS[0], TYPES[0], "http://[::ffff:10.2.3.4]/", ADDR6, "max-age=1800", []),
             mk_search(2 * SEC, UDNS[0], TYPES[0], "http://[fe80::1\t]/", ADDR6, "max-age=1800", []),
             mk_search(3 * SEC, UDNS[0], TYPES[0], "http://[fe80::1]:80/a\tb", ADDR6, "max-age=1800", []),
             mk_search(4 * SEC, UDNS[1], TYPES[0], "http://192.168.1.10:80/desc.xml", ADDR4, "max-age=1800", []),
             mk_search(5 * SEC, UDNS[1], TYPES[0], "http://[::ffff:10.2.3.4]/", ADDR6, "max-age=1800", []),
             mk_search(6 * SEC, UDNS[1], TYPES[0], "http://u:p@192.168.1.12:80/x", ADDR4, "max-age=1800", [])]},
    # unicast search listener (regression batch 3): scoped IPv6 target; responses from the target host, from the same address
    # with another scope, from another host; advertisements are not filtered
    {"target": ["fe80::1", 1900, 0, 3],
     "ops": [mk_search(0, UDNS[0], TYPES[0], "http://[fe80::1]:80/desc.xml", ADDR6LL, "max-age=1800", []),
             mk_search(1 * SEC, UDNS[1], TYPES[0], "http://[fe80::1]:80/desc.xml", ADDR6LL_OTHER_SCOPE, "max-age=1800", []),
             mk_search(2 * SEC, UDNS[2], TYPES[0], *GOOD_LOCS[0], "max-age=1800", []),
             mk_notify(3 * SEC, "ssdp:alive", UDNS[3], TYPES[0], *GOOD_LOCS[1], "max-age=1800", []),
             mk_search(4 * SEC, UDNS[0], TYPES[0], "http://[fe80::1]:80/desc.xml", ADDR6LL, "max-age=1800", []), ["purge", 5 * SEC]]},
    {"target": ["192.168.1.10", 1900],
     "ops": [mk_search(0, UDNS[0], TYPES[0], GOOD_LOCS[0][0], ADDR4_OTHER_PORT, "max-age=5", []),
             mk_search(1 * SEC, UDNS[1], TYPES[0], *GOOD_LOCS[1], "max-age=5", []),
             mk_search(2 * SEC, UDNS[0], TYPES[0], *GOOD_LOCS[0], "max-age=5", [["BOOTID.UPNP.ORG", "2"]])]},
    {"target": ["2001:db8::10", 1900, 0, 0],
     "ops": [mk_search(0, UDNS[0], TYPES[0], *GOOD_LOCS[2], "max-age=5", []),
             mk_search(1 * SEC, UDNS[1], TYPES[0], *GOOD_LOCS[3], "max-age=5", [])]},
    # timestamps at datetime.min, equal and backwards
    {"ops": [mk_search(TMIN, UDNS[0], TYPES[0], *GOOD_LOCS[0], "max-age=5", []),
             mk_search(TMIN, UDNS[1], TYPES[0], *GOOD_LOCS[1], None, []),
             mk_notify(TMIN + 6 * SEC, "ssdp:alive", UDNS[1], TYPES[0], *GOOD_LOCS[1], "max-age=1", []),
             mk_notify(TMIN + 2 * SEC, "ssdp:alive", UDNS[0], TYPES[0], *GOOD_LOCS[0], "max-age=1", []),
             ["purge", TMIN + 4 * SEC]]},
]


def _worker(args):
    from vk.core import activate_repo
    activate_repo()
    out = []
    for cid, rec in args:
        out.append(run_recipe(None, rec, cid))
    return out


def run_all(ctx: Ctx, recipes: List[Tuple[str, Dict[str, Any]]]) -> List[Case]:
    """run recipes on the real code; thorough tier uses worker processes"""
    if not ctx.thorough or len(recipes) < 2000:
        return [run_recipe(ctx, rec, cid) for cid, rec in recipes]
    import multiprocessing as mp
    import os
    n = min(16, os.cpu_count() or 4)
    chunks = [recipes[i::n] for i in range(n)]
    with mp.get_context("fork").Pool(n) as pool:
        res = pool.map(_worker, chunks)
    by_id = {c.cid: c for part in res for c in part}
    return [by_id[cid] for cid, _ in recipes]


def signature(case: Case, verdict) -> str:
    kinds = " ".join(sorted({t for t in case.tags if t.startswith("ev:")}))
    return f"{kinds} | {verdict.notes[:300]}"
