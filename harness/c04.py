"""C04 correspondence harness: the C03 rig (real SsdpListener on fake sockets, both callback flavours registered, combined
headers read inside the callbacks) with histories that stress the change tests; judged by `Upnp.C04.ok`.
See DESIGN.md §5 C04 and design/C04.md."""
from __future__ import annotations

from typing import Any, Dict, List

from harness import c03_common as K
from vk.core import Case, Ctx

GEN_MODULES: List[str] = ["C03Tracker"]
MANIFEST = {
    "design_ref": "§5 C04",
    "text": ("Lean theorems over every history of tracker events: each model step satisfies the notification relation C04.stepOk "
             "(at most one notification, for the sender and the message's type; search_changed / advertisement_alive exactly when "
             "the device, the type or a location in a known address family is new or a non-volatile header differs from the "
             "previous message of that kind and type; update always; byebye iff known; invalid never; stored headers replaced "
             "before the callback; combined = search overlaid by advertisement), hence C04.ok on every model trace (c04_history); "
             "same_headers_differ, location_changed and combined_headers are proved equal to their declarative readings. Tied to "
             "the code by generated constants (IGNORED_HEADERS, private prefix) and by the per-event differential check through "
             "the real listener stack with both the synchronous and the coroutine callback. New in round 2: combined_keywise (header by header: advertisement value if present else search value), stored_headers_nodup, combined_keywise_notified (no side hypothesis left), c04_history_raw on raw decoded headers. Round 4: saturation and IPv6 recogniser as in C03; ipv6_after_ipv4_is_no_change."),
    "note": ("Trusted: Lean kernel + standard axioms; header maps are the abstract maps of C16 (ASCII names); "
             "ip_version_from_location is hand-modelled for the generator's URL grammar; whether a location whose own validity "
             "lapsed still counts as known is left open by the text and both readings are accepted by the judge; "
             "user callbacks are assumed not to mutate the headers they are handed."),
    "technique": "Lean 4 proof (step relation by case analysis, history by induction) + generated-constant pins + model/implementation correspondence",
}
RULE = ("the C03 history space with header variation: BOOTID/CONFIGID/custom/volatile/private header values and spellings changing "
        "between consecutive messages of one device and type, several locations per device in both address families, "
        "expiry between messages; both callback flavours registered; combined_headers(type) and all_combined_headers read inside "
        "the callback. After every event the sender's stored search/advertisement headers, the callbacks and the device map are "
        "compared with the model and judged by C04.ok. non-trivial = at least one notification and two events")
EXHAUSTIVE = {"quick": False, "thorough": False}
ASSUMPTIONS = [
    "header names and values are ASCII",
    "timestamps are integers (microseconds) on the harness' axis (epoch 2020-01-01), all within [datetime.min, datetime.max]",
    "URLs follow scheme://[user@]host[:port]/path with host a dotted quad, a name or a bracketed IPv6 literal",
    "callbacks do not mutate the device or the headers",
]
TRUSTED = ["C03/C04: CPython dict order and CaseInsensitiveDict are modelled by PyDict / the C16 abstract map"]

run_recipe = K.run_recipe
signature = K.signature


def chatty_history(rng, n: int) -> List[Any]:
    """one or two devices, few types, many header variations, mostly small gaps"""
    udns = K.UDNS[: rng.choice([1, 1, 2])]
    types = K.TYPES[: rng.choice([1, 2, 3])]
    ts = K.start_time(rng)
    ops = []
    for _ in range(n):
        ts = K.clamp(ts + rng.choice([0, 1, 1, 2, 4, 6, 30, 901, -1]) * K.SEC)
        udn = rng.choice(udns)
        ty = rng.choice(types)
        loc, addr = rng.choice(K.GOOD_LOCS)
        cache = rng.choice(K.CACHE[:5]) if rng.random() > 0.03 else rng.choice(K.HUGE)
        extra = [list(p) for p in rng.choice(K.EXTRA)]
        if rng.random() < 0.3:
            extra += [list(p) for p in rng.choice(K.EXTRA) if p[0].lower() not in {e[0].lower() for e in extra}]
        c = rng.randrange(20)
        if c < 8:
            ops.append(K.mk_search(ts, udn, ty, loc, addr, cache, extra))
        elif c < 15:
            ops.append(K.mk_notify(ts, "ssdp:alive", udn, ty, loc, addr, cache, extra))
        elif c < 17:
            ops.append(K.mk_notify(ts, "ssdp:update", udn, ty, loc, addr, cache, extra))
        elif c < 18:
            ops.append(K.mk_notify(ts, "ssdp:byebye", udn, ty, None, addr, None, extra))
        elif c < 19:
            ops.append(K.rand_invalid(rng, ts))
        else:
            ops.append([rng.choice(["purge", "purge0"]), ts])
    return ops


def recipes(ctx: Ctx):
    out = []
    i = 0
    for rec in K.CORPUS:
        out.append((f"corpus{i}", rec))
        i += 1
    depth = 3 if ctx.thorough else 2
    for ops in K.exhaustive_histories(depth):
        out.append((f"e{i}", {"ops": ops, "cbs": ["both", "sync", "async"][i % 3], "target": K.TARGETS[(i // 3) % 8] if (i // 3) % 8 < 4 else None}))
        i += 1
    for nd in ([70, 130] if not ctx.thorough else [70, 130, 200, 300, 90, 150, 65, 100]):
        out.append((f"m{i}", {"ops": K.many_devices_history(ctx.rng, nd)}))
        i += 1
    for _ in range(40 if ctx.thorough else 12):
        out.append((f"f{i}", {"ops": K.f03a_history(ctx.rng)}))
        i += 1
    n_random = 14000 if ctx.thorough else 1200
    for _ in range(n_random):
        n = ctx.rng.randrange(2, 60 if ctx.thorough else 30)
        if ctx.rng.random() < 0.6:
            ops = chatty_history(ctx.rng, n)
        else:
            ops = K.rand_history(ctx.rng, n)
        out.append((f"r{i}", {"ops": ops, "cbs": ctx.rng.choice(["both", "both", "sync", "async"]), "target": K.rand_target(ctx.rng)}))
        i += 1
    return out


def generate(ctx: Ctx) -> List[Case]:
    return K.run_all(ctx, recipes(ctx))
