"""C05 correspondence harness: abstract device descriptions rendered to XML *text* (with layout /
prefix / ordering variation), served through a fake requester to the real UpnpFactory; the created
UpnpDevice graph is dumped through its public attributes and compared with the Lean factory model
(Model/C05Factory.lean, run on the trees rendered by Lean from the same abstract description) and judged
against `mirror` (Spec/C05.lean).  See DESIGN.md §5 C05 and design/C05.md."""
from __future__ import annotations

import asyncio
import json
from typing import Any, Dict, List, Optional
from urllib.parse import urljoin
from xml.sax.saxutils import escape, quoteattr

from harness import c08
from harness.common import exc_token, tok_str
from vk.core import Case, Ctx

GEN_MODULES: List[str] = ["C08Types"]
MANIFEST = {
    "design_ref": "§5 C05",
    "text": ("Lean theorem factory_mirror: for every well-formed abstract description (any tree of embedded devices, any "
             "number of services, state variables of every type of the generated type table with ranges, allowed lists, "
             "defaults and either sendEvents notation, actions with arguments, icons) the factory model run on the XML "
             "trees rendered from it produces exactly `mirror`: the same devices/services/actions in order, every argument "
             "bound to the state variable NAMED by relatedStateVariable, type/range/allowed/default/evented metadata read "
             "with the type's converter, URLs joined to the description URL; strict_refuses / nonstrict_degrades: a "
             "foreign root, missing state table or unparsable SCPD is UpnpXmlContentError/UpnpXmlParseError in strict "
             "mode and an empty service in non-strict mode. The model is tied to client_factory.py/client.py by a "
             "differential check of the full dump of the created object graph on documents rendered to text in many "
             "layouts; the Lean judge compares the implementation's dump with `mirror`."),
    "note": ("Trusted: Lean kernel + standard axioms; XML text -> tree (expat/defusedxml, prefixes, whitespace, entities) "
             "and urllib.parse.urljoin are outside the proof (urljoin is modelled for the grammar scheme://netloc/path?query "
             "and compared on every case); element names are symbolic in the model, their spelling is exercised by the "
             "harness renderer; data-type semantics come from the C08 model/table."),
    "technique": "Lean 4 proof (structural induction over the device tree) + model/implementation correspondence",
}
RULE = ("random abstract descriptions: device trees of depth 0..3, 0..4 services per device, 0..6 state variables per "
        "service over all 26 data types (range / allowed list / default present or absent, sendEvents as attribute, "
        "element, both or absent), 0..4 actions with 0..4 in/out arguments, 0..3 icons, every optional element present or "
        "absent, relative / absolute-path / dot-segment / absolute / network-path URLs over several description URLs; "
        "strict and non-strict factories; any subset of service documents replaced by a foreign root, garbage, a "
        "document without state table, or an HTTP error; a separate malformed stream (unknown types, bad numbers, "
        "duplicate names, undeclared related variables). Each description is rendered to text with random indentation, "
        "default-namespace or prefix form, child order, empty-element form and trailing padding. non-trivial = creation "
        "succeeded with at least one service; distinct = distinct canonical driver text")
EXHAUSTIVE = {"quick": False, "thorough": False}
ASSUMPTIONS = [
    "XML text -> ElementTree (expat, defusedxml) delivers the tree the text denotes (exercised, not proved)",
    "URLs are inside the grammar scheme://netloc/path[?query] without fragments/params; urljoin is modelled, not proved",
    "texts are ASCII/Unicode without control characters and without leading/trailing whitespace except state-variable names",
    "the C08 assumptions for values (floats abstract, ASCII numerals, whole seconds)",
]
TRUSTED = ["C05: ElementTree find/findall/findtext semantics as transcribed in Model/C05Xml.lean; urljoin in Model/C05Url.lean"]

NS_DEVICE = "urn:schemas-upnp-org:device-1-0"
NS_SERVICE = "urn:schemas-upnp-org:service-1-0"
INFO_TAGS = ["deviceType", "friendlyName", "manufacturer", "manufacturerURL", "modelDescription", "modelName",
             "modelNumber", "modelURL", "serialNumber", "UDN", "UPC", "presentationURL"]
INFO_ATTRS = ["device_type", "friendly_name", "manufacturer", "manufacturer_url", "model_description", "model_name",
              "model_number", "model_url", "serial_number", "udn", "upc", "presentation_url"]


# ---------------------------------------------------------------------------------------------
# rendering an abstract description to XML text

class Style:
    def __init__(self, rng, seed: int) -> None:
        import random
        self.r = random.Random(seed)
        self.prefix = self.r.random() < 0.4          # ns prefix instead of default namespace
        self.indent = self.r.choice(["", "  ", "\t", "\n"])
        self.shuffle = self.r.random() < 0.6
        self.selfclose = self.r.random() < 0.5
        self.decl = self.r.choice(["", '<?xml version="1.0"?>', '<?xml version="1.0" encoding="utf-8"?>\n'])
        self.tail = self.r.choice(["", "\n", "  \r\n", "\x00", " \t\n\x00\x00"])

    def pad(self) -> str:
        return "" if not self.indent else self.r.choice(["", "\n" + self.indent, " "])


def el(st: Style, pfx: str, tag: str, text: Optional[str] = None, children: Optional[List[str]] = None,
       attrs: str = "", shuffle: bool = True) -> str:
    name = f"{pfx}:{tag}" if pfx else tag
    if children is not None:
        ch = list(children)
        if st.shuffle and shuffle:
            st.r.shuffle(ch)
        inner = st.pad() + st.pad().join(ch) + st.pad() if ch else st.pad()
        return f"<{name}{attrs}>{inner}</{name}>"
    if not text:
        return f"<{name}{attrs}/>" if st.selfclose else f"<{name}{attrs}></{name}>"
    return f"<{name}{attrs}>{escape(text)}</{name}>"


def opt(st: Style, pfx: str, tag: str, v: Optional[str]) -> List[str]:
    return [] if v is None else [el(st, pfx, tag, v)]


def render_device(st: Style, p: str, d: Dict[str, Any]) -> str:
    ch: List[str] = []
    for tag, v in zip(INFO_TAGS, d["info"]):
        ch += opt(st, p, tag, v)
    if d["icons"]:
        ch.append(el(st, p, "iconList", children=[
            el(st, p, "icon", children=opt(st, p, "mimetype", i.get("mimetype")) + opt(st, p, "width", i.get("width"))
               + opt(st, p, "height", i.get("height")) + opt(st, p, "depth", i.get("depth")) + opt(st, p, "url", i.get("url")))
            for i in d["icons"]], shuffle=False))
    if d["services"]:
        ch.append(el(st, p, "serviceList", children=[
            el(st, p, "service", children=opt(st, p, "serviceType", s["type"]) + opt(st, p, "serviceId", s["id"])
               + opt(st, p, "SCPDURL", s["scpd"]) + opt(st, p, "controlURL", s["control"])
               + opt(st, p, "eventSubURL", s["event"]))
            for s in d["services"]], shuffle=False))
    if d["embedded"]:
        ch.append(el(st, p, "deviceList", children=[render_device(st, p, e) for e in d["embedded"]], shuffle=False))
    return el(st, p, "device", children=ch)


def render_description(st: Style, d: Dict[str, Any]) -> str:
    p = "d" if st.prefix else ""
    nsdecl = f' xmlns:d="{NS_DEVICE}"' if st.prefix else f' xmlns="{NS_DEVICE}"'
    body = el(st, p, "root", children=[el(st, p, "specVersion", children=[el(st, p, "major", "1"), el(st, p, "minor", "0")]),
                                       render_device(st, p, d)], attrs=nsdecl)
    return st.decl + body + st.tail


def render_var(st: Style, p: str, v: Dict[str, Any]) -> str:
    ch = opt(st, p, "name", v["name"]) + opt(st, p, "dataType", v["type"]) + opt(st, p, "sendEventsAttribute", v["seElem"]) \
        + opt(st, p, "defaultValue", v["default"])
    if v["range"] is not None:
        mn, mx, stp = v["range"]
        ch.append(el(st, p, "allowedValueRange", children=opt(st, p, "minimum", mn) + opt(st, p, "maximum", mx)
                     + opt(st, p, "step", stp)))
    if v["allowed"] is not None:
        ch.append(el(st, p, "allowedValueList", children=[el(st, p, "allowedValue", a) for a in v["allowed"]], shuffle=False))
    attrs = "" if v["seAttr"] is None else " sendEvents=" + quoteattr(v["seAttr"])
    return el(st, p, "stateVariable", children=ch, attrs=attrs)


def render_scpd(st: Style, doc: Dict[str, Any]) -> str:
    p = "s" if st.prefix else ""
    nsdecl = f' xmlns:s="{NS_SERVICE}"' if st.prefix else f' xmlns="{NS_SERVICE}"'
    ch: List[str] = [el(st, p, "specVersion", children=[el(st, p, "major", "1"), el(st, p, "minor", "0")])]
    if doc["vars"] is not None:
        ch.append(el(st, p, "serviceStateTable", children=[render_var(st, p, v) for v in doc["vars"]], shuffle=False))
    if doc["actions"] is not None:
        acts = []
        for a in doc["actions"]:
            ach = opt(st, p, "name", a["name"])
            if a["args"]:
                ach.append(el(st, p, "argumentList", children=[
                    el(st, p, "argument", children=opt(st, p, "name", g["name"]) + opt(st, p, "direction", g["direction"])
                       + opt(st, p, "relatedStateVariable", g["related"])) for g in a["args"]], shuffle=False))
            acts.append(el(st, p, "action", children=ach))
        ch.append(el(st, p, "actionList", children=acts, shuffle=False))
    return st.decl + el(st, p, "scpd", children=ch, attrs=nsdecl) + st.tail


FOREIGN = {
    "html": ("other", "html", "<html><body>404 not found</body></html>"),
    "root": ("device", "root", f'<root xmlns="{NS_DEVICE}"><device><deviceType>x</deviceType></device></root>'),
    "scpd0": ("other", "scpd", "<scpd><serviceStateTable/></scpd>"),
    "scpdx": ("urn-x", "scpd", '<scpd xmlns="urn:x"><serviceStateTable><stateVariable/></serviceStateTable></scpd>'),
    "svcroot": ("service", "root", f'<root xmlns="{NS_SERVICE}"/>'),
}
GARBAGE = ["", "not xml at all", "<scpd", "<a><b></a>", "\x00\x00", "<?xml version='1.0'?>", "&nbsp;"]


def doc_text(st: Style, doc: Dict[str, Any]) -> (int, str):
    k = doc["kind"]
    if k == "scpd":
        return 200, render_scpd(st, doc)
    if k == "foreign":
        return 200, FOREIGN[doc["which"]][2]
    if k == "unparsable":
        return 200, doc["text"]
    return doc["n"], "<html/>"


def doc_token(doc: Dict[str, Any]) -> str:
    k = doc["kind"]
    if k == "scpd":
        return "scpd:{}:{}".format("T" if doc["vars"] is not None else "N", "A" if doc["actions"] is not None else "N")
    if k == "foreign":
        f = FOREIGN[doc["which"]]
        return f"foreign:{f[0]}:{f[1]}"
    if k == "unparsable":
        return "unparsable"
    return f"status:{doc['n']}"


# ---------------------------------------------------------------------------------------------
# running one recipe

def o(s: Optional[str]) -> str:
    return "~" if s is None else tok_str(s)


class FakeRequester:
    def __init__(self, docs: Dict[str, Any]) -> None:
        self.docs = docs
        self.log: List[str] = []

    async def async_http_request(self, method, url, headers=None, body=None):
        self.log.append(url)
        status, text = self.docs.get(url, (404, "<html/>"))
        return status, {}, text


def all_services(d: Dict[str, Any]) -> List[Dict[str, Any]]:
    out = list(d["services"])
    for e in d["embedded"]:
        out += all_services(e)
    return out


def spec_lines(d: Dict[str, Any], depth: int, lines: List[str], fstrs: List[str]) -> None:
    lines.append(f"dev {depth} " + " ".join(o(x) for x in d["info"]))
    for i in d["icons"]:
        lines.append("icon " + " ".join(o(i.get(k)) for k in ("mimetype", "width", "height", "depth", "url")))
    for s in d["services"]:
        lines.append("svc {} {} {} {} {} {}".format(o(s["id"]), o(s["type"]), o(s["control"]), o(s["event"]), o(s["scpd"]),
                                                   doc_token(s["doc"])))
        doc = s["doc"]
        if doc["kind"] != "scpd":
            continue
        for v in doc["vars"] or []:
            rg = "~" if v["range"] is None else ";".join(o(x) for x in v["range"])
            al = "~" if v["allowed"] is None else ("[]" if not v["allowed"] else ",".join(tok_str(a) for a in v["allowed"]))
            lines.append("var {} {} {} {} {} {} {}".format(o(v["name"]), o(v["type"]), o(v["seAttr"]), o(v["seElem"]),
                                                          o(v["default"]), rg, al))
            if c08.PYCLASS.get(v["type"] or "") == "float":
                fstrs += [x for x in [v["default"]] + list(v["range"] or [])[:2] + list(v["allowed"] or []) if x is not None]
        for a in doc["actions"] or []:
            lines.append("act " + o(a["name"]))
            for g in a["args"]:
                lines.append("arg {} {} {}".format(o(g["name"]), o(g["direction"]), o(g["related"])))
    for e in d["embedded"]:
        spec_lines(e, depth + 1, lines, fstrs)


def attr_tok(fn, conv) -> str:
    try:
        return conv(fn())
    except Exception as e:  # noqa: BLE001 - lazily computed attributes may raise
        return "!" + exc_token(e)


def dump(dev, depth: int, lines: List[str]) -> None:
    info = dev.device_info
    lines.append(f"odev {depth} {tok_str(dev.device_url)} " + " ".join(o(getattr(info, a)) for a in INFO_ATTRS))
    svcs = list(dev.services.values())

    def ident(xs, fn) -> str:
        """position (by object identity) of what an accessor returns; `!` = it raised / returned None / a stranger"""
        out = []
        for x in xs:
            try:
                got = fn(x)
            except Exception:  # noqa: BLE001 - a lookup that raises is an observation
                got = None
            pos = [i for i, y in enumerate(xs) if y is got]
            out.append(str(pos[0]) if pos else "!")
        return ",".join(out) or "~"

    keys = lambda d: ",".join(tok_str(k) for k in d.keys()) or "~"  # noqa: E731
    lines.append("okeys {} {} {} {}".format(
        keys(dev.services), keys(dev.embedded_devices),
        ident(svcs, lambda s: dev.service(s.service_type) if dev.has_service(s.service_type)
              and dev.find_service(s.service_type) is dev.service(s.service_type) else None),
        ident(svcs, lambda s: dev.service_id(s.service_id))))
    for i in dev.icons:
        lines.append(f"oicon {tok_str(i.mimetype)} {i.width} {i.height} {i.depth} {tok_str(i.url)}")
    for svc in dev.services.values():
        if attr_tok(lambda: svc.device, lambda x: "1" if x is dev else "0") != "1":
            lines.append("olink service.device")
        lines.append("osvc {} {} {} {} {}".format(tok_str(svc.service_id), tok_str(svc.service_type), tok_str(svc.control_url),
                                                tok_str(svc.event_sub_url), tok_str(svc.scpd_url)))
        svs, acts = list(svc.state_variables.values()), list(svc.actions.values())
        lines.append("oskeys {} {} {} {}".format(
            keys(svc.state_variables), keys(svc.actions),
            ident(svs, lambda v: svc.state_variable(v.name) if svc.has_state_variable(v.name) else None),
            ident(acts, lambda a: svc.action(a.name) if svc.has_action(a.name) else None)))
        for sv in svc.state_variables.values():
            if attr_tok(lambda: sv.service, lambda x: "1" if x is svc else "0") != "1":
                lines.append("olink state_variable.service")
            optv = lambda v: c08.tok_val(v)  # noqa: E731
            setv = lambda s: ";".join(sorted({c08.tok_val(x) for x in s})) or "~"  # noqa: E731
            # the lazily computed attributes are read in a generated ORDER, each twice (the order is a function of
            # the description, so a replay reproduces it); every read must give the declared value
            readers = {"min": (lambda: sv.min_value, optv), "max": (lambda: sv.max_value, optv),
                       "allowed": (lambda: sv.allowed_values, setv), "default": (lambda: sv.default_value, optv),
                       "normalized": (lambda: sv.normalized_allowed_values, lambda s_: "n")}
            import random
            import zlib
            order_rng = random.Random(zlib.crc32(("\n".join(lines[:40]) + sv.name + str(len(lines))).encode("utf-8", "surrogatepass")))
            order = list(readers) * 2
            order_rng.shuffle(order)
            got: Dict[str, str] = {}
            for name_ in order:
                fn, conv = readers[name_]
                t = attr_tok(fn, conv)
                if name_ in got and got[name_] != t:
                    t = "x:unstable"                       # two reads of one attribute disagree
                got[name_] = t
            lines.append("ovar {} {} {} {} {} {} {}".format(
                tok_str(sv.name), tok_str(sv.data_type), 1 if sv.send_events else 0,
                got["min"], got["max"], got["allowed"], got["default"]))
        for act in svc.actions.values():
            args = list(act.arguments)

            def pos(a) -> str:
                for i, x in enumerate(args):
                    if x is a:
                        return str(i)
                return "~" if a is None else "999"       # 999: an object that is not one of `arguments`

            idx = lambda l: ",".join(pos(a) for a in l) or "~"  # noqa: E731
            lines.append("oact {} {} {}".format(tok_str(act.name), idx(act.in_arguments()), idx(act.out_arguments())))
            for arg in args:
                rsv = arg.related_state_variable
                bound = 1 if svc.state_variables.get(rsv.name) is rsv and act.service is svc else 0
                lines.append("oarg {} {} {} {} {} {} {}".format(
                    tok_str(arg.name), tok_str(arg.direction), tok_str(rsv.name), tok_str(rsv.data_type), bound,
                    pos(act.argument(arg.name, arg.direction)), pos(act.argument(arg.name))))
    for emb in dev.embedded_devices.values():
        if emb.parent_device is not dev:
            lines.append("olink embedded.parent_device")
        dump(emb, depth + 1, lines)


def item_ids(d: Dict[str, Any], path: str = "d") -> List[str]:
    """ids of the removable parts of a description (used as recipe["ops"] for delta debugging)"""
    out: List[str] = []
    for i, _ in enumerate(d["icons"]):
        out.append(f"{path}/i{i}")
    for i, s in enumerate(d["services"]):
        out.append(f"{path}/s{i}")
        if s["doc"]["kind"] == "scpd":
            for j, _ in enumerate(s["doc"]["vars"] or []):
                out.append(f"{path}/s{i}/v{j}")
            for j, a in enumerate(s["doc"]["actions"] or []):
                out.append(f"{path}/s{i}/a{j}")
                for k, _ in enumerate(a["args"]):
                    out.append(f"{path}/s{i}/a{j}/g{k}")
    for i, e in enumerate(d["embedded"]):
        out.append(f"{path}/e{i}")
        out += item_ids(e, f"{path}/e{i}")
    return out


def prune(d: Dict[str, Any], keep: set, path: str = "d") -> Dict[str, Any]:
    """the description restricted to the parts whose id is in `keep` (a part goes with its container)"""
    out = {"info": d["info"], "icons": [ic for i, ic in enumerate(d["icons"]) if f"{path}/i{i}" in keep], "services": [],
           "embedded": []}
    for i, s in enumerate(d["services"]):
        sp = f"{path}/s{i}"
        if sp not in keep:
            continue
        doc = s["doc"]
        if doc["kind"] == "scpd":
            vs = None if doc["vars"] is None else [v for j, v in enumerate(doc["vars"]) if f"{sp}/v{j}" in keep]
            acts = None if doc["actions"] is None else [
                {"name": a["name"], "args": [g for k, g in enumerate(a["args"]) if f"{sp}/a{j}/g{k}" in keep]}
                for j, a in enumerate(doc["actions"]) if f"{sp}/a{j}" in keep]
            doc = {"kind": "scpd", "vars": vs, "actions": acts}
        out["services"].append({**s, "doc": doc})
    for i, e in enumerate(d["embedded"]):
        if f"{path}/e{i}" in keep:
            out["embedded"].append(prune(e, keep, f"{path}/e{i}"))
    return out


def run_recipe(ctx: Ctx, recipe: Dict[str, Any], cid: str) -> Case:
    """one description on a fresh factory, or — recipe["history"] — several descriptions one after the other on ONE
    long-lived factory (documents change in between); the Case is the LAST creation, judged against the documents served
    at that time"""
    if "history" in recipe:
        return run_history(ctx, recipe["history"], cid)[-1]
    if "concurrent" in recipe:
        c = run_concurrent(ctx, recipe["concurrent"], recipe.get("order", []), cid)[int(recipe.get("which", 0))]
        c.cid = cid
        return c
    return run_step(ctx, recipe, cid, {})


def run_history(ctx: Ctx, steps: List[Dict[str, Any]], cid: str) -> List[Case]:
    """every creation of the history as its own Case (recipe = the history up to it); strict / ctor of the first step"""
    holder: Dict[str, Any] = {}
    out = []
    for k, step in enumerate(steps):
        step = {**step, "strict": steps[0]["strict"], "ctor": steps[0].get("ctor", "non_strict")}
        c = run_step(ctx, step, f"{cid}.{k}" if k < len(steps) - 1 else cid, holder)
        c.recipe = {"history": steps[:k + 1]}
        c.tags = sorted(set(c.tags) | {f"history:step{min(k, 3)}"})
        out.append(c)
    return out


def prepare_step(recipe: Dict[str, Any]):
    """driver lines of the description and the documents the network serves for it"""
    base = recipe["base"]
    strict = bool(recipe["strict"])
    d = recipe["dev"]
    if "ops" not in recipe:
        recipe = {**recipe, "ops": item_ids(d)}
    d = prune(d, set(recipe["ops"]))
    st = Style(None, int(recipe.get("style", 0)))
    tags = {"strict" if strict else "nonstrict", "prefix" if st.prefix else "defaultns"}
    lines = [f"cfg base={tok_str(base)} strict={1 if strict else 0}"]
    body: List[str] = []
    fstrs: List[str] = []
    spec_lines(d, 0, body, fstrs)
    seen = set()
    for s in fstrs:
        if s in seen:
            continue
        seen.add(s)
        try:
            r = c08.tok_float(float(s))
        except ValueError:
            r = "!"
        lines.append(f"fdecl parse {tok_str(s)} {r}")
    lines += body

    docs: Dict[str, Any] = {}
    for s in all_services(d):
        if s["scpd"] is None:
            continue
        url = urljoin(base, s["scpd"])
        docs.setdefault(url, doc_text(st, s["doc"]))
        tags.add("doc:" + s["doc"]["kind"] + ("" if s["doc"]["kind"] != "scpd" or s["doc"]["vars"] is not None else ":notable"))
    root = recipe.get("root")
    docs[base] = (200, render_description(st, d)) if root is None else tuple(root)

    return recipe, lines, docs, tags, strict, base


def finish_step(cid: str, recipe: Dict[str, Any], lines: List[str], tags: set, dev: Any, err: Optional[BaseException]) -> Case:
    """append the observation (dump of the created graph or the exception) and make the Case"""
    nontrivial = False
    if err is None:
        lines.append("res ok")
        dump(dev, 0, lines)
        nontrivial = bool(dev.all_services)
        tags.add("res:ok")
    else:
        from async_upnp_client.exceptions import UpnpError
        lines.append("res !{} L{}".format(exc_token(err), 1 if isinstance(err, UpnpError) else 0))
        tags.add("res:!" + exc_token(err))
    return Case(cid, lines, recipe, nontrivial, sorted(tags))


def make_factory(req, strict: bool, ctor: str):
    from async_upnp_client.client_factory import UpnpFactory
    return UpnpFactory(req) if strict else UpnpFactory(req, **{ctor: True})


def run_step(ctx: Ctx, recipe: Dict[str, Any], cid: str, holder: Dict[str, Any]) -> Case:
    recipe, lines, docs, tags, strict, base = prepare_step(recipe)
    # the three constructor forms of a non-strict factory
    ctor = recipe.get("ctor", "non_strict")
    if "factory" not in holder:                    # a history keeps ONE requester and ONE factory for all its steps
        holder["req"] = FakeRequester(docs)
        holder["factory"] = make_factory(holder["req"], strict, ctor)
    holder["req"].docs = docs                      # what the network serves NOW
    tags.add("ctor:" + ("strict" if strict else ctor))
    loop = asyncio.new_event_loop()
    dev, err = None, None
    try:
        dev = loop.run_until_complete(holder["factory"].async_create_device(base))
    except Exception as e:  # noqa: BLE001 - every exception is an observation
        err = e
    finally:
        loop.close()
    return finish_step(cid, recipe, lines, tags, dev, err)


class GatedRequester:
    """every request suspends until the harness releases it; a request is answered from the documents of the creation
    (asyncio task) that issued it"""

    def __init__(self) -> None:
        self.docs_of: Dict[Any, Dict[str, Any]] = {}
        self.pending: List[Any] = []               # (task, url, future)

    async def async_http_request(self, method, url, headers=None, body=None):
        fut = asyncio.get_event_loop().create_future()
        self.pending.append((asyncio.current_task(), url, fut))
        return await fut


def run_concurrent(ctx: Ctx, steps: List[Dict[str, Any]], order: List[int], cid: str) -> List[Case]:
    """2-3 creations started TOGETHER on one factory; `order` says whose pending request is released next; every device is
    its own Case, judged against its own documents and URL"""
    steps = [{**st_, "strict": steps[0]["strict"], "ctor": steps[0].get("ctor", "non_strict")} for st_ in steps]
    prepared = [prepare_step(st_) for st_ in steps]
    strict, ctor = prepared[0][4], steps[0].get("ctor", "non_strict")
    req = GatedRequester()
    factory = make_factory(req, strict, ctor)
    loop = asyncio.new_event_loop()
    results: List[Any] = [None] * len(steps)

    async def drive() -> None:
        tasks = []
        for k, prep in enumerate(prepared):
            t = asyncio.ensure_future(factory.async_create_device(prep[5]))
            req.docs_of[t] = prep[2]
            tasks.append(t)
        pos = 0
        while not all(t.done() for t in tasks):
            for _ in range(5):
                await asyncio.sleep(0)             # let every creation run until it waits for a response
            if not req.pending:
                continue
            want = tasks[order[pos % len(order)] % len(tasks)] if order else None
            pos += 1
            idx = next((i for i, (t, _, _) in enumerate(req.pending) if t is want), 0)
            task, url, fut = req.pending.pop(idx)
            status, text = req.docs_of[task].get(url, (404, "<html/>"))
            fut.set_result((status, {}, text))
        for k, t in enumerate(tasks):
            results[k] = (None, t.exception()) if t.exception() is not None else (t.result(), None)

    try:
        loop.run_until_complete(drive())
    finally:
        loop.close()
    out = []
    for k, prep in enumerate(prepared):
        recipe_k, lines, _docs, tags, _strict, _base = prep
        tags.add("ctor:" + ("strict" if strict else ctor))
        tags.add(f"concurrent:{len(steps)}")
        dev, err = results[k]
        c = finish_step(f"{cid}.{k}", {"concurrent": steps, "order": order, "which": k}, lines, tags, dev, err)
        out.append(c)
    return out


# ---------------------------------------------------------------------------------------------
# generators

BASES = ["http://192.168.1.5:8080/desc.xml", "http://10.0.0.1/a/b/c/description.xml", "http://host.local:49152/",
         "http://[fe80::1]:1400/xml/device_description.xml", "https://dev.example/upnp/desc?id=7", "http://h"]
WORDS = ["AVTransport", "RenderingControl", "Volume", "A_ARG_TYPE_InstanceID", "X", "Mute", "Länge", "名前", "a b", "x.y-z",
         "GetVolume", "SetVolume", "Play", "Stop", "LastChange", "Foo&Bar", "<tag>", "q\"uote'"]


def g_name(rng, i: int) -> str:
    return rng.choice(WORDS) + str(i)


def scheme_like(rng, stem: str, unique: bool) -> str:
    """references that merely LOOK like a scheme prefix, references that urljoin does read as carrying a scheme,
    network-path, query-only and empty references"""
    shapes = [
        f"httpd/icons/{stem}.jpg", f"https_static/{stem}.png", f"httpx/{stem}", f"HTTP/{stem}", f"http{stem}", f"https/{stem}",
        f"a/b:c{stem}", f"sub/{stem}:8080/x", f"/abs/{stem}:y",             # ':' after the first '/' is a path character
        f"x:y/{stem}", f"host:8080/{stem}", f"urn:{stem}",                   # first segment with ':' = a foreign scheme: unchanged
        f"http:{stem}/rel", f"https:{stem}", f"HTTP://Upper.example/{stem}", f"HTTPS://Upper.example/{stem}?q",   # own/other scheme
        f"//host.example/{stem}", f"//host.example:81/p/{stem}?x=1", f"//h2.example",   # network-path references
        f"?{stem}=1",
    ]
    if not unique:
        shapes += ["http", "https", "?", "", "HTTP", "http:", "//only.host"]
    return rng.choice(shapes)


def g_rel_url(rng, stem: str, unique: bool = False) -> str:
    if rng.random() < 0.3:
        return scheme_like(rng, stem, unique)
    c = rng.randrange(12)
    if c == 0:
        return f"/{stem}"
    if c == 1:
        return f"/upnp/{stem}/ctl.xml"
    if c == 2:
        return f"{stem}.xml"
    if c == 3:
        return f"sub/dir/{stem}"
    if c == 4:
        return f"../{stem}"
    if c == 5:
        return f"./{stem}"
    if c == 6:
        return f"../../x/./{stem}/../{stem}2"
    if c == 7:
        return f"http://other.example:99/{stem}"
    if c == 8:
        return f"//netloc.example/{stem}"
    if c == 9:
        return f"{stem}?a=1&b=2"
    if c == 10:
        return f"/{stem}/"
    return f"a/../b/../../{stem}"


def g_var(rng, i: int, wf: bool) -> Dict[str, Any]:
    name = rng.choice(c08.TYPE_NAMES)
    cls = c08.PYCLASS[name]
    aware = None
    if cls in ("datetime", "time"):
        aware = True if name.endswith(".tz") else rng.choice([True, False])
    pool = [c08.g_value(rng, cls, rng.random() < 0.6, aware) for _ in range(4)]
    pool = [p for p in pool if not (isinstance(p, float) and p != p)]
    pool = [0.0 if (isinstance(p, float) and p == 0) else p for p in pool]   # allowed_values is a set: -0.0 == 0.0
    uniq: List[Any] = []                 # allowed_values is a set: keep one representative per Python-equality class
    for p in pool:                       # (aware times/date-times with different offsets can be equal)
        if not any(p == q for q in uniq):
            uniq.append(p)
    texts = [c08.wire_py(p) for p in uniq]
    texts = [t for t in texts if t != "" and "\r" not in t and t == t.strip()] or ["x1"]
    v: Dict[str, Any] = {"name": g_name(rng, i), "type": name, "seAttr": None, "seElem": None, "default": None,
                         "range": None, "allowed": None}
    c = rng.randrange(8)
    if c < 4:
        v["seAttr"] = rng.choice(["yes", "no"])
    elif c < 7:
        v["seElem"] = rng.choice(["yes", "no"])
    else:
        v["seAttr"] = v["seElem"] = rng.choice(["yes", "no"])          # both notations, agreeing
    if not wf and rng.random() < 0.3:
        # spellings / conflicts / absence the property does not settle: compared with the model only
        k = rng.randrange(4)
        if k == 0:
            v["seAttr"], v["seElem"] = rng.choice(["YES", "1", "", " yes ", "true"]), None
        elif k == 1:
            v["seAttr"], v["seElem"] = None, rng.choice(["Yes", "", "yes\n", "1"])
        elif k == 2:
            v["seAttr"], v["seElem"] = rng.choice([("no", "yes"), ("yes", "no")])
        else:
            v["seAttr"] = v["seElem"] = None
    if rng.random() < 0.4:
        srt = c08.comparable_sorted(pool)
        lo, hi = c08.wire_py(srt[0]), c08.wire_py(srt[-1])
        if lo and hi and lo == lo.strip() and hi == hi.strip():
            k = rng.randrange(6)
            v["range"] = [lo if k != 0 else None, hi if k != 1 else None, rng.choice([None, "1"])]
    if rng.random() < 0.3:
        v["allowed"] = [rng.choice(texts) for _ in range(rng.randrange(1, 4))]
        if cls == "str" and rng.random() < 0.3:
            v["allowed"].insert(rng.randrange(len(v["allowed"]) + 1), "")     # <allowedValue/>: the empty string
    if rng.random() < 0.4:
        v["default"] = rng.choice(texts)
    if rng.random() < 0.15:
        v["name"] = rng.choice([" ", "\n  ", "\t"]) + v["name"] + rng.choice(["", " ", "\n"])
    if not wf:
        k = rng.randrange(9)
        if k == 0:
            v["type"] = rng.choice([None, "ui3", " ui4 ", "String", ""])
        elif k == 1 and cls not in ("str", "bool"):
            v["default"] = rng.choice(["abc", "--", "12:00"])
        elif k == 2:
            v["range"] = [rng.choice(["", None]), rng.choice(["", None, "abc"]), None]
        elif k == 3:
            v["allowed"] = rng.choice([[], ["", texts[0]], ["zz", texts[0]]])
        elif k == 4:
            v["name"] = rng.choice([None, "", "  "])
        elif k == 5:
            v["default"] = ""
    return v


def g_scpd(rng, wf: bool) -> Dict[str, Any]:
    n = rng.randrange(0, 7)
    vs = [g_var(rng, i, wf or rng.random() < 0.7) for i in range(n)]
    names = [(v["name"] or "").strip() for v in vs]
    acts = []
    for j in range(rng.randrange(0, 5)):
        args = []
        for k in range(rng.randrange(0, 5) if names else 0):
            g = {"name": g_name(rng, k), "direction": rng.choice(["in", "out", "in", "out", "inout", "IN"]),
                 "related": rng.choice(names)}
            if rng.random() < 0.12:
                g["related"] = rng.choice([" ", "\n  ", "\t"]) + g["related"] + rng.choice(["", " ", "\n"])   # padded like names
            if not wf and rng.random() < 0.15:
                which = rng.choice(["name", "direction", "related", "undeclared"])
                if which == "undeclared":
                    g["related"] = "NoSuchVariable"
                else:
                    g[which] = None
            if args and rng.random() < 0.25:
                # an in- and an out-argument of the same name (argument(name, direction) tells them apart)
                o0 = rng.choice(args)
                if o0["name"] is not None and o0["direction"] in ("in", "out"):
                    other = "out" if o0["direction"] == "in" else "in"
                    if not any(a["name"] == o0["name"] and a["direction"] == other for a in args):
                        g["name"], g["direction"] = o0["name"], other
                        g["related"] = rng.choice(names)
            if not wf and args and rng.random() < 0.05:
                g["name"], g["direction"] = args[0]["name"], args[0]["direction"]     # same name AND direction: not UPnP
            args.append(g)
        acts.append({"name": g_name(rng, j) if (wf or rng.random() < 0.9) else None, "args": args})
    if not wf and vs and rng.random() < 0.2:
        vs.append(dict(vs[0]))                       # duplicate variable name
    if not wf and acts and rng.random() < 0.2:
        acts.append({"name": acts[0]["name"], "args": []})
    doc = {"kind": "scpd", "vars": vs, "actions": acts if (acts or rng.random() < 0.5) else None}
    return doc


def corrupt(rng, doc: Dict[str, Any]) -> Dict[str, Any]:
    c = rng.randrange(10)
    if c < 3:
        return {"kind": "foreign", "which": rng.choice(sorted(FOREIGN))}
    if c < 6:
        return {"kind": "unparsable", "text": rng.choice(GARBAGE)}
    if c < 8:
        return {**doc, "vars": None}                  # state table removed (actions kept)
    if c < 9 and doc.get("kind") == "scpd" and doc["vars"]:
        # incomplete in another way: a variable without (supported) data type / an argument naming no declared variable
        d2 = json.loads(json.dumps(doc))
        k = rng.randrange(3)
        args = [g for a in (d2["actions"] or []) for g in a["args"]]
        if k == 0 or not args:
            rng.choice(d2["vars"])["type"] = rng.choice([None, "ui3", "String"])
        elif k == 1:
            rng.choice(args)["related"] = "NoSuchVariable"
        else:
            gone = d2["vars"].pop(rng.randrange(len(d2["vars"])))      # a declared variable removed
            _ = gone
        return d2
    return {"kind": "status", "n": rng.choice([404, 500, 503])}


def g_device(rng, depth: int, max_depth: int, wf: bool, p_corrupt: float, counter: List[int]) -> Dict[str, Any]:
    counter[0] += 1
    n = counter[0]
    info: List[Optional[str]] = []
    for i, tag in enumerate(INFO_TAGS):
        present = rng.random() < 0.75 or i == 0 or (i == 9 and (wf or rng.random() < 0.8))
        val = {0: f"urn:schemas-upnp-org:device:{rng.choice(WORDS)}:{n}", 9: f"uuid:0000-{n}"}.get(i, rng.choice(WORDS) + " " + tag)
        if rng.random() < 0.08:
            val = ""
        info.append(val if present else None)
    if not wf and rng.random() < 0.1:
        info[0] = None
    icons = []
    for i in range(rng.randrange(0, 4) if rng.random() < 0.5 else 0):
        ic = {"mimetype": "image/png", "width": str(rng.choice([16, 48, 120])), "height": str(rng.choice([16, 48])),
              "depth": str(rng.choice([8, 24])), "url": g_rel_url(rng, f"icon{n}_{i}.png")}
        for k in list(ic):
            if rng.random() < 0.15:
                ic[k] = None
        if rng.random() < 0.1:
            ic["width"] = rng.choice([" 32 ", "+32", "0032"])
        if rng.random() < 0.1:
            ic["url"] = rng.choice(["https://cdn.example/i.png", "http:relative", "https:/odd"])
        if not wf and rng.random() < 0.2:
            ic["height"] = rng.choice(["", "x", "1.5"])
        icons.append(ic)
    services = []
    for i in range(rng.randrange(0, 5)):
        doc = g_scpd(rng, wf)
        if rng.random() < p_corrupt:
            doc = corrupt(rng, doc)
        s = {"id": f"urn:upnp-org:serviceId:{rng.choice(WORDS)}{i}", "type": f"urn:schemas-upnp-org:service:{rng.choice(WORDS)}:{n}{i}",
             "control": g_rel_url(rng, f"ctl{n}_{i}"), "event": g_rel_url(rng, f"evt{n}_{i}"),
             "scpd": rng.choice([f"scpd{n}_{i}.xml", f"/scpd/{n}/{i}.xml", f"../s{n}_{i}.xml", f"x/../scpd{n}-{i}.xml",
                                 f"http://other.example:99/scpd{n}_{i}.xml", f"//nl.example/scpd{n}_{i}",
                                 scheme_like(rng, f"scpd{n}_{i}", True), scheme_like(rng, f"scpd{n}_{i}", True)]),
             "doc": doc}
        if not wf:
            for k in ("id", "type", "control", "event"):
                if rng.random() < 0.08:
                    s[k] = None
            if rng.random() < 0.05 and services:
                s["type"], s["id"] = services[0]["type"], services[0]["id"]   # same type AND same id: not UPnP
        if services and rng.random() < 0.12:
            s["type"] = rng.choice(services)["type"]          # same serviceType, different serviceId (legal)
        if services and rng.random() < 0.06:
            o0 = rng.choice(services)
            s["scpd"], s["doc"] = o0["scpd"], o0["doc"]        # two services described by the same SCPD
        services.append(s)
    emb = []
    if depth < max_depth:
        for _ in range(rng.randrange(0, 3)):
            e = g_device(rng, depth + 1, max_depth, wf, p_corrupt, counter)
            if emb and rng.random() < 0.25:
                e["info"][0] = rng.choice(emb)["info"][0]     # sibling of the same deviceType, different UDN (legal)
            if emb and not wf and rng.random() < 0.1:
                e["info"][0], e["info"][9] = emb[0]["info"][0], emb[0]["info"][9]   # same type AND same UDN: not UPnP
            emb.append(e)
    return {"info": info, "icons": icons, "services": services, "embedded": emb}


def gen_recipe(rng, wf: bool) -> Dict[str, Any]:
    max_depth = rng.choice([0, 1, 1, 2, 3])
    p_corrupt = rng.choice([0.0, 0.0, 0.15, 0.4])
    dev = g_device(rng, 0, max_depth, wf, p_corrupt, [0])
    return {"base": rng.choice(BASES), "strict": rng.random() < 0.5, "dev": dev, "style": rng.randrange(1 << 30),
            "ctor": rng.choice(["non_strict", "non_strict", "disable_state_variable_validation",
                                "disable_unknown_out_argument_error"])}


def mutate_for_history(rng, rec: Dict[str, Any]) -> Dict[str, Any]:
    """the same device a moment later: some SCPD changed / corrupted / repaired at the SAME URL, two services' documents
    swapped, the description itself changed, or another device (other base URL) reusing the same relative SCPD paths"""
    new = json.loads(json.dumps(rec))
    svcs = all_services(new["dev"])
    k = rng.randrange(7)
    new["style"] = rng.randrange(1 << 30)
    if k == 0 and svcs:
        rng.choice(svcs)["doc"] = g_scpd(rng, True)                       # same URL, other content
    elif k == 1 and svcs:
        s0 = rng.choice(svcs)
        s0["doc"] = corrupt(rng, s0["doc"]) if s0["doc"]["kind"] == "scpd" else g_scpd(rng, True)   # corrupted / repaired
    elif k == 2 and len(svcs) >= 2:
        a, b = rng.sample(svcs, 2)
        a["doc"], b["doc"] = b["doc"], a["doc"]                           # documents swapped between two URLs
    elif k == 3:
        d2 = g_device(rng, 0, 1, True, 0.0, [50])                          # the description changes, SCPD paths may recur
        for s_new, s_old in zip(all_services(d2), svcs):
            s_new["scpd"] = s_old["scpd"]
        new["dev"] = d2
    elif k == 4:
        new["base"] = rng.choice([b for b in BASES if b != rec["base"]])   # another device: same relative paths, other base
        for s0 in svcs:
            if rng.random() < 0.7:
                s0["doc"] = g_scpd(rng, True)
    elif k == 5 and svcs:
        for s0 in svcs:
            s0["doc"] = g_scpd(rng, True)                                  # every document replaced
    else:
        pass                                                               # nothing changed: the same answer again
    return new


def gen_history(rng) -> List[Dict[str, Any]]:
    first = gen_recipe(rng, True)
    if rng.random() < 0.3:                                                 # a first attempt that fails / degrades
        svcs = all_services(first["dev"])
        if svcs:
            s0 = rng.choice(svcs)
            s0["doc"] = corrupt(rng, s0["doc"])
    steps = [first]
    for _ in range(rng.choice([1, 1, 2, 3])):
        steps.append(mutate_for_history(rng, steps[-1]))
    return steps


def gen_concurrent(rng) -> Dict[str, Any]:
    """2-3 different devices (different description URLs, documents) to be created at once on one factory"""
    n = rng.choice([2, 2, 3])
    bases = rng.sample(BASES, n)
    steps = []
    for k in range(n):
        r = gen_recipe(rng, True)
        r["base"] = bases[k]
        steps.append(r)
    return {"concurrent": steps, "order": [rng.randrange(n) for _ in range(rng.choice([1, 8, 40]))]}


def small_pair(rng) -> List[Dict[str, Any]]:
    """two small devices (1-2 services each) for the exhaustive interleavings"""
    out = []
    for k, base in enumerate(rng.sample(BASES, 2)):
        svcs = [svc(10 * k + i + 1, g_scpd(rng, True)) for i in range(rng.choice([1, 2]))]
        for s0 in svcs:
            s0["control"], s0["event"] = g_rel_url(rng, f"c{k}"), g_rel_url(rng, f"e{k}")
        icons = [{"mimetype": "image/png", "width": "1", "height": "1", "depth": "1", "url": g_rel_url(rng, f"icon{k}.png")}]
        out.append({"base": base, "strict": True, "dev": leaf_dev(svcs, icons=icons, n=k + 1), "style": rng.randrange(1 << 30)})
    strict = rng.random() < 0.5
    for r in out:
        r["strict"] = strict
    return out


def all_orders(f1: int, f2: int) -> List[List[int]]:
    """every interleaving of f1 responses to creation 0 and f2 responses to creation 1"""
    import itertools
    n = f1 + f2
    return [[0 if i in pos else 1 for i in range(n)] for pos in itertools.combinations(range(n), f1)]


def leaf_dev(services=None, icons=None, embedded=None, n=1) -> Dict[str, Any]:
    info = [f"urn:schemas-upnp-org:device:Basic:{n}", "name", "manu", None, None, "model", None, None, None, f"uuid:{n}", None, None]
    return {"info": info, "icons": icons or [], "services": services or [], "embedded": embedded or []}


def svc(i, doc) -> Dict[str, Any]:
    return {"id": f"urn:upnp-org:serviceId:S{i}", "type": f"urn:schemas-upnp-org:service:S:{i}", "control": f"/ctl{i}",
            "event": f"/evt{i}", "scpd": f"scpd{i}.xml", "doc": doc}


def var(name, typ, **kw) -> Dict[str, Any]:
    v = {"name": name, "type": typ, "seAttr": "yes", "seElem": None, "default": None, "range": None, "allowed": None}
    v.update(kw)
    return v


def corpus() -> List[Dict[str, Any]]:
    b = "http://192.168.1.5:8080/desc.xml"
    out = []
    # F05a: a defaultValue on date / dateTime / time (+tz) variables
    for typ, dv in [("date", "2024-02-29"), ("dateTime", "2024-02-29T12:00:00"), ("dateTime.tz", "2024-02-29T12:00:00+01:00"),
                    ("time", "12:00:00"), ("time.tz", "12:00:00+01:00")]:
        doc = {"kind": "scpd", "vars": [var("V", typ, default=dv)], "actions": None}
        out.append({"base": b, "strict": True, "dev": leaf_dev([svc(1, doc)]), "style": 1})
    # argument binding is by name, not by position
    doc = {"kind": "scpd", "vars": [var("A", "ui2"), var("B", "string"), var("C", "boolean", seAttr=None, seElem="yes")],
           "actions": [{"name": "Act", "args": [{"name": "x", "direction": "in", "related": "C"},
                                                {"name": "y", "direction": "out", "related": "A"}]}]}
    out.append({"base": b, "strict": True, "dev": leaf_dev([svc(1, doc)]), "style": 2})
    # strict / non-strict with corrupted service documents
    for strict in (True, False):
        for bad in ({"kind": "foreign", "which": "html"}, {"kind": "unparsable", "text": "garbage"},
                    {**doc, "vars": None}, {**doc, "vars": None, "actions": None}, {"kind": "foreign", "which": "root"}):
            out.append({"base": b, "strict": strict, "dev": leaf_dev([svc(1, doc), svc(2, bad)]), "style": 3})
    # embedded devices, URLs
    emb = leaf_dev([svc(3, doc)], n=2)
    out.append({"base": "http://10.0.0.1/a/b/c/description.xml", "strict": True,
                "dev": leaf_dev([{**svc(1, doc), "control": "../ctl", "event": "http://other:9/evt", "scpd": "x/../s.xml"}],
                                icons=[{"mimetype": "image/png", "width": "48", "height": "48", "depth": "24", "url": "/icon.png"}],
                                embedded=[emb]), "style": 4})
    # F05c: two services of one type (different ids), two embedded siblings of one type (different UDNs)
    twin = lambda i: {**svc(i, doc), "type": "urn:schemas-upnp-org:service:S:1"}  # noqa: E731
    e1, e2 = leaf_dev([svc(5, doc)], n=2), leaf_dev([svc(6, doc)], n=3)
    e2["info"][0] = e1["info"][0]
    out.append({"base": b, "strict": True, "dev": leaf_dev([twin(1), twin(2)], embedded=[e1, e2]), "style": 5})
    # F05d: <allowedValue/> of a string variable is the allowed value ""
    docd = {"kind": "scpd", "vars": [var("Mode", "string", allowed=["", "ON", ""]), var("N", "ui1", allowed=["1", "2"])],
            "actions": None}
    out.append({"base": b, "strict": True, "dev": leaf_dev([svc(1, docd)]), "style": 6})
    out.append({"base": b, "strict": False, "dev": leaf_dev([svc(1, docd)]), "style": 7})
    # an in- and an out-argument of one name, both orders, different related variables
    doca = {"kind": "scpd", "vars": [var("A", "ui2"), var("B", "string"), var("C", "boolean")],
            "actions": [{"name": "InOut", "args": [{"name": "X", "direction": "in", "related": "A"},
                                                   {"name": "Y", "direction": "in", "related": "C"},
                                                   {"name": "X", "direction": "out", "related": "B"}]},
                        {"name": "OutIn", "args": [{"name": "X", "direction": "out", "related": "B"},
                                                   {"name": "X", "direction": "in", "related": "A"}]}]}
    out.append({"base": b, "strict": True, "dev": leaf_dev([svc(1, doca)]), "style": 9})
    # F05e: incomplete documents in non-strict mode (every constructor form), F05f: padded relatedStateVariable
    inc1 = {"kind": "scpd", "vars": [var("A", "ui2"), var("B", None)], "actions": None}
    inc2 = {"kind": "scpd", "vars": [var("A", "ui2")],
            "actions": [{"name": "Act", "args": [{"name": "x", "direction": "in", "related": "Nope"}]}]}
    for ctor in ("non_strict", "disable_state_variable_validation", "disable_unknown_out_argument_error"):
        out.append({"base": b, "strict": False, "ctor": ctor, "dev": leaf_dev([svc(1, doc), svc(2, inc1), svc(3, inc2)]), "style": 10})
    pad = {"kind": "scpd", "vars": [var(" Volume ", "ui2")],
           "actions": [{"name": "Set", "args": [{"name": "V", "direction": "in", "related": " Volume "},
                                                {"name": "W", "direction": "out", "related": "Volume\n"}]}]}
    for strict in (True, False):
        out.append({"base": b, "strict": strict, "dev": leaf_dev([svc(1, pad)]), "style": 11})
    # relative references that look like a scheme prefix / carry a scheme, for all four URL kinds
    looks = [("httpd/ctl", "https_static/evt", "httpx/scpd.xml", "httpd/icons/sm.jpg"),
             ("http", "HTTP/evt", "https/scpd", "https_static/x.png"),
             ("a/b:c", "x:y/z", "host:8080/scpd", "http"),
             ("http:rel/ctl", "HTTP://Upper.example/evt", "//nl.example/scpd3", "https:odd"),
             ("?q=1", "", "urn:scpd", "//cdn.example/i.png")]
    for k, (c_, e_, s_, i_) in enumerate(looks):
        for base_ in ("http://10.0.0.1/a/b/description.xml?x=1", "https://dev.example/upnp/desc"):
            out.append({"base": base_, "strict": True,
                        "dev": leaf_dev([{**svc(1, doc), "control": c_, "event": e_, "scpd": s_}],
                                        icons=[{"mimetype": "image/png", "width": "1", "height": "1", "depth": "1", "url": i_}]),
                        "style": 20 + k})
    # two services sharing one SCPD document
    out.append({"base": b, "strict": True, "dev": leaf_dev([svc(1, doc), {**svc(2, doc), "scpd": "scpd1.xml"}]), "style": 8})
    # histories on one factory: changed SCPD at the same URL; strict failure then the repaired document; swapped documents;
    # two devices under different bases with the same relative SCPD path and different content
    doc2 = {"kind": "scpd", "vars": [var("Z", "string", allowed=["x", "y"])], "actions": None}
    bad = {"kind": "unparsable", "text": "garbage"}
    mk = lambda base_, docs_, strict=True: {"base": base_, "strict": strict,  # noqa: E731
                                           "dev": leaf_dev([svc(i + 1, d_) for i, d_ in enumerate(docs_)]), "style": 30}
    out.append({"history": [mk(b, [doc]), mk(b, [doc2]), mk(b, [doc])]})
    out.append({"history": [mk(b, [doc, bad]), mk(b, [doc, doc2])]})
    out.append({"history": [mk(b, [doc, doc2]), mk(b, [doc2, doc])]})
    out.append({"history": [mk(b, [doc]), mk("http://10.9.9.9/other/desc.xml", [doc2])]})
    out.append({"history": [mk(b, [doc, doc2], False), mk(b, [bad, doc], False), mk(b, [doc2, bad], False)]})
    # two creations in flight at once on one factory, different description URLs
    other = "http://10.9.9.9/other/desc.xml"
    for order in ([0, 1], [1, 0], [0, 0, 1, 1], [1, 1, 0, 0], [0, 1, 1, 0]):
        out.append({"concurrent": [mk(b, [doc, doc2]), mk(other, [doc2])], "order": order})
    return out


CORPUS = corpus()


def generate(ctx: Ctx) -> List[Case]:
    n_wf = 12000 if ctx.thorough else 600
    n_mal = 3000 if ctx.thorough else 200
    cases: List[Case] = []
    i = 0
    for rec in CORPUS:
        if "history" in rec:
            cases += run_history(ctx, rec["history"], f"corpus{i}")
        elif "concurrent" in rec:
            cases += run_concurrent(ctx, rec["concurrent"], rec["order"], f"corpus{i}")
        else:
            cases.append(run_recipe(ctx, rec, f"corpus{i}"))
        i += 1
    for _ in range(n_wf):
        cases.append(run_recipe(ctx, gen_recipe(ctx.rng, True), f"w{i}"))
        i += 1
    for _ in range(n_mal):
        cases.append(run_recipe(ctx, gen_recipe(ctx.rng, False), f"m{i}"))
        i += 1
    # histories on one long-lived factory: every creation is judged against the documents served at that time
    for _ in range(4000 if ctx.thorough else 250):
        cases += run_history(ctx, gen_history(ctx.rng), f"h{i}")
        i += 1
    # concurrent creations on one factory (a requester that suspends): no cross-talk between creations
    for _ in range(3 if ctx.thorough else 5):
        pair = small_pair(ctx.rng)
        f = [1 + len(p_["dev"]["services"]) for p_ in pair]
        for order in all_orders(f[0], f[1]):                               # every order of releasing the responses
            cases += run_concurrent(ctx, pair, order, f"x{i}")
            i += 1
    for _ in range(2500 if ctx.thorough else 120):
        rc = gen_concurrent(ctx.rng)
        cases += run_concurrent(ctx, rc["concurrent"], rc["order"], f"c{i}")
        i += 1
    return cases


def signature(case: Case, verdict) -> str:
    return f"C05 {verdict.notes[:300]}"


def extra_evidence(ctx: Ctx, cases: List[Case], verdicts) -> Dict[str, Any]:
    wf = sum(1 for c in cases if verdicts[c.cid].notes.startswith("[wf]"))
    return {"well_formed_cases_judged_against_mirror": wf, "not_well_formed_cases_compared_with_model_only": len(cases) - wf}
