"""C06 correspondence harness: the real `UpnpAction.async_call` (device built by the real
`UpnpFactory` from a generated description + SCPD, fake requester) against the Lean model
`Upnp.C06.asyncCallSend` and the judge `Upnp.C06.ok`.  See DESIGN.md §5 C06 and design/C06.md."""
from __future__ import annotations

import asyncio
import json
import math
from datetime import date, datetime, time, timedelta, timezone
from typing import Any, Dict, List, Optional, Tuple
from xml.sax.saxutils import escape as _sax_escape

from harness.common import exc_token, tok_str
from vk.core import Case, Ctx

GEN_MODULES: List[str] = ["C06Types", "C08Types"]
MANIFEST = {
    "design_ref": "§5 C06",
    "text": ("Lean theorem c06_model_ok: for every declared action (any number of arguments of any of the 26 generated type rows "
             "- C08's data-type model and round-trip theorem -, ranges, allowed lists), every caller assignment and both strictness modes, the model of "
             "create_request/validate_arguments/_format_request_args satisfies the judge C06.ok: an accepted assignment yields "
             "exactly one POST to urljoin(device URL, controlURL) with SOAPAction \"type#action\", text/xml utf-8, Host = "
             "netloc, and a body that reads back (readEnvelope, proved inverse of the renderer: escape/xmlDecodeText round "
             "trip incl. CR, LF, markup) as one {serviceType}action element holding each in-argument once, in declared "
             "order, whose text decodes to the supplied value; anything else is refused with a library error and nothing "
             "is sent. The type table, the escape entity table and the exception hierarchy are regenerated from the "
             "source on every run and pinned by decide-theorems. The model is tied to client.py by literal comparison of "
             "method/url/headers/body text of every generated call and of readEnvelope against the real XML parser's tree; "
             "C06.ok is evaluated on the implementation's request, for every call of every generated history on one "
             "long-lived device/service/action object (c06_history_ok: the model's request construction is a pure function "
             "of current description URL, control URL, action and assignment)."),
    "note": ("Trusted: Lean kernel + standard axioms; XML text<->tree of the real parser is sampled, not proved (readEnvelope "
             "recognises only the shape the client emits); values, coercers and schema are C08's model over the generated 26-row table; "
             "floats abstract (repr/float()/<= tables from the real primitives at run time, one assumption float(repr(x))==x); urljoin/netloc modelled on a restricted URL grammar; values at "
             "second precision; action/argument names inside the XML-name domain (xmlNameOk); service types arbitrary."),
    "technique": "Lean 4 proof (model satisfies the judge for all inputs; renderer/recogniser inverse) + generated tables + model/implementation correspondence",
}
RULE = ("one case = a HISTORY of 1..6 calls (same / different / repeated invalid / valid-invalid-valid assignments, UpnpDevice.reinit between calls) on one generated service/action (0..6 in-arguments and 0..2 out-arguments over all 26 data types, "
        "ranges, allowed lists, strict and non-strict factory) built by the real UpnpFactory from generated XML, and "
        "one caller assignment (valid, boundary, out of range, non-member, wrong Python type incl. bool for int, "
        "missing, extra (not judged)); strings over XML-legal Unicode with markup, CR/LF/TAB and non-BMP characters. "
        "non-trivial = at least one in-argument; distinct = distinct canonical driver text")
EXHAUSTIVE = {"quick": False, "thorough": False}
ASSUMPTIONS = [
    "argument/action names are XML names (domain predicate xmlNameOk: they are written as element names, where no escaping exists); service types are arbitrary text (quoted by quoteattr since F06c)",
    "in-argument names are distinct among themselves (a keyword assignment could not tell two of them apart); an in- and an out-argument may share a name",
    "date/time values have second precision (the wire format has no fractional seconds)",
    "string values contain only characters legal in XML 1.0",
    "URLs follow scheme://netloc/path?query without dot segments or empty interior segments",
    "non-ASCII decimal digits (accepted by Python int()) are outside the model",
    "integers beyond CPython's 4300-digit str() limit are outside the decode clause: coerce_upnp itself raises ValueError there (a CPython limit, not generated)",
    "float(repr(x)) == x (C08's single float assumption RoundTrips; floats are otherwise abstract: repr/float()/<= tables per case)",
    "an object of no modelled class (list, bytes, dict, ...) is represented as None: like None it fails every isinstance test",
]
TRUSTED = [
    "C06: real XML parser (defusedxml/expat) reading of the sent body is compared with the Lean recogniser on the sampled calls only",
    "C06: voluptuous All/In/Range and isinstance semantics are transcribed in schemaOk",
]

NS_SOAP = "http://schemas.xmlsoap.org/soap/envelope/"

INT_TYPES = ["ui1", "ui2", "ui4", "ui8", "i1", "i2", "i4", "i8", "int"]
FLOAT_TYPES = ["r4", "r8", "number", "fixed.14.4", "float"]
STR_TYPES = ["char", "string", "bin.base64", "bin.hex", "uri", "uuid"]
DT_TYPES = ["date", "dateTime", "dateTime.tz", "time", "time.tz"]
ALL_TYPES = INT_TYPES + FLOAT_TYPES + STR_TYPES + ["boolean"] + DT_TYPES


def xesc(s: str) -> str:
    """escape text for the generated description documents (CR as a character reference)"""
    return _sax_escape(s, {"\r": "&#13;"})


def kind_of(t: str) -> str:
    if t in INT_TYPES:
        return "int"
    if t in FLOAT_TYPES:
        return "float"
    if t in STR_TYPES:
        return "str"
    if t == "boolean":
        return "bool"
    return "dt"


# ---- value <-> token / JSON ---------------------------------------------------------------------

def float_tok(v: float) -> str:
    """`f:<hex repr>:<exact ratio>` (sign kept, so -0.0 is `-0/1`)"""
    if math.isnan(v):
        x = "nan"
    elif math.isinf(v):
        x = "inf" if v > 0 else "-inf"
    else:
        n, d = abs(v).as_integer_ratio()
        x = f"{'-' if math.copysign(1.0, v) < 0 else ''}{n}/{d}"
    return f"f:{tok_str(repr(v))}:{x}"


def _off_tok(v) -> str:
    if v.tzinfo is None:
        return "~"
    secs = v.utcoffset().total_seconds() if isinstance(v, datetime) else v.tzinfo.utcoffset(None).total_seconds()
    assert secs % 60 == 0, "offsets are whole minutes"
    return str(int(secs // 60))


def val_tok(v: Any) -> str:
    """C08's value domain: int, bool, float, str, date, datetime, time (second precision, whole-minute
    offsets), None.  An object of any other class travels as None: like None it fails every isinstance
    test of the schema, which is all the request path ever does with it."""
    if isinstance(v, bool):
        return "b:T" if v else "b:F"
    if isinstance(v, int):
        return f"i:{v}"
    if isinstance(v, float):
        return float_tok(v)
    if isinstance(v, str):
        return "s:" + tok_str(v)
    if isinstance(v, datetime):
        assert v.microsecond == 0
        return f"DT:{v.year}.{v.month}.{v.day}.{v.hour}.{v.minute}.{v.second}:{_off_tok(v)}"
    if isinstance(v, date):
        return f"D:{v.year}.{v.month}.{v.day}"
    if isinstance(v, time):
        assert v.microsecond == 0
        return f"T:{v.hour}.{v.minute}.{v.second}:{_off_tok(v)}"
    return "n"


def val_json(v: Any) -> Any:
    if isinstance(v, bool):
        return ["b", v]
    if isinstance(v, int):
        return ["i", str(v)]
    if isinstance(v, float):
        return ["f", repr(v)]
    if isinstance(v, str):
        return ["s", v]
    if isinstance(v, datetime):
        return ["dt", v.isoformat()]
    if isinstance(v, date):
        return ["d", v.isoformat()]
    if isinstance(v, time):
        return ["t", v.isoformat()]
    if v is None:
        return ["n"]
    return ["o", type(v).__name__]


def val_unjson(j: Any) -> Any:
    k = j[0]
    if k == "b":
        return bool(j[1])
    if k == "i":
        return int(j[1])
    if k == "f":
        return float(j[1])
    if k == "s":
        return j[1]
    if k == "dt":
        return datetime.fromisoformat(j[1])
    if k == "d":
        return date.fromisoformat(j[1])
    if k == "t":
        return time.fromisoformat(j[1])
    if k == "n":
        return None
    return {"list": [1], "bytes": b"x", "dict": {"a": 1}, "tuple": (1,), "object": object()}.get(j[1], object())


def val_class(v: Any) -> str:
    if isinstance(v, bool):
        return "bool"
    if isinstance(v, datetime):
        return "datetime-" + ("aware" if v.tzinfo is not None else "naive")
    if isinstance(v, time):
        return "time-" + ("aware" if v.tzinfo is not None else "naive")
    return type(v).__name__


def opt_tok(s: Optional[str]) -> str:
    return "~" if s is None else tok_str(s)


# ---- description documents ---------------------------------------------------------------------------

def sv_name(decl: Dict[str, Any], i: int) -> str:
    """name of the i-th state variable: `A_ARG_i`, or — `sv_case` — case variants of ONE name (state
    variable names are case-sensitive: `VolumeLevel`, `volumelevel`, `VOLUMElevel` … are different
    variables, here with different data types)"""
    if not decl.get("sv_case"):
        return f"A_ARG_{i}"
    base = "volumelevelx"
    return "".join(ch.upper() if (i + 1) >> k & 1 else ch for k, ch in enumerate(base))


def scpd_xml(decl: Dict[str, Any]) -> str:
    svs = []
    args = []
    for i, a in enumerate(decl["args"]):
        sv = sv_name(decl, a["sv"] if a.get("sv") is not None else i)
        args.append(f"<argument><name>{xesc(a['name'])}</name><direction>{a['dir']}</direction>"
                    f"<relatedStateVariable>{sv}</relatedStateVariable></argument>")
        extra = ""
        if a.get("range"):
            r = a["range"]
            extra += "<allowedValueRange>"
            if r.get("min") is not None:
                extra += f"<minimum>{xesc(r['min'])}</minimum>"
            if r.get("max") is not None:
                extra += f"<maximum>{xesc(r['max'])}</maximum>"
            if r.get("step") is not None:
                extra += f"<step>{xesc(r['step'])}</step>"
            extra += "</allowedValueRange>"
        if a.get("allowed") is not None:
            extra += "<allowedValueList>" + "".join(f"<allowedValue>{xesc(x)}</allowedValue>" for x in a["allowed"]) + "</allowedValueList>"
        if a.get("sv") is None:   # an argument that shares an earlier argument's state variable declares none
            svs.append(f'<stateVariable sendEvents="no"><name>{sv}</name><dataType>{a["type"]}</dataType>{extra}</stateVariable>')
    # other actions of the same service (they share state variables with the action under test)
    others = ""
    for j in range(decl.get("other_actions", 0)):
        oargs = "".join(f"<argument><name>{xesc(a['name'])}</name><direction>{'out' if a['dir'] == 'in' else 'in'}</direction>"
                        f"<relatedStateVariable>{sv_name(decl, a['sv'] if a.get('sv') is not None else i)}</relatedStateVariable></argument>"
                        for i, a in enumerate(decl["args"]) if (i + j) % 2 == 0)
        others += f"<action><name>Other{j}_{xesc(decl['action'])}</name><argumentList>{oargs}</argumentList></action>"
    before, after = (others, "") if decl.get("other_actions", 0) % 2 else ("", others)
    return ('<?xml version="1.0"?><scpd xmlns="urn:schemas-upnp-org:service-1-0"><specVersion><major>1</major><minor>0</minor></specVersion>'
            f'<actionList>{before}<action><name>{xesc(decl["action"])}</name><argumentList>{"".join(args)}</argumentList></action>{after}</actionList>'
            f'<serviceStateTable>{"".join(svs)}</serviceStateTable></scpd>')


def device_xml(decl: Dict[str, Any]) -> str:
    return ('<?xml version="1.0"?><root xmlns="urn:schemas-upnp-org:device-1-0"><specVersion><major>1</major><minor>0</minor></specVersion>'
            '<device><deviceType>urn:schemas-upnp-org:device:Test:1</deviceType><friendlyName>t</friendlyName>'
            '<manufacturer>m</manufacturer><modelName>n</modelName><UDN>uuid:00000000-0000-0000-0000-000000000001</UDN>'
            f'<serviceList><service><serviceType>{xesc(decl["service_type"])}</serviceType><serviceId>urn:upnp-org:serviceId:S</serviceId>'
            f'<controlURL>{xesc(decl["control_url"])}</controlURL><eventSubURL>/evt</eventSubURL><SCPDURL>/scpd.xml</SCPDURL>'
            '</service></serviceList></device></root>')


class Requester:
    """fake UpnpRequester: serves the two description documents, records every other request"""

    def __init__(self, decl: Dict[str, Any], response: Tuple[int, Dict[str, str], Any]) -> None:
        self.decl = decl
        self.response = response
        self.log: List[Tuple[str, str, Any, Any]] = []

    async def async_http_request(self, method, url, headers=None, body=None):
        if method == "GET":
            if url == self.decl["device_url"]:
                return 200, {}, device_xml(self.decl)
            return 200, {}, scpd_xml(self.decl)
        self.log.append((method, url, headers, body))
        return self.response


_LOOP = None


def run(coro):
    global _LOOP
    if _LOOP is None or _LOOP.is_closed():
        _LOOP = asyncio.new_event_loop()
    return _LOOP.run_until_complete(coro)


def build_device(decl: Dict[str, Any], response):
    from async_upnp_client.client_factory import UpnpFactory

    req = Requester(decl, response)
    factory = UpnpFactory(req, non_strict=not decl["strict"])
    device = run(factory.async_create_device(decl["device_url"]))
    service = device.services[decl["service_type"]]
    return req, device, service.action(decl["action"])


def build_action(decl: Dict[str, Any], response):
    req, _device, action = build_device(decl, response)
    return req, action


def lib_mro(e: BaseException) -> str:
    names = sorted(c.__name__ for c in type(e).__mro__ if (c.__module__ or "").startswith("async_upnp_client"))
    return ",".join(names) if names else "~"


def tree_lines(body: Any) -> List[str]:
    import defusedxml.ElementTree as DET
    from xml.etree import ElementTree as ET

    if not isinstance(body, str):
        return ["tree ~"]
    try:
        root = DET.fromstring(body)
    except ET.ParseError:
        return ["tree ~"]
    out = ["tree y"]

    def walk(el, depth):
        out.append(f"el {depth} {tok_str(el.tag)} {opt_tok(el.text)}")
        for ch in el:
            walk(ch, depth + 1)

    walk(root, 0)
    return out


def oracle_lines(decl: Dict[str, Any], texts_by_arg: Dict[str, List[str]]) -> List[str]:
    """the float oracle: `float(text)` for every text a float-typed argument can meet (declared
    bounds / allowed values, the caller's floats rendered, what was sent / received)"""
    out = []
    seen = set()
    for a in decl["args"]:
        if kind_of(a["type"]) != "float":
            continue
        texts = list(texts_by_arg.get(a["name"], []))
        if a.get("range"):
            texts += [x for x in (a["range"].get("min"), a["range"].get("max")) if x is not None]
        texts += list(a.get("allowed") or [])
        for t in texts:
            if t in seen:
                continue
            seen.add(t)
            try:
                r = float_tok(float(t))
            except ValueError:
                r = "!"
            out.append(f"pf {tok_str(t)} {r}")
    return out


def decl_lines(decl: Dict[str, Any]) -> List[str]:
    lines = [f"svc {'T' if decl['strict'] else 'F'} {tok_str(decl['device_url'])} {tok_str(decl['control_url'])} "
             f"{tok_str(decl['service_type'])} {tok_str(decl['action'])}"]
    for a in decl["args"]:
        r = a.get("range")
        al = a.get("allowed")
        al_tok = "~" if al is None else ("@" if not al else ",".join(tok_str(x) for x in al))
        lines.append(f"arg {a['dir']} {tok_str(a['name'])} {a['type']} {'T' if r else 'F'} "
                     f"{opt_tok(r.get('min') if r else None)} {opt_tok(r.get('max') if r else None)} {al_tok}")
    return lines


EMPTY_RESPONSE = ('<?xml version="1.0"?><s:Envelope xmlns:s="http://schemas.xmlsoap.org/soap/envelope/"><s:Body>'
                  '<u:{a}Response xmlns:u="{st}"></u:{a}Response></s:Body></s:Envelope>')


def _ops_of(recipe: Dict[str, Any]) -> List[Any]:
    """a recipe is a history on ONE device / service / action object: `["call", kwargs]` and
    `["reinit", {"device_url":…, "control_url":…}]` (UpnpDevice.reinit from a freshly built device, the
    DeviceUpdater path).  The older single-call form {decl, kwargs} is a history of length one."""
    if "ops" in recipe:
        return list(recipe["ops"])
    return [["call", recipe["kwargs"]]]


MUTATIONS = ["in_sort", "in_reverse", "in_pop", "in_remove_first", "in_clear", "out_reverse", "out_clear",
             "result_clear", "kwargs_clear"]


def mutate_returned(action, kind: str, last: Dict[str, Any]) -> None:
    """what a caller may legitimately do with objects the public API handed out"""
    if kind.startswith("in_") or kind.startswith("out_"):
        lst = action.in_arguments() if kind.startswith("in_") else action.out_arguments()
        what = kind.split("_", 1)[1]
        if what == "sort":
            lst.sort(key=lambda a: a.name, reverse=True)
        elif what == "reverse":
            lst.reverse()
        elif what == "pop" and lst:
            lst.pop()
        elif what == "remove_first" and lst:
            lst.remove(lst[0])
        elif what == "clear":
            lst.clear()
    elif kind == "result_clear":
        r = last.get("result")
        if isinstance(r, dict):
            r.clear()
    elif kind == "kwargs_clear":
        k = last.get("kwargs")
        if isinstance(k, dict):
            k.clear()


def run_recipe(ctx: Ctx, recipe: Dict[str, Any], cid: str) -> Case:
    decl = recipe["decl"]
    from xml.sax.saxutils import quoteattr
    resp_body = ('<?xml version="1.0"?><s:Envelope xmlns:s="http://schemas.xmlsoap.org/soap/envelope/"><s:Body>'
                 f'<u:{decl["action"]}Response xmlns:u={quoteattr(decl["service_type"])}/></s:Body></s:Envelope>')
    req, device, action = build_device(decl, (200, {}, resp_body))
    lines = decl_lines(decl)
    ops = _ops_of(recipe)
    tags = {f"strict:{decl['strict']}", f"nin:{sum(1 for a in decl['args'] if a['dir'] == 'in')}",
            f"calls:{min(sum(1 for o in ops if o[0] == 'call'), 8)}"}
    if decl.get("sv_case"):
        tags.add("decl:sv-case-variants")
    sigs: List[str] = []
    prev_sent: Optional[bool] = None
    prev_kw = None
    last: Dict[str, Any] = {}
    for op in ops:
        if op[0] == "reinit":
            # the device is re-initialised in place from a description fetched at another location
            decl2 = dict(decl, device_url=op[1]["device_url"], control_url=op[1].get("control_url", decl["control_url"]))
            _r2, device2, _a2 = build_device(decl2, (200, {}, resp_body))
            device.reinit(device2)
            lines.append(f"reinit {tok_str(decl2['device_url'])} {tok_str(decl2['control_url'])}")
            tags.add("op:reinit")
            if decl2["control_url"] != decl["control_url"]:
                tags.add("op:reinit-control-url-differs")
            continue
        if op[0] == "mutate":
            # the caller mutates what the public accessors RETURNED (never the action's own attributes):
            # the request stays a function of the action as declared
            mutate_returned(action, op[1], last)
            lines.append(f"mutate {op[1]}")
            tags.add("op:mutate:" + op[1])
            continue
        kwargs = {n: val_unjson(j) for n, j in op[1]}
        last["kwargs"] = kwargs
        n0 = len(req.log)
        exc: Optional[BaseException] = None
        via = op[2] if len(op) > 2 else "action"
        try:
            if via == "service_obj":      # UpnpService.async_call_action(action object, **kwargs)
                last["result"] = run(action.service.async_call_action(action, **kwargs))
            elif via == "service_name":   # UpnpService.async_call_action("Name", **kwargs)
                last["result"] = run(action.service.async_call_action(action.name, **kwargs))
            else:
                last["result"] = run(action.async_call(**kwargs))
        except Exception as e:  # noqa: BLE001 - the exception is the observation
            exc = e
        tags.add("via:" + via)
        log = req.log[n0:]
        lines.append("call")
        for n, v in kwargs.items():
            lines.append(f"kw {tok_str(n)} {val_tok(v)}")
        # texts that need the float()/parse_date_time oracle: what the caller supplied, rendered, and what was sent
        texts: Dict[str, List[str]] = {}
        for n, v in kwargs.items():
            if isinstance(v, float):
                texts.setdefault(n, []).append(repr(v))
        body = log[0][3] if log else None
        tl = tree_lines(body)
        if log and tl[0] != "tree ~":
            import defusedxml.ElementTree as DET
            root = DET.fromstring(body)
            for el in root.iter():
                if "}" not in el.tag:
                    texts.setdefault(el.tag, []).append(el.text or "")
        lines += oracle_lines(decl, texts)
        lines.append(f"sent {len(log)}")
        lines.append("exc ~" if exc is None else f"exc {exc_token(exc)} {lib_mro(exc)}")
        if log:
            method, url, headers, body = log[0]
            lines.append(f"req {tok_str(method)} {tok_str(url)} {tok_str(body if isinstance(body, str) else '')}")
            for k, v in (headers or {}).items():
                lines.append(f"hdr {tok_str(str(k))} {tok_str(str(v))}")
            lines += tl
            tags.add("sent")
        else:
            tags.add("refused:" + (exc_token(exc) if exc else "none"))
        if prev_sent is not None:
            tags.add(f"seq:{'sent' if prev_sent else 'refused'}->{'sent' if log else 'refused'}")
            if not log and not prev_sent and prev_kw == op[1]:
                tags.add("seq:same-invalid-repeated")
        prev_sent, prev_kw = bool(log), op[1]
        for a in decl["args"]:
            if a["dir"] == "in":
                tags.add("type:" + a["type"])
                if a["name"] in kwargs:
                    tags.add(f"val:{kind_of(a['type'])}<-{val_class(kwargs[a['name']])}")
                else:
                    tags.add("val:missing")
                if a.get("range"):
                    tags.add("decl:range")
                if a.get("allowed"):
                    tags.add("decl:allowed")
        sig_args = ",".join(sorted(f"{a['type']}:{val_class(kwargs[a['name']]) if a['name'] in kwargs else 'missing'}"
                                   for a in decl["args"] if a["dir"] == "in"))
        sigs.append(f"exc={exc_token(exc) if exc else 'none'} sent={len(log)} args={sig_args}")
    case = Case(cid, lines, recipe, any(a["dir"] == "in" for a in decl["args"]), sorted(tags))
    case.sig = "C06 " + " ; ".join(sigs[:6])  # type: ignore[attr-defined]
    return case


def signature(case: Case, verdict) -> str:
    return getattr(case, "sig", "C06") + " | " + verdict.notes[:200]


# ---- generators ----------------------------------------------------------------------------------------

NAME_START = "ABCDEFGHIJKLMNOPQRSTUVWXYZabcdefghijklmnopqrstuvwxyz_"
NAME_REST = NAME_START + "0123456789.-"
NAME_POOL = ["InstanceID", "Channel", "DesiredVolume", "CurrentURI", "NewValue", "Été", "名前", "A", "x_1", "Speed.v2", "a-b"]

DEVICE_URLS = ["http://192.168.1.10:8080/desc/root.xml", "http://host/", "http://[fe80::1]:80/a/b.xml",
               "https://example.org:443/x", "http://h", "http://10.0.0.1:49152/dev/desc.xml?id=1", "http://user@h:1/d/e/f"]
CONTROL_URLS = ["/ctl/Svc", "ctl", "sub/ctl?x=1", "http://other:99/c", "//other/c", "", "/upnp/control/RenderingControl1",
                "/c?a=1&b=2", "https://h2/ctl", "control.cgi", "/"]
SERVICE_TYPES = ["urn:schemas-upnp-org:service:RenderingControl:1", "urn:schemas-upnp-org:service:AVTransport:2",
                 "urn:acme-corp:service:X_y:12", "urn:schemas-upnp-org:service:ContentDirectory:1", "urn:a:service:é:1",
                 # device-controlled text: anything the description can carry (F06c)
                 "urn:acme&co:service:X:1", "urn:a\"b:service:Q:1", "urn:x<y>:service:It's \"Z\":1", "urn:t\tab:service:n\nl:1"]

STR_ALPHABETS = [
    "abcXYZ 019",
    "<>&\"'",
    "]]>&amp;&#13;&lt;",
    "\t\n\r",
    "\u00e9\u65e5\u672c\U0001F600\u0085\u2028\ufffd\ud7ff\ue000",
    "a<b>&c\r\nd\re\n",
]
TZS = [timezone.utc, timezone(timedelta(hours=1)), timezone(timedelta(hours=-5, minutes=-30)), timezone(timedelta(hours=23, minutes=59)),
       timezone(timedelta(hours=-23, minutes=-59)), timezone(timedelta(minutes=-1)), timezone(timedelta(hours=5, minutes=45))]


def rand_name(rng) -> str:
    if rng.random() < 0.6:
        return rng.choice(NAME_POOL)
    return rng.choice(NAME_START) + "".join(rng.choice(NAME_REST) for _ in range(rng.randrange(0, 8)))


def rand_str(rng) -> str:
    n = rng.choice([0, 1, 1, 2, 3, 5, 8, 20])
    alpha = rng.choice(STR_ALPHABETS) if rng.random() < 0.7 else "".join(STR_ALPHABETS)
    return "".join(rng.choice(alpha) for _ in range(n))


def rand_date(rng) -> date:
    y = rng.choice([1, 9, 99, 999, 1000, 1970, 2000, 2024, 9999, rng.randrange(1, 10000)])
    m = rng.randrange(1, 13)
    last = [31, 29 if (y % 4 == 0 and (y % 100 != 0 or y % 400 == 0)) else 28, 31, 30, 31, 30, 31, 31, 30, 31, 30, 31][m - 1]
    return date(y, m, rng.choice([1, last, rng.randrange(1, last + 1)]))


def rand_time(rng, aware=None) -> time:
    tz = rng.choice(TZS) if (aware if aware is not None else rng.random() < 0.5) else None
    return time(rng.randrange(0, 24), rng.randrange(0, 60), rng.randrange(0, 60), tzinfo=tz)


def rand_datetime(rng, aware=None) -> datetime:
    d = rand_date(rng)
    t = rand_time(rng, aware)
    return datetime(d.year, d.month, d.day, t.hour, t.minute, t.second, tzinfo=t.tzinfo)


def rand_int(rng) -> int:
    return rng.choice([0, 1, -1, 7, 42, 100, 255, 256, 65535, 65536, -32768, 2 ** 31, -2 ** 31 - 1, 2 ** 64, 10 ** 30, -10 ** 25,
                       rng.randrange(-1000, 1000), rng.randrange(-10 ** 12, 10 ** 12)])


def rand_float(rng) -> float:
    return rng.choice([0.0, -0.0, 1.5, -2.25, 0.1, 1e300, 1e-7, 5e-324, 1.7976931348623157e308, float("nan"), float("inf"), float("-inf"),
                       100.0, 3.141592653589793, rng.uniform(-1000, 1000), float(rng.randrange(-50, 50))])


WRONG = [None, [1], b"x", {"a": 1}, (1,)]


def rand_arg_decl(rng, name: str, direction: str) -> Dict[str, Any]:
    t = rng.choice(ALL_TYPES) if rng.random() < 0.7 else rng.choice(["ui2", "i4", "string", "boolean", "r4", "dateTime"])
    a: Dict[str, Any] = {"name": name, "dir": direction, "type": t}
    k = kind_of(t)
    if k == "int" and rng.random() < 0.5:
        lo = rng.choice([0, -10, 1, -32768, 5])
        hi = lo + rng.choice([0, 1, 10, 100, 65535])
        fmt = rng.choice(["{}", "{}", " {} ", "+{}", "0{}"])
        r: Dict[str, Any] = {}
        c = rng.random()
        if c < 0.6:
            r = {"min": str(lo), "max": (fmt.format(hi) if hi >= 0 else str(hi)), "step": "1"}
        elif c < 0.75:
            r = {"min": str(lo)}
        elif c < 0.9:
            r = {"max": str(hi)}
        else:
            r = {"min": "", "max": ""}
        a["range"] = r
    elif k == "float" and rng.random() < 0.4:
        c = rng.random()
        if c < 0.6:
            a["range"] = {"min": rng.choice(["0", "0.0", "-1.5", "1e-3"]), "max": rng.choice(["1", "100.5", "1e3", "inf"])}
        elif c < 0.8:
            a["range"] = {"min": rng.choice(["0", "-2.5"])}
        else:
            a["range"] = {"max": rng.choice(["10", "0.5"])}
    if k == "dt" and rng.random() < 0.25:
        # bounds / lists written in wire form (also with the spellings parse_date_time accepts)
        def wire(aware):
            if t == "date":
                return rand_date(rng).isoformat()
            if t.startswith("dateTime"):
                return rand_datetime(rng, aware=aware).isoformat()
            return rand_time(rng, aware=aware).isoformat()
        aware = True if t.endswith(".tz") else (rng.random() < 0.5 if t != "date" else False)
        if rng.random() < 0.6:
            lo, hi = sorted([wire(aware), wire(aware)])
            c = rng.random()
            a["range"] = {"min": lo, "max": hi} if c < 0.6 else ({"min": lo} if c < 0.8 else {"max": hi})
        else:
            a["allowed"] = [wire(aware) for _ in range(rng.choice([1, 2, 3]))]
    if k == "str" and rng.random() < 0.08:
        a["range"] = rng.choice([{"min": "a", "max": "m"}, {"min": "B"}, {"max": "zz"}])
    if k == "str" and rng.random() < 0.4:
        a["allowed"] = rng.choice([["Master", "LF", "RF"], ["a", "a b", " c"], ["<x>", "&"], [], ["PLAY", "Play"], ["x\ry"]])
    elif k == "int" and rng.random() < 0.15:
        a["allowed"] = rng.choice([["1", "2", "3"], ["0", "10", "010"], ["-1"], []])
    elif k == "float" and rng.random() < 0.1:
        a["allowed"] = rng.choice([["0.5", "1"], ["1e2", "nan"]])
    return a


def rand_names(rng, dirs: List[str]) -> List[str]:
    """argument names: distinct among the in-arguments and among the out-arguments; an in- and an
    out-argument may share a name (legal; `argument(name, direction)` must tell them apart)"""
    used = {"in": [], "out": []}
    names: List[str] = []
    for d in dirs:
        other = used["out" if d == "in" else "in"]
        while True:
            nm = rng.choice(other) if other and rng.random() < 0.3 else rand_name(rng)
            if nm not in used[d] and not nm.startswith("Unknown_"):
                break
        used[d].append(nm)
        names.append(nm)
    return names


def share_vars(rng, args: List[Dict[str, Any]], only_dir: Optional[str] = None) -> None:
    """some arguments relate to the state variable of an earlier argument (the usual A_ARG_TYPE_x
    situation): same data type and declaration, one UpnpStateVariable object"""
    for i in range(1, len(args)):
        if rng.random() < 0.15:
            j = rng.randrange(i)
            if only_dir is not None and (args[i]["dir"] != only_dir or args[j]["dir"] != only_dir):
                continue
            root = args[j].get("sv") if args[j].get("sv") is not None else j
            for key in ("type", "range", "allowed"):
                if key in args[root]:
                    args[i][key] = args[root][key]
                else:
                    args[i].pop(key, None)
            args[i]["sv"] = root


def split_family(rng, args: List[Dict[str, Any]]) -> None:
    """two (or three) same-typed string variables of ONE service whose allowed lists are different
    splittings of the same joined text (`['LF,RF', 'Master']` vs `['LF', 'RF', 'Master']`), members
    containing separator-like characters; or the same type / range with different lists"""
    idx = [i for i, a in enumerate(args) if a["dir"] == "in" and a.get("sv") is None
           and not any(b.get("sv") == i for b in args)]
    if len(idx) < 2:
        return
    rng.shuffle(idx)
    chosen = idx[: rng.choice([2, 2, 3])]
    tokens = rng.sample(["LF", "RF", "Master", "a b", "x", "C:1", "p|q", "1", "Z;z"], rng.choice([3, 4]))
    for n, i in enumerate(chosen):
        a = args[i]
        a["type"] = rng.choice(["string", "string", "char", "uri"]) if n == 0 else args[chosen[0]]["type"]
        a.pop("range", None)
        if n == 0:
            a["allowed"] = list(tokens)
        else:
            sep = rng.choice([",", ",", ",", ";", "|", " ", ":"])
            k = rng.randrange(len(tokens) - 1)
            a["allowed"] = tokens[:k] + [tokens[k] + sep + tokens[k + 1]] + tokens[k + 2:]
            if rng.random() < 0.3:      # same type, different list altogether
                a["allowed"] = [t + sep for t in tokens[:2]]


def rand_decl(rng) -> Dict[str, Any]:
    n_in = rng.choice([0, 1, 1, 2, 2, 3, 4, 5, 6])
    n_out = rng.choice([0, 0, 1, 2])
    dirs = ["in"] * n_in + ["out"] * n_out
    rng.shuffle(dirs)
    names = rand_names(rng, dirs)
    args = [rand_arg_decl(rng, nm, d) for nm, d in zip(names, dirs)]
    share_vars(rng, args)
    if rng.random() < 0.25:
        split_family(rng, args)
    return {
        "strict": rng.random() < 0.8,
        "device_url": rng.choice(DEVICE_URLS),
        "control_url": rng.choice(CONTROL_URLS),
        "service_type": rng.choice(SERVICE_TYPES[:5] if rng.random() < 0.75 else SERVICE_TYPES[5:]),
        "action": rand_name(rng),
        "args": args,
        "other_actions": rng.choice([0, 0, 1, 2]),
        "sv_case": rng.random() < 0.3,
    }


def near_bounds(a: Dict[str, Any], rng):
    """a value at or just beyond a declared bound / list member"""
    k = kind_of(a["type"])
    r = a.get("range") or {}
    cands = []
    for key in ("min", "max"):
        t = r.get(key)
        if t:
            try:
                b = int(t) if k == "int" else float(t)
            except ValueError:
                continue
            if k == "int":
                cands += [b, b - 1, b + 1]
            elif not math.isinf(b):
                cands += [b, b - 0.5, b + 0.5, math.nextafter(b, math.inf), math.nextafter(b, -math.inf)]
    for t in a.get("allowed") or []:
        try:
            cands.append(int(t) if k == "int" else (float(t) if k == "float" else t))
        except ValueError:
            pass
    return rng.choice(cands) if cands else None


def in_domain(a: Dict[str, Any], rng):
    """a value inside the declared range / allowed list (None when nothing is declared)"""
    k = kind_of(a["type"])
    al = a.get("allowed")
    r = a.get("range") or {}
    try:
        if al:
            t = rng.choice(al)
            if k == "dt":
                from async_upnp_client.utils import parse_date_time
                return parse_date_time(t)
            return int(t) if k == "int" else (float(t) if k == "float" else t)
        lo = r.get("min") or None
        hi = r.get("max") or None
        if lo is None and hi is None:
            return None
        if k == "int":
            lo_i = int(lo) if lo is not None else int(hi) - 1000
            hi_i = int(hi) if hi is not None else lo_i + 1000
            return rng.randint(lo_i, hi_i) if lo_i <= hi_i else None
        if k == "float":
            lo_f = float(lo) if lo is not None else float(hi) - 10.0
            hi_f = float(hi) if hi is not None else lo_f + 10.0
            if math.isinf(hi_f):
                hi_f = lo_f + 1e6
            return rng.uniform(lo_f, hi_f)
        if k == "dt":
            from async_upnp_client.utils import parse_date_time
            return parse_date_time(rng.choice([x for x in (lo, hi) if x is not None]))
    except ValueError:
        return None
    return None


def rand_value(rng, a: Dict[str, Any]) -> Any:
    """mostly a value of the declared type; sometimes a boundary / wrong-type value"""
    k = kind_of(a["type"])
    c = rng.random()
    if c < 0.05:  # wrong Python type
        if k == "int":
            return rng.choice([True, False, True, "5", 5.0, None, [1]])
        if k == "float":
            return rng.choice([5, True, "1.5", None])
        if k == "str":
            return rng.choice([5, None, b"x", True, 1.5])
        if k == "bool":
            return rng.choice([1, 0, "1", None, "true"])
        return rng.choice([rand_date(rng), rand_time(rng), rand_datetime(rng), "2020-01-01", None, 5])
    if c < 0.30:
        nb = near_bounds(a, rng)
        if nb is not None:
            return nb
    if c < 0.85:
        dom = in_domain(a, rng)
        if dom is not None:
            return dom
    if k == "int":
        return rng.random() < 0.5 if rng.random() < 0.05 else rand_int(rng)
    if k == "float":
        return rand_float(rng)
    if k == "str":
        return rand_str(rng)
    if k == "bool":
        return rng.random() < 0.5
    t = a["type"]
    if t == "date":
        return rand_date(rng) if rng.random() < 0.7 else rand_datetime(rng)
    if t == "dateTime":
        return rand_datetime(rng)
    if t == "dateTime.tz":
        return rand_datetime(rng, aware=rng.random() < 0.8)
    if t == "time":
        return rand_time(rng)
    return rand_time(rng, aware=rng.random() < 0.8)


def rand_kwargs(rng, decl: Dict[str, Any], valid_bias: Optional[bool] = None) -> List[Any]:
    """one assignment for the action: mostly of the declared types; `valid_bias=False` forces one bad argument"""
    kw = []
    ins = [a for a in decl["args"] if a["dir"] == "in"]
    drop = rng.random() < 0.08 and ins
    for a in ins:
        kw.append([a["name"], val_json(rand_value(rng, a))])
    if valid_bias is False and ins:
        i = rng.randrange(len(ins))
        a = ins[i]
        k = kind_of(a["type"])
        c = rng.random()
        if c < 0.3:
            drop = True
        elif c < 0.6:  # wrong Python type
            kw[i] = [a["name"], val_json({"int": "5", "float": 5, "str": 5, "bool": 1}.get(k, "2020-01-01"))]
        else:          # outside range / list when one is declared, else wrong type
            r = a.get("range") or {}
            bad: Any = None
            try:
                if k == "int" and r.get("max"):
                    bad = int(r["max"]) + 1
                elif k == "int" and r.get("min"):
                    bad = int(r["min"]) - 1
                elif k == "float" and r.get("max") and not math.isinf(float(r["max"])):
                    bad = float(r["max"]) + 1.0
                elif k == "str" and a.get("allowed"):
                    bad = "not-a-member"
            except ValueError:
                bad = None
            kw[i] = [a["name"], val_json(bad if bad is not None else None)]
    if drop and kw:
        kw.pop(rng.randrange(len(kw)))
    if rng.random() < 0.1:
        kw.append(["Extra_" + rand_name(rng), val_json(rng.choice([1, "x", None]))])
    if rng.random() < 0.3:
        rng.shuffle(kw)
    seen = set()
    return [p for p in kw if not (p[0] in seen or seen.add(p[0]))]


def rand_reinit(rng, decl: Dict[str, Any]) -> List[Any]:
    """the device is found again at another location (other host / port / path); sometimes the new
    description also names another control URL"""
    r: Dict[str, Any] = {"device_url": rng.choice(DEVICE_URLS + ["http://192.168.1.77:5000/new/desc.xml", "http://[fe80::2]:8080/d.xml"])}
    if rng.random() < 0.3:
        r["control_url"] = rng.choice(CONTROL_URLS)
    return ["reinit", r]


def rand_case(rng, allow_known: bool = True) -> Dict[str, Any]:
    """a history of 1..6 calls on one device / service / action object: the same or different
    assignments, invalid ones repeated, valid -> invalid -> valid alternations, re-initialisation of
    the device in place between calls"""
    decl = rand_decl(rng)
    shape = rng.random()
    ops: List[Any] = []
    if shape < 0.35:
        ops = [["call", rand_kwargs(rng, decl)]]
    elif shape < 0.5:      # the same invalid assignment two or three times, then a valid one
        bad = rand_kwargs(rng, decl, valid_bias=False)
        ops = [["call", bad] for _ in range(rng.choice([2, 3]))] + [["call", rand_kwargs(rng, decl)]]
    elif shape < 0.65:     # valid -> invalid -> valid (the same valid one again)
        good = rand_kwargs(rng, decl)
        ops = [["call", good], ["call", rand_kwargs(rng, decl, valid_bias=False)], ["call", good]]
    elif shape < 0.8:      # re-initialised between two calls with the same assignment
        kw = rand_kwargs(rng, decl)
        ops = [["call", kw], rand_reinit(rng, decl), ["call", kw]]
        if rng.random() < 0.3:
            ops += [rand_reinit(rng, decl), ["call", rand_kwargs(rng, decl)]]
    else:
        for _ in range(rng.choice([2, 3, 4, 6])):
            if rng.random() < 0.15:
                ops.append(rand_reinit(rng, decl))
            ops.append(["call", rand_kwargs(rng, decl, valid_bias=False if rng.random() < 0.3 else None)])
    if rng.random() < 0.3:
        # the caller mutates a returned list / dict somewhere in the history, then calls again
        kw = rand_kwargs(rng, decl)
        pos = rng.randrange(len(ops) + 1)
        ops[pos:pos] = [["call", kw], ["mutate", rng.choice(MUTATIONS)]] if rng.random() < 0.5 else [["mutate", rng.choice(MUTATIONS)]]
        ops += [["call", kw], ["call", rand_kwargs(rng, decl, valid_bias=False)]]
    for op in ops:
        if op[0] == "call" and rng.random() < 0.4:
            op.append(rng.choice(["service_obj", "service_name"]))
    return {"decl": decl, "ops": ops}


def _decl1(t: str, **kw) -> Dict[str, Any]:
    return {"strict": True, "device_url": "http://192.168.1.10:8080/desc/root.xml", "control_url": "/ctl/Svc",
            "service_type": "urn:schemas-upnp-org:service:RenderingControl:1", "action": "SetX",
            "args": [dict({"name": "X", "dir": "in", "type": t}, **kw)]}


CORPUS = [
    {"decl": _decl1("i4"), "kwargs": [["X", ["b", True]]]},                                      # F06a
    {"decl": _decl1("ui2", range={"min": "0", "max": "100"}), "kwargs": [["X", ["b", False]]]},  # F06a
    {"decl": _decl1("string"), "kwargs": [["X", ["s", "x\ry\r\nz"]]]},                           # F06b
    {"decl": _decl1("string"), "kwargs": [["X", ["s", "\r"]]]},                                  # F06b
    {"decl": _decl1("string"), "kwargs": [["X", ["s", "a<b>&\"c'\n\t]]>"]]]},
    {"decl": _decl1("time.tz"), "kwargs": [["X", ["t", "03:04:05+01:00"]]]},                     # F08a (C08's)
    {"decl": _decl1("ui2", range={"min": "0", "max": "100"}), "kwargs": [["X", ["i", "101"]]]},
    {"decl": _decl1("string", allowed=["Master", "LF"]), "kwargs": [["X", ["s", "master"]]]},
    {"decl": _decl1("i4"), "kwargs": []},
    # an in- and an out-argument of one name (audit C06-1): out X -> string, in X -> ui2 0..100
    {"decl": dict(_decl1("ui2"), action="Swap", args=[{"name": "X", "dir": "out", "type": "string"},
                                                      {"name": "X", "dir": "in", "type": "ui2", "range": {"min": "0", "max": "100"}}]),
     "ops": [["call", [["X", ["i", "5"]]]], ["call", [["X", ["i", "101"]]]], ["call", [["X", ["s", "5"]]]]]},
    # the caller mutates lists the accessors returned; later requests keep the declared arguments and order
    {"decl": dict(_decl1("i4"), args=[{"name": "B", "dir": "in", "type": "i4"}, {"name": "A", "dir": "in", "type": "string"},
                                      {"name": "R", "dir": "out", "type": "i4"}]),
     "ops": [["call", [["A", ["s", "x"]], ["B", ["i", "1"]]]], ["mutate", "in_sort"], ["call", [["A", ["s", "x"]], ["B", ["i", "1"]]]],
             ["mutate", "in_clear"], ["call", [["A", ["s", "x"]], ["B", ["i", "1"]]]], ["call", [["A", ["s", "x"]]]],
             ["mutate", "in_pop"], ["mutate", "out_clear"], ["mutate", "result_clear"], ["mutate", "kwargs_clear"],
             ["call", [["B", ["i", "2"]], ["A", ["s", "y"]]]]]},
    # state variables whose names differ only in case, with different data types (validation by the exactly-named one)
    {"decl": dict(_decl1("i4"), sv_case=True, args=[{"name": "A", "dir": "in", "type": "string"}, {"name": "B", "dir": "in", "type": "ui2", "range": {"min": "0", "max": "9"}},
                                                     {"name": "C", "dir": "in", "type": "boolean"}]),
     "ops": [["call", [["A", ["s", "007"]], ["B", ["i", "7"]], ["C", ["b", True]]]], ["call", [["A", ["i", "7"]], ["B", ["i", "7"]], ["C", ["b", True]]]],
             ["call", [["A", ["s", "x"]], ["B", ["i", "10"]], ["C", ["b", False]]]]]},
    # two string variables of one service whose allowed lists are different splittings of one joined text
    {"decl": dict(_decl1("string"), args=[{"name": "A", "dir": "in", "type": "string", "allowed": ["LF", "RF", "Master"]},
                                          {"name": "B", "dir": "in", "type": "string", "allowed": ["LF,RF", "Master"]}]),
     "ops": [["call", [["A", ["s", "LF"]], ["B", ["s", "LF,RF"]]]], ["call", [["A", ["s", "LF"]], ["B", ["s", "LF"]]]],
             ["call", [["A", ["s", "LF,RF"]], ["B", ["s", "Master"]]]], ["call", [["A", ["s", "RF"]], ["B", ["s", "Master"]]]]]},
    # histories on one object
    {"decl": _decl1("ui2", range={"min": "0", "max": "100"}),
     "ops": [["call", [["X", ["i", "101"]]]], ["call", [["X", ["i", "101"]]]], ["call", [["X", ["i", "5"]]]],
             ["call", [["X", ["s", "5"]]]], ["call", []], ["call", [["X", ["i", "100"]]]]]},
    {"decl": _decl1("string", allowed=["Master", "LF"]),
     "ops": [["call", [["X", ["s", "Master"]]]], ["call", [["X", ["s", "master"]]]], ["call", [["X", ["s", "master"]]]],
             ["call", [["X", ["s", "LF"]]]]]},
    {"decl": _decl1("i4"),
     "ops": [["call", [["X", ["i", "1"]]]], ["reinit", {"device_url": "http://10.9.8.7:4321/other/desc.xml"}],
             ["call", [["X", ["i", "1"]]]], ["reinit", {"device_url": "https://host.example:8443/x.xml", "control_url": "/else"}],
             ["call", [["X", ["i", "2"]]]]]},
    {"decl": dict(_decl1("string"), service_type="urn:acme&co:service:X:1"), "kwargs": [["X", ["s", "v"]]]},          # F06c
    {"decl": dict(_decl1("string"), service_type="urn:a\"b<c>:service:It's:1"), "kwargs": [["X", ["s", "v"]]]},      # F06c
    {"decl": _decl1("r8"), "kwargs": [["X", ["f", "nan"]]]},
    {"decl": _decl1("boolean"), "kwargs": [["X", ["i", "1"]]]},
    {"decl": _decl1("date"), "kwargs": [["X", ["dt", "2020-01-02T03:04:05+01:00"]]]},
]


def _worker(args):
    from vk.core import activate_repo
    seed, start, n, prop, tier = args
    activate_repo()
    import random
    rng = random.Random(seed * 7919 + start)
    ctx = None
    out = []
    for i in range(n):
        out.append(run_recipe(ctx, rand_case(rng), f"r{start + i}"))
    return out


def generate(ctx: Ctx) -> List[Case]:
    cases: List[Case] = []
    for i, rec in enumerate(CORPUS):
        cases.append(run_recipe(ctx, rec, f"corpus{i}"))
    n = 60000 if ctx.thorough else 1500
    if ctx.thorough:
        import multiprocessing as mp
        chunk = 2500
        jobs = [(ctx.seed, s, min(chunk, n - s), ctx.prop, ctx.tier) for s in range(0, n, chunk)]
        with mp.get_context("fork").Pool(min(12, len(jobs))) as pool:
            for part in pool.map(_worker, jobs):
                cases.extend(part)
    else:
        for i in range(n):
            cases.append(run_recipe(ctx, rand_case(ctx.rng), f"r{i}"))
    return cases
