"""C07 correspondence harness: the real `UpnpAction.async_call` response path (status dispatch,
_parse_fault, parse_response, _parse_response_args) against the Lean model `Upnp.C07.decode`
and the judge `Upnp.C07.ok`.  Responses are rendered from a response model in many textual forms;
the text -> tree step is given to the Lean side as an oracle table filled by the real parser."""
from __future__ import annotations

from datetime import date, time
from typing import Any, Dict, List, Optional
from xml.sax.saxutils import escape as sax_escape, quoteattr

from harness import c06
from harness.c06 import (ALL_TYPES, build_action, decl_lines, kind_of, lib_mro, opt_tok, rand_name, run, val_tok,
                         val_unjson)
from harness.common import exc_token, tok_str
from vk.core import Case, Ctx

GEN_MODULES: List[str] = ["C06Types", "C08Types"]
MANIFEST = {
    "design_ref": "§5 C07",
    "text": ("Lean theorem c07_model_ok: for every declared action, strictness, status, body text and XML oracle, the "
             "model of async_call's response path (status dispatch, _parse_fault with ElementTree truthiness, "
             "parse_response, _parse_response_args with strict / wildcard namespace lookup and unknown-argument handling) "
             "satisfies the judge C07.ok: not-XML -> XML-parse error on 200 / response error with status otherwise; a SOAP "
             "fault at any status -> action error with code and description (and status when not 200); other non-200 -> "
             "response error with status; a 200 body holding the response element -> exactly the declared out-arguments "
             "present, converted by the declared coercion, for arbitrary trees, orders, and trailing padding; unknown "
             "out-arguments / foreign namespace -> library error in strict mode, tolerated otherwise. The exception "
             "hierarchy and the type table are regenerated from the source and pinned by decide-theorems. "
             "c07_history_ok: every call of every history of calls on one action object satisfies the judge on its own "
             "response (decode is stateless in the model; the implementation is compared call by call on generated "
             "histories). The model is tied to client.py by comparing outcome class, error_code, error_desc, status and returned mapping on every "
             "generated response; C07.ok is evaluated on the implementation's outcome."),
    "note": ("Trusted: Lean kernel + standard axioms; XML text -> tree (expat/defusedxml: prefixes, whitespace, entities, "
             "CDATA) is an oracle table filled by the real parser, sampled not proved; float() is an oracle (C08's FloatOps), every other out-argument conversion is C08's coercePython over the generated 26-row table (conversion_total: a failure is a ValueError); "
             "situations the property is silent about (childless/misplaced/multiple Fault, non-numeric errorCode, "
             "unconvertible out-argument text, neither fault nor response element on 200, no body) are compared with the "
             "model but not judged."),
    "technique": "Lean 4 proof (model satisfies the judge for all trees/statuses/modes) + generated tables + model/implementation correspondence",
}
RULE = ("one case = one generated action OBJECT (0..5 out-arguments over all data types, optional in-arguments, strict "
        "and non-strict) and a HISTORY of 1..6 successive calls on it (plus one 36-call walk over the status grid per "
        "mode), each call judged on its own response only; every boundary status 199/200/201/204/299/300/404/500/599 x "
        "{success, fault, neither, garbage} x {strict, non-strict} occurs in every run; per response: status x {success, fault, neither, garbage, no body} x out-argument "
        "subsets/orders/duplicates/unknown names/values (canonical, alternate spellings, unconvertible, empty) x "
        "serialisation (envelope/response prefixes, default namespace, foreign or version-shifted namespace, XML "
        "declaration, CDATA/character references, inter-element whitespace, comments, Header, leading and trailing "
        "padding incl. NUL). non-trivial = the body parses; distinct = distinct canonical driver text")
EXHAUSTIVE = {"quick": False, "thorough": False}
ASSUMPTIONS = [
    "XML text -> tree is whatever defusedxml.ElementTree.fromstring returns (oracle); documents with DTDs/entities (refused by defusedxml with a non-ParseError) are not generated",
    "non-ASCII decimal digits (accepted by Python int()) are outside the model",
    "float(text) is an oracle table (C08's FloatOps); every other conversion, parse_date_time included, is C08's model over the generated table",
]
TRUSTED = ["C07: the XML oracle table is filled by the same parser the library calls"]

PAD = " \t\r\n\0"
NS_SOAP = "http://schemas.xmlsoap.org/soap/envelope/"
NS_CTL = "urn:schemas-upnp-org:control-1-0"


def xml_entries(texts: List[str]) -> List[str]:
    import defusedxml.ElementTree as DET
    from xml.etree import ElementTree as ET

    out: List[str] = []
    seen = set()
    for t in texts:
        if t in seen:
            continue
        seen.add(t)
        try:
            root = DET.fromstring(t)
        except ET.ParseError:
            out.append(f"xml {tok_str(t)} ~")
            continue
        out.append(f"xml {tok_str(t)} y")

        def walk(el, depth):
            out.append(f"el {depth} {tok_str(el.tag)} {opt_tok(el.text)}")
            for ch in el:
                walk(ch, depth + 1)

        walk(root, 0)
    return out


def oracle_lines(decl: Dict[str, Any], texts: List[str]) -> List[str]:
    """float()/parse_date_time results for every element text in the parsed variants whose tag names a
    float / date-time out-argument"""
    import defusedxml.ElementTree as DET
    from xml.etree import ElementTree as ET

    by_arg: Dict[str, List[str]] = {}
    for t in texts:
        try:
            root = DET.fromstring(t)
        except ET.ParseError:
            continue
        for el in root.iter():
            by_arg.setdefault(el.tag, []).append(el.text or "")
    return c06.oracle_lines(decl, by_arg)


def _ops_of(recipe: Dict[str, Any]) -> List[Dict[str, Any]]:
    """a recipe is a history: `ops` = the answers the device gives to successive calls of ONE action
    object (the older single-call form {status, body} is a history of length one)"""
    if "ops" in recipe:
        return list(recipe["ops"])
    return [{"status": recipe["status"], "body": recipe["body"], "kind": recipe.get("kind", "?"), "ser": recipe.get("ser", [])}]


def attr_tok(v: Any) -> str:
    """an exception attribute, type-tagged; a class outside the value model is its own token (never `None`)"""
    if v is None or isinstance(v, (bool, int, float, str)):
        return val_tok(v)
    return "o:" + tok_str(type(v).__name__)


def run_recipe(ctx: Ctx, recipe: Dict[str, Any], cid: str) -> Case:
    decl = recipe["decl"]
    kwargs = {n: val_unjson(j) for n, j in recipe.get("kwargs", [])}
    ops = _ops_of(recipe)
    req, action = build_action(decl, (200, {}, ""))
    lines = decl_lines(decl)
    tags = {f"strict:{decl['strict']}", f"calls:{min(sum(1 for o in ops if 'mutate' not in o), 6)}"}
    if decl.get("sv_case"):
        tags.add("decl:sv-case-variants")
    nontrivial = False
    sigs = []
    last: Dict[str, Any] = {}
    for op in ops:
        if "mutate" in op:
            # the caller mutates what the public API RETURNED (out_arguments() / in_arguments() lists, the
            # mapping of an earlier call): later decoding stays a function of the action as declared
            c06.mutate_returned(action, op["mutate"], last)
            lines.append(f"mutate {op['mutate']}")
            tags.add("op:mutate:" + op["mutate"])
            continue
        status, body = op["status"], op["body"]
        req.response = (status, {}, body)      # the SAME action object answers every call of the history
        exc: Optional[BaseException] = None
        result = None
        via = op.get("via", "action")
        try:
            if via == "service_obj":
                result = run(action.service.async_call_action(action, **kwargs))
            elif via == "service_name":
                result = run(action.service.async_call_action(action.name, **kwargs))
            else:
                result = run(action.async_call(**kwargs))
        except Exception as e:  # noqa: BLE001 - the exception is the observation
            exc = e
        tags.add("via:" + via)
        last["result"] = result
        lines.append("call")
        variants = [] if not isinstance(body, str) else [body.rstrip(PAD), body.strip(PAD)]
        lines += oracle_lines(decl, variants)
        lines.append(f"resp {status} {opt_tok(body if isinstance(body, str) else None)}")
        xl = xml_entries(variants)
        lines += xl
        tags.update({f"status:{status}", "kind:" + op.get("kind", "?"), f"grid:{status}x{op.get('kind', '?')}"})
        tags.update("ser:" + x for x in op.get("ser", []))
        if exc is None:
            lines.append("ret")
            for k, v in result.items():
                lines.append(f"item {tok_str(k)} {val_tok(v)}")
            tags.add(f"out:ret{min(len(result), 3)}")
        else:
            code = getattr(exc, "error_code", None)
            desc = getattr(exc, "error_desc", None)
            st = getattr(exc, "status", None)
            # type-tagged: a str / float / bool that merely prints like the number is a different token
            lines.append(f"exc {exc_token(exc)} {lib_mro(exc)} {attr_tok(code)} {attr_tok(desc)} {attr_tok(st)}")
            tags.add("out:" + exc_token(exc))
        nontrivial = nontrivial or any(ln.startswith("xml ") and ln.endswith(" y") for ln in xl)
        sigs.append(f"{status}/{op.get('kind', '?')}/{'ret' if exc is None else exc_token(exc)}")
    case = Case(cid, lines, recipe, nontrivial, sorted(tags))
    case.sig = f"C07 calls={len(ops)} " + ",".join(sigs[:8])  # type: ignore[attr-defined]
    return case


def signature(case: Case, verdict) -> str:
    return getattr(case, "sig", "C07") + " | " + verdict.notes[:200]


# ---- response rendering ------------------------------------------------------------------------------

def esc_text(rng, s: str) -> str:
    """one of the equivalent spellings of character data"""
    c = rng.random()
    if c < 0.12 and "]]>" not in s and "\r" not in s:
        return f"<![CDATA[{s}]]>"
    if c < 0.22:
        return "".join(f"&#{ord(ch)};" if ch in "<>&\r" or rng.random() < 0.2 else ch for ch in s)
    if c < 0.3:
        return "".join(f"&#x{ord(ch):x};" if ch in "<>&\r" or rng.random() < 0.2 else ch for ch in s)
    return sax_escape(s, {"\r": "&#13;"})


def value_text(rng, t: str) -> str:
    """a wire text for an out-argument of type t: canonical, alternate spelling, or unconvertible"""
    k = kind_of(t)
    c = rng.random()
    if k == "int":
        if c < 0.65:
            return str(c06.rand_int(rng))
        if c < 0.9:
            return rng.choice([" 5 ", "+7", "-0", "007", "1_000", "\n12\t", "  -3"])
        return rng.choice(["", "abc", "1.0", "0x10", "5 5", "--1", "1__0", "_1", "1_", "+", "12a"])
    if k == "float":
        if c < 0.65:
            return repr(c06.rand_float(rng))
        if c < 0.9:
            return rng.choice(["1", " 2.5 ", "1e3", "-.5", "+1.", "Infinity", "NaN", "1_0.5", "0.30000000000000004"])
        return rng.choice(["", "abc", "1,5", "1.2.3", "e5"])
    if k == "str":
        return c06.rand_str(rng)
    if k == "bool":
        return rng.choice(["1", "0", "true", "false", "yes", "no", "TRUE", "Yes", "True", "tRuE", "YES", "yEs", "No", "FALSE",
                           " 1", "", "2", "on", "y", "1 ", "truee"])
    if c < 0.9:
        if t == "date":
            v: Any = c06.rand_date(rng)
        elif t.startswith("dateTime"):
            v = c06.rand_datetime(rng)
        else:
            v = c06.rand_time(rng)
        s = v.isoformat()
        # the spellings parse_date_time accepts (C08 `Spelling`): space for T (naive date-times), Z / z for
        # UTC date-times, offsets as ±HH:MM, ±HHMM, ` ±HHMM`, ` ±HH:MM`
        has_off = len(s) > 6 and s[-3] == ":" and s[-6] in "+-"
        c2 = rng.random()
        if not has_off and "T" in s and c2 < 0.2:
            s = s.replace("T", " ")
        elif has_off and "T" in s and s.endswith("+00:00") and c2 < 0.2:
            s = s[:-6] + rng.choice(["Z", "z"])
        elif has_off and c2 < 0.35:
            s = s[:-3] + s[-2:]
        elif has_off and c2 < 0.5:
            s = s[:-6] + " " + s[-6:-3] + s[-2:]
        elif has_off and c2 < 0.6:
            s = s[:-6] + " " + s[-6:]
        elif c2 > 0.97:
            s = s + "\n"
        return s
    return rng.choice(["", "abc", "12:00", "2020-13-01", "2020-02-30", "2021-02-29", "2020-01-01T25:00:00", "2020-01-01T00:00:00+24:00",
                       "20200101", "T12:00:00", "2020-01-01 ", "0000-01-01", "12:00:60", "12:00:61", "2020-01-01T00:00:00+0060",
                       "+1:00", "a+b:cd", "12:00:00+01:0", "2020-01-01t00:00:00", "2020-01-01T00:00:00 Z"])


def render_envelope(rng, inner: str, ser: List[str]) -> str:
    p = rng.choice(["s", "s", "SOAP-ENV", "soap", ""])
    ser.append("envprefix:" + (p or "default"))
    decl = rng.choice(['<?xml version="1.0"?>', '<?xml version="1.0" encoding="utf-8"?>', "", '<?xml version="1.0" encoding="UTF-8" standalone="yes"?>\n'])
    ws = rng.choice(["", "", "\n", "\r\n  "])
    if ws:
        ser.append("ws")
    if p:
        env_open = f'<{p}:Envelope xmlns:{p}="{NS_SOAP}" {p}:encodingStyle="http://schemas.xmlsoap.org/soap/encoding/">'
        hdr = f"<{p}:Header></{p}:Header>{ws}" if rng.random() < 0.1 else ""
        return f"{decl}{env_open}{ws}{hdr}<{p}:Body>{ws}{inner}{ws}</{p}:Body>{ws}</{p}:Envelope>"
    # default namespace for the envelope: the inner elements must reset / declare their own
    return f'{decl}<Envelope xmlns="{NS_SOAP}">{ws}<Body>{ws}{inner}{ws}</Body>{ws}</Envelope>'


def render_success(rng, decl: Dict[str, Any], ser: List[str], env_default: bool = False) -> str:
    outs = [a for a in decl["args"] if a["dir"] == "out"]
    st = decl["service_type"]
    c = rng.random()
    if c < 0.75:
        ns = st
    elif c < 0.85:
        ns = st[:-1] + str((int(st[-1]) + 1) % 10) if st[-1].isdigit() else st + "x"
        ser.append("ns:version-shift")
    elif c < 0.93:
        ns = "urn:foreign:ns"
        ser.append("ns:foreign")
    else:
        ns = None
        ser.append("ns:none")
    present = [a for a in outs if rng.random() < 0.8]
    rng.shuffle(present)
    items = [(a["name"], value_text(rng, a["type"])) for a in present]
    if rng.random() < 0.12:
        items.insert(rng.randrange(len(items) + 1), ("Unknown_" + rand_name(rng), "x"))
        ser.append("unknown-arg")
    if rng.random() < 0.06 and [a for a in decl["args"] if a["dir"] == "in"]:
        items.append((rng.choice([a["name"] for a in decl["args"] if a["dir"] == "in"]), "1"))
        ser.append("in-arg-name")
    if rng.random() < 0.06 and present:
        a = rng.choice(present)
        items.append((a["name"], value_text(rng, a["type"])))
        ser.append("dup-arg")
    ws = rng.choice(["", "", "\n", "\n    ", "\t"])
    pfx = rng.choice(["u", "u", "m", "ns0", ""]) if ns is not None else ""
    name = decl["action"] + ("Response" if rng.random() < 0.96 else rng.choice(["response", "Reply", ""]))
    arg_ns_reset = ""
    if ns is not None and pfx == "":
        ser.append("resp:default-ns")
        # a default namespace on the response element is inherited by un-prefixed children unless reset
        arg_ns_reset = ' xmlns=""' if rng.random() < 0.5 else ""
        if not arg_ns_reset:
            ser.append("args-inherit-ns")
    elif ns is None:
        arg_ns_reset = ""
    body = ""
    for n, t in items:
        if t == "" and rng.random() < 0.5:
            body += f"{ws}<{n}{arg_ns_reset}/>"
        else:
            body += f"{ws}<{n}{arg_ns_reset}>{esc_text(rng, t)}</{n}>"
    if rng.random() < 0.05:
        body += "<!-- a comment -->"
        ser.append("comment")
    if ns is None:
        # inside a default-namespace envelope an un-prefixed element is in the SOAP namespace
        return f"<{name}>{body}{ws}</{name}>"
    if pfx:
        return f"<{pfx}:{name} xmlns:{pfx}={quoteattr(ns)}>{body}{ws}</{pfx}:{name}>"
    return f"<{name} xmlns={quoteattr(ns)}>{body}{ws}</{name}>"


def render_fault(rng, ser: List[str], p: str = "s") -> str:
    c = rng.random()
    code = rng.choice(["401", "402", "501", "600", "701", "718", " 402 ", "0", "-1", "+402", "abc", "", "4 02", "1e2"]) if c < 0.9 else None
    desc = rng.choice(["Invalid Args", "Action Failed", "", "Gerät <busy> & co", " spaced ", "日本"]) if rng.random() < 0.85 else None
    ctl = rng.choice([NS_CTL] * 8 + ["urn:schemas-upnp-org:control-1-1", ""])
    if ctl != NS_CTL:
        ser.append("fault:ctl-ns-other")
    inner = ""
    if code is not None:
        inner += f"<errorCode>{sax_escape(code)}</errorCode>"
    if desc is not None:
        inner += f"<errorDescription>{sax_escape(desc)}</errorDescription>"
    if rng.random() < 0.05:
        inner += "<errorCode>999</errorCode>"
        ser.append("fault:two-codes")
    upnp_err = f'<UPnPError xmlns="{ctl}">{inner}</UPnPError>' if ctl else f"<UPnPError>{inner}</UPnPError>"
    shape = rng.random()
    if shape < 0.75:
        kids = f"<faultcode>s:Client</faultcode><faultstring>UPnPError</faultstring><detail>{upnp_err}</detail>"
    elif shape < 0.85:
        kids = upnp_err
        ser.append("fault:no-detail-wrapper")
    elif shape < 0.93:
        kids = "<faultcode>s:Server</faultcode><faultstring>Oops</faultstring>"
        ser.append("fault:no-upnperror")
    else:
        kids = ""
        ser.append("fault:childless")
    # how the Fault element names the SOAP namespace: its own prefix declaration (most devices), or a
    # default namespace on the element itself (no prefix anywhere in the text), or an unusual prefix
    style = rng.random()
    if style < 0.7:
        return f"<{p}:Fault xmlns:{p}=\"{NS_SOAP}\">{kids}</{p}:Fault>"
    if style < 0.9:
        ser.append("fault:default-ns")
        return f"<Fault xmlns=\"{NS_SOAP}\">{kids}</Fault>"
    ser.append("fault:odd-prefix")
    return f"<SOAP-ENV:Fault xmlns:SOAP-ENV=\"{NS_SOAP}\">{kids}</SOAP-ENV:Fault>"


GARBAGE = ["", "not xml at all", "<unclosed", "<a></b>", "<html><body><h1>500 Internal Server Error</h1></body>", "\0\0\0",
           "<?xml version=\"1.0\"?>", "<a>&nbsp;</a>", "{\"json\": true}", "<a><b></a></b>", "  ", "<a/><b/>", "<a>\x01</a>"]
NEITHER = ["<html><body><h1>Error</h1></body></html>", "<a/>", "<root><child>text</child></root>"]
STATUSES = [500, 500, 500, 404, 401, 412, 503, 204, 302, 0, 600]


def rand_decl(rng) -> Dict[str, Any]:
    n_out = rng.choice([0, 1, 1, 2, 2, 3, 4, 5])
    n_in = rng.choice([0, 0, 0, 1, 2])
    dirs = ["out"] * n_out + ["in"] * n_in
    rng.shuffle(dirs)
    names = c06.rand_names(rng, dirs)      # an in- and an out-argument may share a name
    args = []
    for nm, d in zip(names, dirs):
        if d == "in":
            args.append({"name": nm, "dir": "in", "type": rng.choice(["i4", "string", "boolean"])})
        else:
            t = rng.choice(ALL_TYPES) if rng.random() < 0.7 else rng.choice(["ui2", "i4", "string", "boolean", "r4", "dateTime"])
            args.append({"name": nm, "dir": "out", "type": t})
    c06.share_vars(rng, args, only_dir="out")
    return {
        "strict": rng.random() < 0.6,
        "device_url": rng.choice(c06.DEVICE_URLS[:3]),
        "control_url": rng.choice(c06.CONTROL_URLS[:3]),
        "service_type": rng.choice(c06.SERVICE_TYPES),
        "action": rand_name(rng),
        "args": args,
        "other_actions": rng.choice([0, 0, 1, 2]),
        "sv_case": rng.random() < 0.3,
    }


BOUNDARY_STATUSES = [199, 200, 201, 204, 299, 300, 404, 500, 599]
KINDS = ["success", "fault", "neither", "garbage"]


def rand_response(rng, decl: Dict[str, Any], status: Optional[int] = None, kind: Optional[str] = None) -> Dict[str, Any]:
    """one answer of the device: status x kind x serialisation"""
    if status is None:
        status = 200 if rng.random() < 0.6 else rng.choice(STATUSES + BOUNDARY_STATUSES)
    ser: List[str] = []
    if kind is None:
        c = rng.random()
        kind = "success" if c < 0.5 else "fault" if c < 0.72 else "neither" if c < 0.82 else "garbage" if c < 0.97 else "nobody"
    if kind == "success":
        body = render_envelope(rng, render_success(rng, decl, ser), ser)
    elif kind == "fault":
        inner = render_fault(rng, ser)
        if rng.random() < 0.1:
            inner = inner + render_success(rng, decl, ser)
            ser.append("fault+response")
        if rng.random() < 0.05:
            inner = inner + render_fault(rng, ser)
            ser.append("two-faults")
        body = render_envelope(rng, inner, ser)
    elif kind == "neither":
        body = render_envelope(rng, rng.choice(["", "<other/>", f"<u:Other xmlns:u={quoteattr(decl['service_type'])}/>"]), ser) \
            if rng.random() < 0.6 else rng.choice(NEITHER)
    elif kind == "garbage":
        body = rng.choice(GARBAGE)
        if rng.random() < 0.3:
            good = render_envelope(rng, render_success(rng, decl, ser), ser)
            body = rng.choice([good[: len(good) // 2], good + "<extra/>", good.replace("</", "<", 1), "x" + good])
    else:
        body = None
    if body is not None:
        tail = rng.choice(["", "", "", "\n", "\0", " \r\n\0\0", "\r\n", "\t \n", "\0\n\0"])
        head = rng.choice(["\n", " ", "\0", "\r\n "]) if rng.random() < 0.08 else ""
        if tail:
            ser.append("pad:tail" + ("-nul" if "\0" in tail else ""))
        if head:
            ser.append("pad:head")
        body = head + body + tail
    r = {"status": status, "body": body, "kind": kind, "ser": sorted(set(ser))}
    if rng.random() < 0.3:
        r["via"] = rng.choice(["service_obj", "service_name"])
    return r


def _kwargs_for(decl: Dict[str, Any]):
    return [[a["name"], {"i4": ["i", "1"], "string": ["s", "x"], "boolean": ["b", True]}[a["type"]]]
            for a in decl["args"] if a["dir"] == "in"]


def rand_case(rng) -> Dict[str, Any]:
    """a history: 1..6 answers to successive calls of one action object (most histories are short;
    every answer is judged on its own)"""
    decl = rand_decl(rng)
    n = rng.choice([1, 1, 1, 2, 2, 3, 4, 6])
    ops = [rand_response(rng, decl) for _ in range(n)]
    if n >= 2 and rng.random() < 0.5:
        # a full success first, then an answer with a smaller out-argument subset: stale values of the
        # first call must not show up in the second
        ops[0] = rand_response(rng, decl, status=200, kind="success")
    if rng.random() < 0.3:
        pos = rng.randrange(1, len(ops) + 1)
        ops[pos:pos] = [{"mutate": rng.choice(["out_reverse", "out_clear", "out_pop", "out_sort", "out_remove_first", "result_clear", "in_clear"])}]
        ops.append(rand_response(rng, decl, status=200, kind="success"))
    return {"decl": decl, "ops": ops, "kwargs": _kwargs_for(decl)}


def grid_cases(rng) -> List[Dict[str, Any]]:
    """every boundary status x every kind, strict and non-strict (histories of length one), plus one
    history per mode that walks the whole grid on a single action object"""
    out = []
    for strict in (True, False):
        walk_decl = dict(rand_decl(rng), strict=strict)
        walk = []
        for status in BOUNDARY_STATUSES:
            for kind in KINDS:
                decl = dict(rand_decl(rng), strict=strict)
                out.append({"decl": decl, "ops": [rand_response(rng, decl, status, kind)], "kwargs": _kwargs_for(decl)})
                walk.append(rand_response(rng, walk_decl, status, kind))
        rng.shuffle(walk)
        out.append({"decl": walk_decl, "ops": walk, "kwargs": _kwargs_for(walk_decl)})
    return out


def _d(outs, strict=True):
    return {"strict": strict, "device_url": "http://192.168.1.10:8080/desc/root.xml", "control_url": "/ctl",
            "service_type": "urn:schemas-upnp-org:service:RenderingControl:1", "action": "GetVolume",
            "args": [{"name": n, "dir": "out", "type": t} for n, t in outs]}


_ENV = ('<?xml version="1.0"?><s:Envelope xmlns:s="http://schemas.xmlsoap.org/soap/envelope/" '
        's:encodingStyle="http://schemas.xmlsoap.org/soap/encoding/"><s:Body>{}</s:Body></s:Envelope>')
_ST = "urn:schemas-upnp-org:service:RenderingControl:1"
_FAULT = ('<s:Fault><faultcode>s:Client</faultcode><faultstring>UPnPError</faultstring><detail>'
          '<UPnPError xmlns="urn:schemas-upnp-org:control-1-0"><errorCode>402</errorCode>'
          '<errorDescription>Invalid Args</errorDescription></UPnPError></detail></s:Fault>')
CORPUS = [
    {"decl": _d([("CurrentVolume", "ui2")]), "status": 200, "kind": "success",
     "body": _ENV.format(f'<u:GetVolumeResponse xmlns:u="{_ST}"><CurrentVolume>3</CurrentVolume></u:GetVolumeResponse>')},
    {"decl": _d([("CurrentVolume", "ui2")]), "status": 200, "kind": "success",
     "body": _ENV.format(f'<u:GetVolumeResponse xmlns:u="{_ST}"><CurrentVolume>3</CurrentVolume></u:GetVolumeResponse>') + "\0\0\n"},
    {"decl": _d([("CurrentVolume", "ui2")]), "status": 200, "kind": "fault", "body": _ENV.format(_FAULT)},
    {"decl": _d([("CurrentVolume", "ui2")]), "status": 500, "kind": "fault", "body": _ENV.format(_FAULT)},
    {"decl": _d([("CurrentVolume", "ui2")]), "status": 500, "kind": "garbage", "body": "Internal Server Error"},
    {"decl": _d([("CurrentVolume", "ui2")]), "status": 200, "kind": "garbage", "body": "Internal Server Error"},
    {"decl": _d([("CurrentVolume", "ui2")]), "status": 404, "kind": "success",
     "body": _ENV.format(f'<u:GetVolumeResponse xmlns:u="{_ST}"><CurrentVolume>3</CurrentVolume></u:GetVolumeResponse>')},
    {"decl": _d([("CurrentVolume", "ui2")]), "status": 200, "kind": "success",
     "body": _ENV.format(f'<u:GetVolumeResponse xmlns:u="{_ST}"><CurrentVolume>3</CurrentVolume><Extra>1</Extra></u:GetVolumeResponse>')},
    {"decl": _d([("CurrentVolume", "ui2")], strict=False), "status": 200, "kind": "success",
     "body": _ENV.format(f'<u:GetVolumeResponse xmlns:u="{_ST}"><CurrentVolume>3</CurrentVolume><Extra>1</Extra></u:GetVolumeResponse>')},
    {"decl": _d([("CurrentVolume", "ui2")]), "status": 200, "kind": "success",
     "body": _ENV.format('<u:GetVolumeResponse xmlns:u="urn:schemas-upnp-org:service:RenderingControl:2"><CurrentVolume>3</CurrentVolume></u:GetVolumeResponse>')},
    {"decl": _d([("CurrentVolume", "ui2")], strict=False), "status": 200, "kind": "success",
     "body": _ENV.format('<u:GetVolumeResponse xmlns:u="urn:schemas-upnp-org:service:RenderingControl:2"><CurrentVolume>3</CurrentVolume></u:GetVolumeResponse>')},
    {"decl": _d([("A", "boolean"), ("B", "string"), ("C", "i4")]), "status": 200, "kind": "success",
     "body": _ENV.format(f'<m:GetVolumeResponse xmlns:m="{_ST}">\n  <C> -12 </C>\n  <B>a &lt;b&gt; &amp;</B>\n  <A>TRUE</A>\n</m:GetVolumeResponse>')},
    {"decl": _d([("CurrentVolume", "ui2")]), "status": 200, "kind": "fault", "body": _ENV.format("<s:Fault/>")},
    {"decl": _d([("CurrentVolume", "ui2")]), "status": 200, "kind": "nobody", "body": None},
    # state variables whose names differ only in case, with different data types: each out-argument is
    # decoded with the type of the EXACTLY-named variable ('007' stays '007' for the string one)
    {"decl": dict(_d([("S", "string"), ("N", "ui2"), ("B", "boolean"), ("F", "r8")]), sv_case=True),
     "ops": [{"status": 200, "kind": "success",
              "body": _ENV.format(f'<u:GetVolumeResponse xmlns:u="{_ST}"><S>007</S><N>007</N><B>1</B><F>007</F></u:GetVolumeResponse>')}]},
    {"decl": dict(_d([("N", "ui2"), ("S", "string")], strict=False), sv_case=True),
     "ops": [{"status": 200, "kind": "success",
              "body": _ENV.format(f'<u:GetVolumeResponse xmlns:u="{_ST}"><S>007</S><N>007</N></u:GetVolumeResponse>')}]},
    # an in- and an out-argument of one name (audit C07-1)
    {"decl": dict(_d([]), action="Swap", args=[{"name": "X", "dir": "out", "type": "string"}, {"name": "X", "dir": "in", "type": "ui2"}]),
     "kwargs": [["X", ["i", "5"]]],
     "ops": [{"status": 200, "kind": "success", "body": _ENV.format(f'<u:SwapResponse xmlns:u="{_ST}"><X>hello</X></u:SwapResponse>')}]},
    {"decl": dict(_d([], strict=False), action="Swap", args=[{"name": "X", "dir": "in", "type": "ui2"}, {"name": "X", "dir": "out", "type": "i4"}]),
     "kwargs": [["X", ["i", "5"]]],
     "ops": [{"status": 200, "kind": "success", "body": _ENV.format(f'<u:SwapResponse xmlns:u="{_ST}"><X>-7</X></u:SwapResponse>')}]},
    # history on one action object: full answer, then a smaller subset, a fault, garbage, and the full answer again
    {"decl": _d([("A", "boolean"), ("B", "string"), ("C", "i4")]), "ops": [
        {"status": 200, "kind": "success", "body": _ENV.format(f'<u:GetVolumeResponse xmlns:u="{_ST}"><A>1</A><B>x</B><C>5</C></u:GetVolumeResponse>')},
        {"status": 200, "kind": "success", "body": _ENV.format(f'<u:GetVolumeResponse xmlns:u="{_ST}"><C>6</C></u:GetVolumeResponse>')},
        {"status": 200, "kind": "success", "body": _ENV.format(f'<u:GetVolumeResponse xmlns:u="{_ST}"></u:GetVolumeResponse>')},
        {"mutate": "out_clear"}, {"mutate": "result_clear"},
        {"status": 200, "kind": "success", "body": _ENV.format(f'<u:GetVolumeResponse xmlns:u="{_ST}"><A>1</A><C>9</C></u:GetVolumeResponse>')},
        {"status": 500, "kind": "fault", "body": _ENV.format(_FAULT)},
        {"status": 200, "kind": "garbage", "body": "oops"},
        {"status": 200, "kind": "success", "body": _ENV.format(f'<u:GetVolumeResponse xmlns:u="{_ST}"><B>y</B><A>0</A></u:GetVolumeResponse>')},
    ]},
]


def _worker(args):
    from vk.core import activate_repo
    seed, start, n = args
    activate_repo()
    import random
    rng = random.Random(seed * 104729 + start)
    return [run_recipe(None, rand_case(rng), f"r{start + i}") for i in range(n)]


def generate(ctx: Ctx) -> List[Case]:
    cases: List[Case] = []
    for i, rec in enumerate(CORPUS):
        cases.append(run_recipe(ctx, rec, f"corpus{i}"))
    for i, rec in enumerate(grid_cases(ctx.rng)):
        cases.append(run_recipe(ctx, rec, f"grid{i}"))
    n = 70000 if ctx.thorough else 1500
    if ctx.thorough:
        import multiprocessing as mp
        chunk = 3000
        jobs = [(ctx.seed, s, min(chunk, n - s)) for s in range(0, n, chunk)]
        with mp.get_context("fork").Pool(min(12, len(jobs))) as pool:
            for part in pool.map(_worker, jobs):
                cases.extend(part)
    else:
        for i in range(n):
            cases.append(run_recipe(ctx, rand_case(ctx.rng), f"r{i}"))
    return cases
