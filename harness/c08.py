"""C08 correspondence harness: the real type table / coercers / schema / UpnpStateVariable versus
the table-driven Lean model (Upnp.C08, table generated from the source) and the Lean judge
(Spec/C08.lean: round trip, accepted spellings, strict validation, rejected values are not stored).
See DESIGN.md §5 C08 and design/C08.md."""
from __future__ import annotations

import math
import struct
from datetime import date, datetime, time, timedelta, timezone
from typing import Any, Dict, List, Optional, Tuple

from harness.common import exc_token, tok_str
from vk.core import Case, Ctx

GEN_MODULES: List[str] = ["C08Types"]
MANIFEST = {
    "design_ref": "§5 C08",
    "text": ("Lean theorems over the type table GENERATED from const.py/utils.py (Gen.C08Types): every one of the 26 rows "
             "round-trips every in-domain value of its Python class through coerce_upnp/coerce_python with the prescribed "
             "wire form (roundtrip_all_types: integers of any printable size, booleans 1/0, strings, all dates 0001..9999, "
             "times and date-times at second precision with and without whole-minute offsets; floats under the assumed "
             "repr round trip), every accepted boolean / ISO-8601 spelling is read as the stated value, parse_date_time "
             "raises nothing but ValueError on any string, the strict schema accepts exactly class ∧ timezone ∧ allowed "
             "list ∧ range (accept_iff), and a rejected value is never stored (set_spec, set_upnp_spec). The model is tied "
             "to the code by the translator (table rows, regex/strptime table, tz fix-up guard) and by a differential "
             "check of every coercer / validation / setter result; the Lean judge is evaluated on the implementation's "
             "observations."),
    "note": ("Trusted: Lean kernel + propext/Classical.choice/Quot.sound; tools/gen_c08types.py; CPython int()/str()/"
             "float()/repr/datetime.strptime/isoformat/comparison semantics and voluptuous All/In/Range/class validators "
             "as transcribed in Model/C08Data.lean, C08Types.lean (sampled by the correspondence runs). Floats are "
             "abstract (repr round trip assumed, sampled). Non-ASCII digits/whitespace accepted by int() and \\d, and "
             "integers beyond CPython's 4300-digit str() limit, are outside the model. bool passes for int and datetime "
             "for date (isinstance), as in Python."),
    "technique": "Lean 4 proof over a source-generated table + model/implementation correspondence",
}
RULE = ("one state variable per case: a type row, strict/non-strict, a (min,max)/allowed-list declaration built from "
        "values of the row's class (sometimes malformed or alternative spellings), then 6-14 operations: round trips of "
        "in-domain values, conversions of canonical / alternative / near-miss / junk wire strings, validate and set of "
        "in-type, boundary and cross-type values, upnp_value assignments. non-trivial = at least one operation after a "
        "successful declaration; distinct = distinct canonical driver text")
EXHAUSTIVE = {"quick": False, "thorough": False}
ASSUMPTIONS = [
    "float(repr(x)) == x for every float x (Python's documented repr round trip); floats are otherwise abstract",
    "wire strings given to int() / parse_date_time are ASCII (Unicode digits and spaces are outside the model)",
    "integers have at most 4300 decimal digits (CPython's int<->str conversion limit)",
    "times have whole seconds and UTC offsets whole minutes (the property's domain)",
]
TRUSTED = ["C08: Python/voluptuous primitive semantics as transcribed in Model/C08Data.lean and C08Types.lean"]

TYPE_NAMES = ["ui1", "ui2", "ui4", "ui8", "i1", "i2", "i4", "i8", "int", "r4", "r8", "number", "fixed.14.4", "float",
              "char", "string", "boolean", "bin.base64", "bin.hex", "uri", "uuid", "date", "dateTime", "dateTime.tz",
              "time", "time.tz"]
PYCLASS = {**{n: "int" for n in TYPE_NAMES[:9]}, **{n: "float" for n in TYPE_NAMES[9:14]},
           **{n: "str" for n in ["char", "string", "bin.base64", "bin.hex", "uri", "uuid"]}, "boolean": "bool",
           "date": "date", "dateTime": "datetime", "dateTime.tz": "datetime", "time": "time", "time.tz": "time"}


# ---------------------------------------------------------------------------------------------
# value tokens (mirror of Drv/C08.lean)

def dec(i: int) -> str:
    """decimal text of an int of any size (CPython's str() refuses more than 4300 digits)"""
    if abs(i) < 10 ** 4000:
        return str(i)
    sign = "-" if i < 0 else ""
    i = abs(i)
    parts = []
    base = 10 ** 1000
    while i:
        i, r = divmod(i, base)
        parts.append(r)
    out = str(parts[-1]) + "".join(str(p).rjust(1000, "0") for p in reversed(parts[:-1]))
    return sign + out


def undec(s: str) -> int:
    neg = s.startswith("-")
    s = s.lstrip("-")
    v = 0
    for i in range(0, len(s), 1000):
        chunk = s[i:i + 1000]
        v = v * 10 ** len(chunk) + int(chunk)
    return -v if neg else v


def tok_float(x: float) -> str:
    if x != x:
        return "nan"
    if x in (math.inf, -math.inf):
        return "inf" if x > 0 else "-inf"
    n, d = x.as_integer_ratio()
    neg = math.copysign(1.0, x) < 0
    return f"{'-' if neg else ''}{abs(n)}/{d}"


def untok_float(t: str) -> float:
    if t in ("nan", "inf", "-inf"):
        return float(t)
    neg = t.startswith("-")
    n, d = t.lstrip("-").split("/")
    x = int(n) / int(d)
    return -x if neg else x


def off_tok(tz) -> Optional[str]:
    if tz is None:
        return ""
    secs = tz.total_seconds()
    if secs != int(secs) or int(secs) % 60:
        return None
    return f"@{int(secs) // 60}"


def tok_val(v: Any) -> str:
    if v is None:
        return "none"
    if isinstance(v, bool):
        return "b:1" if v else "b:0"
    if isinstance(v, int):
        return "i:" + dec(v)
    if isinstance(v, float):
        return "f:" + tok_float(v)
    if isinstance(v, str):
        return "s:" + tok_str(v)
    if isinstance(v, datetime):
        o = off_tok(v.utcoffset())
        if o is None or v.microsecond:
            return "x:" + tok_str(repr(v))
        return f"dt:{v.year}.{v.month}.{v.day}.{v.hour}.{v.minute}.{v.second}{o}"
    if isinstance(v, date):
        return f"d:{v.year}.{v.month}.{v.day}"
    if isinstance(v, time):
        o = off_tok(v.utcoffset())
        if o is None or v.microsecond:
            return "x:" + tok_str(repr(v))
        return f"t:{v.hour}.{v.minute}.{v.second}{o}"
    return "x:" + tok_str(repr(v))


def untok_val(t: str) -> Any:
    from harness.common import untok_str
    if t == "none":
        return None
    k, _, x = t.partition(":")
    if k == "i":
        return undec(x)
    if k == "b":
        return x == "1"
    if k == "f":
        return untok_float(x)
    if k == "s":
        return untok_str(x)
    body, _, off = x.partition("@")
    tz = timezone(timedelta(minutes=int(off))) if off else None
    n = [int(p) for p in body.split(".")]
    if k == "d":
        return date(*n)
    if k == "dt":
        return datetime(*n, tzinfo=tz)
    if k == "t":
        return time(*n, tzinfo=tz)
    raise ValueError(t)


def exc(e: BaseException) -> str:
    return "!" + exc_token(e)


def res_val(fn) -> str:
    try:
        return tok_val(fn())
    except Exception as e:  # noqa: BLE001 - every exception is an observation
        return exc(e)


def res_str(fn) -> Tuple[str, Optional[str]]:
    try:
        s = fn()
    except Exception as e:  # noqa: BLE001
        return exc(e), None
    if not isinstance(s, str):
        return "x:" + tok_str(repr(s)), None
    return "s:" + tok_str(s), s


# ---------------------------------------------------------------------------------------------
# running one recipe against the real code

def opt_tok(s: Optional[str]) -> str:
    return "~" if s is None else tok_str(s)


def floats_in(x: Any, acc: List[float]) -> None:
    if isinstance(x, float):
        acc.append(x)


def run_recipe(ctx: Ctx, recipe: Dict[str, Any], cid: str) -> Case:
    from xml.etree import ElementTree as ET

    from async_upnp_client.client import UpnpStateVariable
    from async_upnp_client.client_factory import UpnpFactory
    from async_upnp_client.const import STATE_VARIABLE_TYPE_MAPPING, StateVariableInfo, StateVariableTypeInfo

    name = recipe["type"]
    strict = bool(recipe.get("strict", True))
    decl = recipe.get("decl") or {}
    dval = recipe.get("dval") or {}
    ops = recipe.get("ops", [])
    is_float = PYCLASS.get(name) == "float"
    tags = {f"type:{name}", "strict" if strict else "nonstrict"}
    lines = [f"table {name} strict={1 if strict else 0}"]

    # float tables: what Python's repr()/float() give for every float / string the case touches
    fvals: List[float] = []
    fstrs: List[str] = []
    for t in [dval.get("min"), dval.get("max")] + list(dval.get("allowed") or []):
        if isinstance(t, str) and t.startswith("f:"):
            fvals.append(untok_float(t[2:]))
    for op in ops:
        if op[0] in ("rt", "out", "validate", "set", "avalidate", "aset") and op[1].startswith("f:"):
            fvals.append(untok_float(op[1][2:]))
        if op[0] == "spell" and op[2].startswith("f:"):
            fvals.append(untok_float(op[2][2:]))
        if is_float and op[0] in ("in", "setupnp", "asetupnp"):
            fstrs.append(op[1])
        if is_float and op[0] == "spell":
            fstrs.append(op[3])
    if is_float:
        fstrs += [s for s in [decl.get("min"), decl.get("max")] + list(decl.get("allowed") or []) if s is not None]
    seen = set()
    for x in fvals:
        k = tok_float(x)
        if k in seen:
            continue
        seen.add(k)
        lines.append(f"fdecl repr {k} {tok_str(repr(x))}")
        fstrs.append(repr(x))
    seen = set()
    for s in fstrs:
        if s in seen:
            continue
        seen.add(s)
        try:
            r = tok_float(float(s))
        except ValueError:
            r = "!"
        lines.append(f"fdecl parse {tok_str(s)} {r}")
        try:
            back = float(s)
            if tok_float(back) not in {tok_float(v) for v in fvals}:
                lines.append(f"fdecl repr {tok_float(back)} {tok_str(repr(back))}")
                fvals.append(back)
        except ValueError:
            pass

    allowed = decl.get("allowed")
    lines.append("decl range={} min={} max={} allowed={} default=~".format(
        1 if decl.get("range") else 0, opt_tok(decl.get("min")), opt_tok(decl.get("max")),
        "~" if allowed is None else ("[]" if not allowed else ",".join(tok_str(a) for a in allowed))))
    if "?" in (dval.get("min"), dval.get("max")) or dval.get("allowed") == "?":
        lines.append("dval min=? max=? allowed=?")
        tags.add("decl:malformed")
    else:
        al = dval.get("allowed")
        lines.append("dval min={} max={} allowed={}".format(dval.get("min") or "~", dval.get("max") or "~",
                                                            "~" if not al else ";".join(al)))
    if decl.get("range"):
        tags.add("decl:range")
    if allowed:
        tags.add("decl:allowed")

    sv = None
    try:
        el = ET.Element("stateVariable")
        ti = StateVariableTypeInfo(
            data_type=name, data_type_mapping=STATE_VARIABLE_TYPE_MAPPING[name], default_value=None,
            allowed_value_range=({"min": decl.get("min"), "max": decl.get("max"), "step": None} if decl.get("range") else {}),
            allowed_values=allowed, xml=el)
        factory = UpnpFactory(None, non_strict=not strict)  # type: ignore[arg-type]
        schema = factory._state_variable_create_schema(ti)  # pylint: disable=protected-access
        sv = UpnpStateVariable(StateVariableInfo(name="V", send_events=False, type_info=ti, xml=el), schema)
        from async_upnp_client.client import UpnpAction
        from async_upnp_client.const import ActionArgumentInfo
        arg = UpnpAction.Argument(ActionArgumentInfo(name="X", direction="in", state_variable_name="V", xml=el), sv)
        lines.append("res ok")
    except Exception as e:  # noqa: BLE001
        lines.append("res " + exc(e))
        tags.add("decl:" + exc(e))
    if sv is None:
        return Case(cid, lines, recipe, False, sorted(tags))

    nontrivial = False
    for op in ops:
        kind = op[0]
        nontrivial = True
        tags.add("op:" + kind)
        if kind == "rt":
            v = untok_val(op[1])
            lines.append(f"rt {op[1]}")
            w, s = res_str(lambda: sv.coerce_upnp(v))
            back = "~" if s is None else res_val(lambda: sv.coerce_python(s))
            lines.append(f"res {w} {back}")
            if w.startswith("!") or back.startswith("!"):
                tags.add("rt:raised")
        elif kind == "out":
            v = untok_val(op[1])
            lines.append(f"out {op[1]}")
            lines.append("res " + res_str(lambda: sv.coerce_upnp(v))[0])
        elif kind == "in":
            lines.append(f"in {tok_str(op[1])}")
            r = res_val(lambda: sv.coerce_python(op[1]))
            lines.append("res " + r)
            tags.add("in:" + (r if r.startswith("!") else "value"))
        elif kind == "spell":
            lines.append(f"spell {op[1]} {op[2]} {tok_str(op[3])}")
            lines.append("res " + res_val(lambda: sv.coerce_python(op[3])))
            tags.add("spell:" + op[1].split(".")[0])
        elif kind == "validate":
            v = untok_val(op[1])
            lines.append(f"validate {op[1]}")
            try:
                sv.validate_value(v)
                r = "ok"
            except Exception as e:  # noqa: BLE001
                r = exc(e)
            lines.append("res " + r)
            tags.add("validate:" + r)
        elif kind == "set":
            v = untok_val(op[1])
            lines.append(f"set {op[1]}")
            try:
                sv.value = v
                r = "ok"
            except Exception as e:  # noqa: BLE001
                r = exc(e)
            err = 1 if sv.value_unchecked is UpnpStateVariable.UPNP_VALUE_ERROR else 0
            lines.append(f"res {r} {tok_val(sv.value)} {err}")
            tags.add("set:" + r)
        elif kind == "setupnp":
            lines.append(f"setupnp {tok_str(op[1])}")
            conv = res_val(lambda: sv.coerce_python(op[1]))
            try:
                sv.upnp_value = op[1]
                r = "ok"
            except Exception as e:  # noqa: BLE001
                r = exc(e)
            err = 1 if sv.value_unchecked is UpnpStateVariable.UPNP_VALUE_ERROR else 0
            lines.append(f"res {r} {tok_val(sv.value)} {err} {conv}")
            tags.add("setupnp:" + ("sentinel" if err else r))
        elif kind == "avalidate":
            v = untok_val(op[1])
            lines.append(f"avalidate {op[1]}")
            try:
                arg.validate_value(v)
                r = "ok"
            except Exception as e:  # noqa: BLE001
                r = exc(e)
            lines.append("res " + r)
            tags.add("avalidate:" + r)
        elif kind == "aset":
            v = untok_val(op[1])
            lines.append(f"aset {op[1]}")
            try:
                arg.value = v
                r = "ok"
            except Exception as e:  # noqa: BLE001
                r = exc(e)
            lines.append(f"res {r} {tok_val(arg.value)}")
            tags.add("aset:" + r)
        elif kind == "asetupnp":
            lines.append(f"asetupnp {tok_str(op[1])}")
            try:
                arg.upnp_value = op[1]
                r = "ok"
            except Exception as e:  # noqa: BLE001
                r = exc(e)
            lines.append(f"res {r} {tok_val(arg.value)}")
            tags.add("asetupnp:" + r)
        elif kind == "getupnp":
            lines.append("getupnp")
            lines.append("res " + res_str(lambda: sv.upnp_value)[0])
        else:
            raise ValueError(kind)
    return Case(cid, lines, recipe, nontrivial, sorted(tags))


# ---------------------------------------------------------------------------------------------
# generators (values of each Python class; independent renderings of their wire forms)

def g_int(rng, small=False) -> int:
    c = rng.randrange(10)
    if small or c < 3:
        return rng.randrange(-6, 7)
    if c < 6:
        b = rng.choice([7, 8, 15, 16, 31, 32, 63, 64, 65, 128])
        return rng.choice([-1, 1]) * (2 ** b + rng.randrange(-2, 3))
    if c < 8:
        return rng.randrange(-10 ** 6, 10 ** 6)
    n = rng.choice([20, 50, 300, 1000])
    return rng.choice([-1, 1]) * rng.randrange(10 ** (n - 1), 10 ** n)


SPECIAL_FLOATS = [0.0, -0.0, 1.0, -1.0, 0.1, 1 / 3, 1e308, 1.7976931348623157e308, 5e-324, 2.2250738585072014e-308,
                  1e16, 1e-7, 123456789.125, math.inf, -math.inf, 100.0, 1e22, 1e23]


def g_float(rng, small=False) -> float:
    if small:
        return rng.choice([-2.5, -1.0, -0.0, 0.0, 0.5, 1.0, 1.5, 2.0, 3.25])
    c = rng.randrange(10)
    if c < 3:
        return rng.choice(SPECIAL_FLOATS)
    if c < 8:
        while True:
            x = struct.unpack("<d", struct.pack("<Q", rng.getrandbits(64)))[0]
            if x == x and x not in (math.inf, -math.inf):
                return x
    return rng.uniform(-1000, 1000)


ALPHABET = "abcXYZ 019_-+:.<>&\"'é€中\U0001f600\t\n"


def g_str(rng, small=False) -> str:
    if small:
        return rng.choice(["", "a", "b", "ab", "B", "stop", "PLAY", "z"])
    n = rng.choice([0, 1, 2, 5, 20])
    return "".join(rng.choice(ALPHABET) for _ in range(n))


def g_date(rng, small=False) -> date:
    if small:
        return date(2024, 2, 27) + timedelta(days=rng.randrange(0, 5))
    c = rng.randrange(10)
    if c < 2:
        return rng.choice([date(1, 1, 1), date(9999, 12, 31), date(2024, 2, 29), date(2000, 2, 29), date(1900, 2, 28),
                           date(999, 12, 31), date(1000, 1, 1)])
    return date.fromordinal(rng.randrange(1, 3652060))


def g_tz(rng, want: Optional[bool]):
    aware = rng.random() < 0.5 if want is None else want
    if not aware:
        return None
    c = rng.randrange(6)
    if c <= 1:
        return timezone.utc
    if c == 2:
        return timezone(timedelta(minutes=rng.choice([-1439, 1439, -1, 1, 60, -60, 330, -570])))
    return timezone(timedelta(minutes=rng.randrange(-1439, 1440)))


def g_time(rng, small=False, aware: Optional[bool] = None) -> time:
    if small:
        return time(12, rng.randrange(0, 3), rng.choice([0, 30]), tzinfo=g_tz(rng, aware) if aware else None)
    if rng.randrange(8) == 0:
        t = rng.choice([(0, 0, 0), (23, 59, 59), (12, 0, 0)])
    else:
        t = (rng.randrange(24), rng.randrange(60), rng.randrange(60))
    return time(*t, tzinfo=g_tz(rng, aware))


def g_datetime(rng, small=False, aware: Optional[bool] = None) -> datetime:
    d = g_date(rng, small)
    t = g_time(rng, small, aware)
    return datetime(d.year, d.month, d.day, t.hour, t.minute, t.second, tzinfo=t.tzinfo)


def g_value(rng, cls: str, small=False, aware: Optional[bool] = None) -> Any:
    if cls == "int":
        return g_int(rng, small)
    if cls == "float":
        return g_float(rng, small)
    if cls == "str":
        return g_str(rng, small)
    if cls == "bool":
        return rng.random() < 0.5
    if cls == "date":
        return g_date(rng, small)
    if cls == "time":
        return g_time(rng, small, aware)
    return g_datetime(rng, small, aware)


def off_str(tz, colon=True) -> str:
    if tz is None:
        return ""
    m = int(tz.total_seconds()) // 60
    sign = "-" if m < 0 else "+"
    m = abs(m)
    return f"{sign}{m // 60:02d}{':' if colon else ''}{m % 60:02d}"


def wire_py(v: Any) -> str:
    """the harness' own rendering of the prescribed wire form (independent of the library)"""
    if isinstance(v, bool):
        return "1" if v else "0"
    if isinstance(v, int):
        return dec(v)
    if isinstance(v, float):
        return repr(v)
    if isinstance(v, str):
        return v
    if isinstance(v, datetime):
        return (f"{v.year:04d}-{v.month:02d}-{v.day:02d}T{v.hour:02d}:{v.minute:02d}:{v.second:02d}"
                + off_str(v.utcoffset()))
    if isinstance(v, date):
        return f"{v.year:04d}-{v.month:02d}-{v.day:02d}"
    if isinstance(v, time):
        return f"{v.hour:02d}:{v.minute:02d}:{v.second:02d}" + off_str(v.utcoffset())
    raise TypeError(v)


def mask(word: str, m: int) -> str:
    return "".join(c.upper() if (m >> i) & 1 else c for i, c in enumerate(word))


def spellings(rng, v: Any) -> List[Tuple[str, str]]:
    """(variant token, string) pairs: accepted spellings of v"""
    out = [("canon", wire_py(v))]
    if isinstance(v, bool):
        words = ["1", "true", "yes"] if v else ["0", "false", "no"]
        for k, w in enumerate(words):
            m = rng.randrange(0, 2 ** len(w))
            out.append((f"bool.{k}.{m}", mask(w, m)))
        return out
    if isinstance(v, datetime):
        base = wire_py(v.replace(tzinfo=None))
        tz = v.utcoffset()
        if tz is None:
            out.append(("dtSpace", base.replace("T", " ")))
        else:
            out.append(("offPlain", base + off_str(tz, False)))
            out.append(("offSpacePlain", base + " " + off_str(tz, False)))
            out.append(("offSpaceColon", base + " " + off_str(tz, True)))
            if tz == timedelta(0):
                out.append(("zuluU", base + "Z"))
                out.append(("zuluL", base + "z"))
    elif isinstance(v, time):
        base = wire_py(v.replace(tzinfo=None))
        tz = v.utcoffset()
        if tz is not None:
            out.append(("offPlain", base + off_str(tz, False)))
            out.append(("offSpacePlain", base + " " + off_str(tz, False)))
            out.append(("offSpaceColon", base + " " + off_str(tz, True)))
    return out


JUNK = ["", "abc", "12:00", "+", "T", "-", ":", "1", "12345", "2020-13-01", "2021-02-29", "2020-02-30", "2020-00-10",
        "0000-01-01", "10:00:60", "10:00:61", "24:00:00", "10:60:00", "2020-01-01T10:00:00+2400",
        "2020-01-01T10:00:00+24:00", "2020-01-01T10:00:00+23:60", "10:00:00-23:59", "10:00:00+0000", "10:00:00 -00:00",
        "2020-01-01\n", "2020-01-01T10:00:00\n", "2020-01-01t10:00:00", "2020-01-01T10:00:00 Z", "2020-01-01T10:00:00+01",
        "2020-1-01", "20200101", "2020-01-01T10:00", "2020-01-01T10:00:00.5", "+01:00", "x+01:00", "  5", "5  ", "+5", "-5",
        "- 5", "1_000", "1__0", "_1", "1_", "0x10", "1e5", "1.0", "05", "-0", "\t7\n", "\x1c8\x1f", "\x0b9\x0c", "5 5",
        "true", "TRUE", "Yes", "y", "on", "0", "false", "no", " 1", "1 ", "inf", "-inf", "nan", "1e400", "1_0.5", ".5", "5.",
        "1e-400", "0x1p3", "infinity", "NaN"]


def near_miss(rng, s: str) -> str:
    if not s:
        return rng.choice(JUNK)
    c = rng.randrange(5)
    i = rng.randrange(len(s))
    if c == 0:
        return s[:i] + s[i + 1:]
    if c == 1:
        return s[:i] + rng.choice("0123456789:-+TZz /a") + s[i + 1:]
    if c == 2:
        return s + rng.choice("0123456789:-+TZz \n")
    if c == 3:
        return rng.choice(" 0+-") + s
    return s[:i] + rng.choice("0123456789") + s[i:]


def ascii_only(s: str) -> bool:
    return all(ord(c) < 128 for c in s)


def comparable_sorted(vals: List[Any]) -> List[Any]:
    try:
        return sorted(vals)
    except TypeError:
        return vals


def other_class_value(rng, cls: str) -> Any:
    choices = {
        "int": [True, False, 1.0, "1", None],
        "float": [1, True, "1.5", None],
        "str": [1, None, True],
        "bool": [1, 0, "1", None],
        "date": [datetime(2024, 2, 28, 0, 0, 0), datetime(2024, 2, 29, 12, 0, 0, tzinfo=timezone.utc), "2024-02-28", None,
                 time(12, 0, 0)],
        "datetime": [date(2024, 2, 28), "2024-02-28T12:00:00", None, time(12, 0, 0)],
        "time": [datetime(2024, 2, 28, 12, 0, 0), "12:00:00", None, date(2024, 2, 28)],
    }[cls]
    return rng.choice(choices)


def alt_decl_spelling(rng, cls: str, v: Any) -> str:
    """another text the in-coercer reads as v"""
    s = wire_py(v)
    if cls == "int":
        return rng.choice([" " + s, s + " ", ("+" + s) if v >= 0 else s, s])
    if cls == "bool":
        return rng.choice(["true", "YES", "1"]) if v else rng.choice(["false", "no", "0", "x"])
    if cls in ("datetime", "time") and isinstance(v, (datetime, time)) and v.utcoffset() is not None:
        return rng.choice([sp for _, sp in spellings(rng, v)])
    return s


def gen_recipe(rng, name: str, thorough: bool) -> Dict[str, Any]:
    cls = PYCLASS[name]
    strict = rng.random() < 0.85
    needs_tz = name.endswith(".tz")
    small = rng.random() < 0.7
    aware = None
    if cls in ("datetime", "time"):
        aware = True if (needs_tz and rng.random() < 0.8) else rng.choice([True, False, None])
    pool = [g_value(rng, cls, small, aware) for _ in range(rng.randrange(3, 7))]
    pool = [p for p in pool if not (isinstance(p, float) and p != p)]
    spool = comparable_sorted(pool)
    decl: Dict[str, Any] = {"range": False, "min": None, "max": None, "allowed": None}
    dval: Dict[str, Any] = {"min": None, "max": None, "allowed": None}
    shape = rng.randrange(10)
    malformed = False
    if shape < 5 and len(spool) >= 2:          # range
        i = rng.randrange(len(spool))
        j = rng.randrange(i, len(spool))
        lo, hi = spool[i], spool[j]
        decl["range"] = True
        c = rng.randrange(8)
        if c != 0:
            decl["min"], dval["min"] = wire_py(lo), tok_val(lo)
        if c != 1:
            decl["max"], dval["max"] = wire_py(hi), tok_val(hi)
        if c == 2:
            decl["min"], dval["min"] = "", None          # empty text: ignored by the code
        for k in ("min", "max"):                         # an empty <minimum/> / <maximum/> declares nothing
            if decl[k] == "":
                dval[k] = None
        if c == 3 and decl["min"] is not None:
            decl["min"] = alt_decl_spelling(rng, cls, lo)
        if c == 4 and cls != "str" and cls != "bool":
            decl["max"], malformed = rng.choice(["abc", "", "12:00", "--"]), True
            if decl["max"] == "":
                malformed, dval["max"] = False, None
    if shape in (3, 4, 5, 6, 7):                # allowed list
        k = rng.randrange(0, 4)
        chosen = [rng.choice(pool) for _ in range(k)]
        decl["allowed"] = [wire_py(v) for v in chosen]
        dval["allowed"] = [tok_val(v) for v in chosen] or None
        if k and rng.randrange(6) == 0:
            decl["allowed"][0] = alt_decl_spelling(rng, cls, chosen[0])
        if k and rng.randrange(10) == 0 and cls not in ("str", "bool"):
            decl["allowed"].append("zz")
            malformed = True
    if malformed:
        dval = {"min": "?", "max": "?", "allowed": "?"}

    ops: List[List[Any]] = []
    n_ops = rng.randrange(6, 15)
    for _ in range(n_ops):
        c = rng.randrange(20)
        fresh = g_value(rng, cls, small and rng.random() < 0.8, aware if rng.random() < 0.8 else None)
        v = rng.choice(pool) if rng.random() < 0.5 else fresh
        if isinstance(v, float) and v != v:
            v = 0.0
        if cls == "int" and rng.random() < 0.12:
            # a bool under an integer type (bool is a subclass of int): written 1/0, read back as 1/0
            b = rng.random() < 0.5
            ops.append(rng.choice([["rt", tok_val(b)], ["spell", "canon", tok_val(b), "1" if b else "0"],
                                   ["set", tok_val(b)], ["out", tok_val(b)]]))
        elif cls == "int" and rng.random() < 0.04:
            # int() of other things (correspondence only)
            ops.append(["out", rng.choice(["none", "s:" + tok_str("12"), "s:" + tok_str(" -7 "), "s:" + tok_str("abc"),
                                           "s:" + tok_str("1_0"), "d:2024.2.29", "t:1.2.3", "dt:2024.2.29.1.2.3@0"])])
        elif c < 4:
            ops.append(["rt", tok_val(g_value(rng, cls, False, None) if rng.random() < 0.7 else v)])
        elif c < 6:
            sps = spellings(rng, v)
            zs = [x for x in sps if x[0].startswith("zulu")]
            sp = rng.choice(zs) if zs and rng.random() < 0.5 else rng.choice(sps)
            ops.append(["spell", sp[0], tok_val(v), sp[1]])
        elif c < 9:
            s = wire_py(v)
            r = rng.randrange(4)
            if r == 0:
                s = rng.choice(JUNK)
            elif r == 1:
                s = near_miss(rng, s)
            if cls != "str" and not ascii_only(s):
                s = "abc"
            ops.append(["in", s])
        elif c < 12:
            ops.append(["validate", tok_val(v if rng.random() < 0.8 else other_class_value(rng, cls))])
        elif c < 16:
            ops.append(["set", tok_val(v if rng.random() < 0.85 else other_class_value(rng, cls))])
        elif c < 19:
            s = wire_py(v)
            r = rng.randrange(5)
            if r == 0:
                s = rng.choice(JUNK)
            elif r == 1:
                s = near_miss(rng, s)
            elif r == 2:
                s = rng.choice(spellings(rng, v))[1]
            if cls != "str" and not ascii_only(s):
                s = "abc"
            ops.append(["setupnp", s])
        else:
            ops.append(["getupnp"])
        # the ARGUMENT half of "state variable or argument": the same operation against an UpnpAction.Argument
        if ops[-1][0] in ("set", "validate", "setupnp") and rng.random() < 0.5:
            ops.append(["a" + ops[-1][0], ops[-1][1]])
    return {"type": name, "strict": strict, "decl": decl, "dval": dval, "ops": ops}


def corpus() -> List[Dict[str, Any]]:
    none_decl = {"range": False, "min": None, "max": None, "allowed": None}
    nd = {"min": None, "max": None, "allowed": None}
    utc1 = "t:12.30.0@60"
    out = [
        # F08a: time.tz values have no wire form
        {"type": "time.tz", "strict": True, "decl": none_decl, "dval": nd, "ops": [["rt", utc1]]},
        {"type": "time.tz", "strict": True, "decl": none_decl, "dval": nd,
         "ops": [["set", "t:1.2.3@-90"], ["getupnp"], ["rt", "t:23.59.59@1439"], ["rt", "t:0.0.0"]]},
        # F08b: short date/time strings
        {"type": "dateTime", "strict": True, "decl": none_decl, "dval": nd,
         "ops": [["in", ""], ["in", "abc"], ["in", "12:00"], ["setupnp", "abc"], ["setupnp", ""]]},
        {"type": "time", "strict": True, "decl": none_decl, "dval": nd, "ops": [["in", "1"], ["in", "12:00"], ["in", "12:00:00"]]},
        # CPython digit limit (outside the round-trip domain; correspondence only)
        {"type": "i8", "strict": True, "decl": none_decl, "dval": nd,
         "ops": [["rt", "i:" + "9" * 4300], ["rt", "i:1" + "0" * 4300], ["in", "1" * 4301], ["in", "1" * 4300]]},
        # boundaries of the calendar
        {"type": "date", "strict": True, "decl": {"range": True, "min": "0001-01-01", "max": "9999-12-31", "allowed": None},
         "dval": {"min": "d:1.1.1", "max": "d:9999.12.31", "allowed": None},
         "ops": [["rt", "d:1.1.1"], ["rt", "d:9999.12.31"], ["set", "d:2024.2.29"], ["set", "dt:2024.2.29.0.0.0"],
                 ["validate", "dt:2024.2.29.1.2.3@0"]]},
        {"type": "dateTime.tz", "strict": True,
         "decl": {"range": True, "min": "2024-02-28T12:00:00+01:00", "max": "2024-02-28T12:00:00Z", "allowed": None},
         "dval": {"min": "dt:2024.2.28.12.0.0@60", "max": "dt:2024.2.28.12.0.0@0", "allowed": None},
         "ops": [["set", "dt:2024.2.28.11.30.0@0"], ["set", "dt:2024.2.28.11.30.0"], ["set", "dt:2024.2.28.13.0.0@0"],
                 ["setupnp", "2024-02-28T06:30:00-05:00"], ["setupnp", "2024-02-28T06:30:00"], ["getupnp"]]},
        {"type": "ui1", "strict": True, "decl": {"range": True, "min": "0", "max": "255", "allowed": None},
         "dval": {"min": "i:0", "max": "i:255", "allowed": None},
         "ops": [["aset", "i:7"], ["aset", "i:256"], ["avalidate", "i:-1"], ["asetupnp", "101"], ["asetupnp", "300"], ["asetupnp", "x"],
                 ["aset", "b:1"], ["rt", "b:1"], ["rt", "b:0"], ["spell", "canon", "b:1", "1"], ["out", "none"], ["out", "s:" + tok_str("12")],
                 ["set", "i:255"], ["set", "i:256"], ["set", "b:1"], ["getupnp"], ["setupnp", "300"], ["setupnp", "abc"], ["setupnp", "7"],
                 ["validate", "i:-1"], ["validate", "s:" + tok_str("1")], ["getupnp"]]},
        {"type": "string", "strict": False, "decl": {"range": False, "min": None, "max": None, "allowed": ["PLAY", "STOP"]},
         "dval": {"min": None, "max": None, "allowed": ["s:" + tok_str("PLAY"), "s:" + tok_str("STOP")]},
         "ops": [["set", "s:" + tok_str("PAUSE")], ["set", "i:5"], ["setupnp", "anything"]]},
        {"type": "boolean", "strict": True, "decl": {"range": False, "min": None, "max": None, "allowed": ["yes"]},
         "dval": {"min": None, "max": None, "allowed": ["b:1"]},
         "ops": [["set", "b:0"], ["set", "b:1"], ["set", "i:1"], ["setupnp", "TRUE"], ["setupnp", "off"], ["rt", "b:0"], ["rt", "b:1"]]},
    ]
    return out


CORPUS = corpus()


def generate(ctx: Ctx) -> List[Case]:
    per_type = 1500 if ctx.thorough else 60
    cases: List[Case] = []
    i = 0
    for rec in CORPUS:
        cases.append(run_recipe(ctx, rec, f"corpus{i}"))
        i += 1
    for name in TYPE_NAMES:
        for _ in range(per_type):
            cases.append(run_recipe(ctx, gen_recipe(ctx.rng, name, ctx.thorough), f"g{i}"))
            i += 1
    return cases


def measure_float_roundtrip(seed: int, n: int) -> Dict[str, Any]:
    """The float hypothesis of the theorems, measured through the library's own converters
    (`"out"` = str, `"in"` = float of the r8 row): for every non-NaN x, in(out(x)) has the same bits as x
    (sign of zero included), out(x) == repr(x), and a NaN comes back as a NaN.  Per float class:
    how many were checked and how many failed."""
    import random

    from async_upnp_client.const import STATE_VARIABLE_TYPE_MAPPING

    out, inp = STATE_VARIABLE_TYPE_MAPPING["r8"]["out"], STATE_VARIABLE_TYPE_MAPPING["r8"]["in"]
    rng = random.Random(seed * 7919 + 8)
    bits = lambda x: struct.pack("<d", x)  # noqa: E731
    frombits = lambda b: struct.unpack("<d", struct.pack("<Q", b))[0]  # noqa: E731

    def gen_random_bits():
        while True:
            x = frombits(rng.getrandbits(64))
            if x == x and x not in (math.inf, -math.inf):
                return x

    def gen_17():
        while True:
            x = gen_random_bits()
            if len(repr(x).lstrip("-").split("e")[0].replace(".", "").lstrip("0")) >= 17:
                return x

    classes: Dict[str, Any] = {
        "zeros": [0.0, -0.0],
        "infinities": [math.inf, -math.inf],
        "extremes": [5e-324, -5e-324, 2.2250738585072014e-308, 2.225073858507201e-308, 1.7976931348623157e308,
                     -1.7976931348623157e308, math.nextafter(1.0, 2.0), math.nextafter(1.0, 0.0), 2.0 ** 53, 2.0 ** 53 + 2,
                     0.1, 0.2, 0.1 + 0.2, 1 / 3, 1e22, 1e23, 9007199254740993.0, 5e-324 * 3],
        "powers_of_two": [2.0 ** k for k in range(-1074, 1024)] + [-(2.0 ** k) for k in range(-1074, 1024, 7)],
        "powers_of_ten_and_neighbours": [y for k in range(-323, 309) for y in
                                         (float(f"1e{k}"), math.nextafter(float(f"1e{k}"), math.inf),
                                          math.nextafter(float(f"1e{k}"), -math.inf))],
        "subnormal": [math.copysign(frombits(rng.getrandbits(52) or 1), rng.choice([1.0, -1.0])) for _ in range(n)],
        "random_bit_patterns": [gen_random_bits() for _ in range(n)],
        "seventeen_significant_digits": [gen_17() for _ in range(n // 4)],
        "short_decimals": [rng.randrange(-10 ** 6, 10 ** 6) / 10 ** rng.randrange(0, 7) for _ in range(n)],
        "integers_beyond_2_53": [float(rng.randrange(2 ** 53, 2 ** 80)) for _ in range(n // 4)],
    }
    res: Dict[str, Any] = {}
    for name, xs in classes.items():
        failed = 0
        for x in xs:
            w = out(x)
            if w != repr(x) or bits(inp(w)) != bits(x):
                failed += 1
        res[name] = {"checked": len(xs), "failed": failed}
    nans = [frombits(0x7FF8000000000000), frombits(0xFFF8000000000000), frombits(0x7FF0000000000001),
            frombits(0x7FFFFFFFFFFFFFFF), float("nan")] + [frombits(0x7FF0000000000000 | rng.getrandbits(52) | 1) for _ in range(200)]
    bad = sum(1 for x in nans if not (inp(out(x)) != inp(out(x))))
    res["nan_comes_back_as_nan"] = {"checked": len(nans), "failed": bad}
    res["total_checked"] = sum(v["checked"] for v in res.values())
    res["total_failed"] = sum(v["failed"] for k, v in res.items() if isinstance(v, dict))
    return res


def extra_evidence(ctx: Ctx, cases: List[Case], verdicts) -> Dict[str, Any]:
    n = 250000 if ctx.thorough else 20000
    float_ops = sum(1 for c in cases if PYCLASS.get((c.recipe or {}).get("type")) == "float"
                    for op in (c.recipe or {}).get("ops", []) if op[0] == "rt")
    return {"float_assumption_measured": {
        "statement": "for every non-NaN float x: float(str(x)) is bit-identical to x and str(x) == repr(x); NaN -> NaN",
        "through": "STATE_VARIABLE_TYPE_MAPPING['r8']['out'/'in'] of the code under verification",
        "classes": measure_float_roundtrip(ctx.seed, n),
        "float_round_trips_judged_in_cases": float_ops}}


def signature(case: Case, verdict) -> str:
    t = case.recipe.get("type") if isinstance(case.recipe, dict) else "?"
    return f"C08 type={t} {verdict.notes[:300]}"
