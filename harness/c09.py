"""C09 correspondence harness: the real `UpnpEventHandler` registry (subscribe / renew / unsubscribe and the
`*_all` variants) against a scripted publisher, compared call by call with the Lean model `C09.runCall` and judged
by `C09.ok` on the implementation's own trace.  See DESIGN.md §5 C09 and design/C09.md."""
from __future__ import annotations

import itertools
import multiprocessing
from datetime import timedelta
from typing import Any, Dict, List

from harness import c09env
from harness.common import tok_str
from vk.core import Case, Ctx

GEN_MODULES: List[str] = ["C09Gena"]
MANIFEST = {
    "design_ref": "§5 C09",
    "text": ("Lean theorems over the executable registry model (transcription of async_subscribe, _async_do_resubscribe, "
             "async_resubscribe, async_unsubscribe and the *_all variants, requests built from tables generated from "
             "event_handler.py): c09_history — for EVERY sequence of calls and publisher reactions, with a requester that answers "
             "at once or suspends (renew-all then sends every renewal before any response is processed), the trace satisfies the "
             "judge C09.ok (routing table = publisher-side fold of grants/unsubscribes/losses after every call, granted SID+timeout "
             "returned, per service fresh SUBSCRIBEs = refused renewals, every request valid GENA); registry_mirrors, requests_valid "
             "and request_tables_pinned (over the generated header tables), unsubscribed_not_routed, refused_renewal_falls_back, "
             "unreachable_renewal_no_fallback, subscribe_returns_grant, renewal_returns_grant, fallback_adjacent_sequential. The same "
             "C09.ok judges the real handler's traces; the model is tied to the code by per-call comparison of requests, result and "
             "routing observations."),
    "note": ("Trusted: Lean kernel + standard axioms; the translator for the header tables; the scripted requester (two "
             "behaviours: answers at once / after one trip round the event loop; responses in request order); weak "
             "references not modelled (services kept alive); Python int()/timedelta modelled for ASCII input; a 200 whose "
             "TIMEOUT mentions Second- but is not Second-<digits>/Second-infinite is judged in full except for the returned timeout value; "
             "correspondence is sampled (exhaustive to a small depth over a reduced alphabet, random beyond)."),
    "technique": "Lean 4 proof (invariant by induction over call/reaction histories) + generated request tables + model/implementation correspondence",
}
RULE = ("histories of subscribe / renew by service / renew by SID / renew all / unsubscribe by service / by SID / unsubscribe all "
        "over 1..3 real UpnpService objects against a scripted publisher (200, 200 with new / same / empty / no SID, granted "
        "timeout other / infinite / absent / not a Second-N / garbage, 4xx/5xx incl. codes outside http.HTTPStatus, odd 2xx/3xx, UpnpConnectionError, UpnpConnectionTimeoutError); "
        "after each call every request seen by the publisher (with its answer), the result / exception class, "
        "service_for_sid for every SID in play and sid_for_service for every service are compared with the model and judged. "
        "non-trivial = at least one SID was granted and later renewed, replaced, lost or unsubscribed")
EXHAUSTIVE = {"quick": False, "thorough": False}
ASSUMPTIONS = [
    "two requester behaviours are explored: answering without suspending (asyncio.gather in the *_all calls then runs the "
    "per-SID coroutines one after the other) and suspending once per request (every renewal goes out before any response is "
    "processed); responses always arrive in request order",
    "services stay referenced (the weak-value routing table never drops an entry by garbage collection)",
    "caller-supplied timeouts are whole non-negative seconds",
    "granted TIMEOUT text is ASCII with fewer than 4300 digits",
]
TRUSTED = ["C09: scripted requester returning CIMultiDictProxy headers; CPython dict order modelled by PyDict"]

SIDS = ["uuid:a", "uuid:b", "uuid:c", "uuid:d", ""]


# ---------------------------------------------------------------------------------------------
# running one recipe against the real code

def r_tok(r) -> str:
    if r[0] == "resp":
        return f"resp {r[1]} {'!' if r[2] is None else tok_str(r[2])} {'!' if r[3] is None else tok_str(r[3])}"
    return r[0]


def call_line(op) -> str:
    k = op[0]
    if k == "sub":
        return f"call sub {op[1]} {op[2]}"
    if k == "resub":
        return f"call resub {op[1]} {op[2] if op[1] == 's' else tok_str(op[2])} {op[3]}"
    if k == "unsub":
        return f"call unsub {op[1]} {op[2] if op[1] == 's' else tok_str(op[2])}"
    return f"call {k}"


def op_reacts(op):
    return op[-1] if isinstance(op[-1], list) else []


_ENV: Dict[int, Any] = {}


def env(nsvc: int):
    """services are stateless for C09: one device per process, a fresh handler per case"""
    if nsvc not in _ENV:
        _ENV[nsvc] = c09env.run(c09env.make_env([c09env.DEFAULT_VARS] * nsvc))
    return _ENV[nsvc]


async def _run(recipe, lines, tags):
    from async_upnp_client.event_handler import UpnpEventHandler

    nsvc = int(recipe.get("nsvc", 2))
    rq, eh0, svcs = _ENV[nsvc]
    eh = UpnpEventHandler(eh0._notify_server, rq)  # fresh registry
    rq.script, rq.park = [], None

    def probe(sid_):
        svc_ = eh.service_for_sid(sid_)
        return None if svc_ is None else (svcs.index(svc_) if svc_ in svcs else 98)

    rq.probe = probe
    rq.suspend = bool(recipe.get("susp", False))
    del rq.log[:]
    probes = list(dict.fromkeys(SIDS + [s for op in recipe["ops"] for s in sids_of(op)]))
    c09env.CALLBACK_NOW[0] = c09env.CALLBACK
    lines.append(f"cfg {tok_str(c09env.HOST)} {tok_str(c09env.CALLBACK)}")
    lines.append("probe " + ",".join(tok_str(s) for s in probes))
    lines.append(f"nsvc {nsvc}")
    if rq.suspend:
        lines.append("mode susp")
        tags.add("mode:suspending")
    nontrivial = False
    granted = False
    for op in recipe["ops"]:
        k = op[0]
        if k == "url":    # the notify server's callback URL changes (stopped and restarted on another port) between two calls
            c09env.CALLBACK_NOW[0] = c09env.callback_for(op[1])
            lines.append(f"cfg {tok_str(c09env.HOST)} {tok_str(c09env.CALLBACK_NOW[0])}")
            tags.add("callback-url-changed")
            continue
        if k in ("sub",) and not 0 <= op[1] < nsvc:
            continue
        if k in ("resub", "unsub") and op[1] == "s" and not 0 <= op[2] < nsvc:
            continue
        lines.append(call_line(op))
        reacts = [tuple(r) for r in op_reacts(op)]
        for r in reacts:
            lines.append("react " + r_tok(r))
        rq.script = list(reacts)
        del rq.log[:]
        try:
            if k == "sub":
                sid, td = await eh.async_subscribe(svcs[op[1]], timedelta(seconds=op[2]))
                res = f"sub {tok_str(sid)} {c09env.td_seconds(td)}"
            elif k == "resub":
                tgt = svcs[op[2]] if op[1] == "s" else op[2]
                sid, td = await eh.async_resubscribe(tgt, timedelta(seconds=op[3]))
                res = f"sub {tok_str(sid)} {c09env.td_seconds(td)}"
            elif k == "unsub":
                tgt = svcs[op[2]] if op[1] == "s" else op[2]
                sid = await eh.async_unsubscribe(tgt)
                res = f"unsub {tok_str(sid)}"
            elif k == "resuball":
                r = await eh.async_resubscribe_all()
                res = "none" if r is None else f"exc RAW:returned-{type(r).__name__}"
            elif k == "unsuball":
                r = await eh.async_unsubscribe_all()
                res = "none" if r is None else f"exc RAW:returned-{type(r).__name__}"
            else:
                raise ValueError(k)
        except Exception as e:  # noqa: BLE001 - the exception class is an observation
            res = "exc " + c09env.exc_tok(e)
            tags.add("exc:" + c09env.exc_tok(e).split(":")[0] + (":" + c09env.exc_tok(e).split(":")[1] if c09env.exc_tok(e).startswith("RAW") else ""))
        for _ in range(8):  # let tasks left behind by gather() finish
            await __import__("asyncio").sleep(0)
        for method, url, headers, react, inflight in rq.log:
            hs = ",".join(f"{k_}={tok_str(v)}" for k_, v in sorted((k2.upper(), str(v2)) for k2, v2 in headers.items()))
            lines.append(f"req {method} {c09env.svc_index(url)} {hs or '~'} r={'!' if inflight is None else inflight} "
                         f"{r_tok(react) if react else 'connerr'}")
            if react and react[0] == "resp" and react[1] == 200 and react[2] is not None and method == "SUBSCRIBE":
                if granted:
                    nontrivial = True
                granted = True
            elif granted:
                nontrivial = True
            tags.add("react:" + (react[0] if react[0] != "resp" else ("200" if react[1] == 200 else "http-error")))
        lines.append("res " + res)
        routed = []
        for s in probes:
            try:
                svc = eh.service_for_sid(s)
                routed.append(f"{tok_str(s)}:{'!' if svc is None else svcs.index(svc) if svc in svcs else 98}")
            except Exception:  # noqa: BLE001 - an observation that raises is reported as routed to nowhere known
                routed.append(f"{tok_str(s)}:97")
        lines.append("routed " + ",".join(routed))
        sf = []
        for i, svc in enumerate(svcs):
            try:
                s = eh.sid_for_service(svc)
                sf.append(f"{i}:{'!' if s is None else tok_str(str(s))}")
            except Exception:  # noqa: BLE001
                sf.append(f"{i}:{tok_str('<raised>')}")
        lines.append("sidfor " + ",".join(sf))
        tags.add("call:" + k + (":" + op[1] if k in ("resub", "unsub") else ""))
        tags.add("res:" + res.split()[0])
    return nontrivial


def sids_of(op) -> List[str]:
    out = []
    if op[0] in ("resub", "unsub") and op[1] == "i":
        out.append(op[2])
    for r in op_reacts(op):
        if r[0] == "resp" and r[2] is not None:
            out.append(r[2])
    return out


def run_recipe(ctx: Ctx, recipe: Dict[str, Any], cid: str) -> Case:
    lines: List[str] = []
    tags = set()
    env(int(recipe.get("nsvc", 2)))
    nontrivial = c09env.run(_run(recipe, lines, tags))
    return Case(cid, lines, recipe, bool(nontrivial), sorted(tags))


# ---------------------------------------------------------------------------------------------
# generators

def R(status=200, sid=None, tmo=None):
    return ["resp", status, sid, tmo]


CONN = ["connerr"]
TMO = ["timeout"]

# reduced alphabet for the exhaustive part: (call + reaction script) over two services
EXH_CORE = [
    ["sub", 0, 1800, [R(200, "uuid:a", "Second-300")]],
    ["sub", 1, 1800, [R(200, "uuid:b")]],
    ["sub", 1, 600, [R(200, "uuid:a", "Second-infinite")]],          # the same SID granted to another service
    ["sub", 0, 1800, [R(200, None, "Second-300")]],                    # no SID
    ["sub", 0, 1800, [R(599, "uuid:c")]],                                # refused, although a SID header is present
    ["resub", "s", 0, 1800, [R(200, "uuid:a", "Second-120")]],
    ["resub", "s", 0, 900, [R(200, "uuid:c")]],                        # answered with a new SID
    ["resub", "i", "uuid:a", 1800, [R(412), R(200, "uuid:d", "Second-60")]],   # refused -> fresh subscription
    ["resub", "s", 1, 1800, [CONN]],                                   # unreachable
    ["resuball", [R(200), R(499), R(200, "uuid:c"), TMO]],
    ["unsub", "s", 0, [R(200)]],
    ["unsub", "i", "uuid:b", [R(509)]],
    ["unsub", "i", "uuid:a", [CONN]],
    ["unsuball", [R(200), R(412)]],
]
EXH_MORE = [
    ["sub", 0, 1800, [CONN]],
    ["sub", 1, 1800, [TMO]],
    ["sub", 1, 1800, [R(404)]],
    ["sub", 1, 1800, [R(299, "uuid:b")]],                              # an odd 2xx is not 200: refused
    ["resub", "s", 1, 1800, [R(499), R(200, "uuid:d")]],               # status codes outside http.HTTPStatus
    ["unsub", "s", 0, [R(399)]],
    ["resub", "s", 0, 1800, [R(500, "uuid:d", "Second-5"), R(412, "uuid:b")]],   # refusals carrying SID / TIMEOUT headers
    ["sub", 0, 86405, [R(200, "", "1800")]],                          # empty SID; TIMEOUT without Second-
    ["resub", "s", 0, 1800, [R(200, "")]],                             # empty SID on renewal = keep
    ["resub", "s", 1, 1800, [R(404), R(200, None)]],                   # fallback without SID
    ["resub", "s", 0, 1800, [R(520), CONN]],                           # fallback unreachable
    ["resub", "i", "uuid:b", 1800, [R(200, "uuid:a", "Second-infinite")]],  # new SID collides
    ["resub", "i", "uuid:c", 1800, [TMO]],
    ["resub", "i", "uuid:a", 1800, [R(200, "uuid:b", "Second-abc")]],  # garbage timeout after a SID swap (F09b)
    ["resuball", [CONN, R(412), R(200, "uuid:d")]],
    ["unsub", "s", 1, [TMO]],
    ["unsuball", []],
]

TIMEOUTS = [1800, 300, 0, 1, 86405, 100000]
TMO_HEADERS_OK = [None, None, "Second-1800", "Second-300", "Second-0", "Second-infinite", "Second-86399999913600",
                  "1800", "infinite", "", "second-5", "Second-007"]
TMO_HEADERS_BAD = ["Second-", "Second-abc", "Second- 12 ", "Second-+5", "Second-1_0", "xSecond-7", "Second--5",
                   "Second-86400000000000", "Second-99999999999999999999", "Second-1.5", "Second-1__0", "Second-_1",
                   "Second-\t3\n", "Second-5 x", "Second-Second-3"]


def rand_react(rng, renew: bool):
    c = rng.randrange(0, 20)
    if c < 9:
        sid = rng.choice(SIDS[:4]) if rng.randrange(8) else ""
        if renew and rng.randrange(3) == 0:
            sid = None
        tmo = rng.choice(TMO_HEADERS_OK)
        if rng.randrange(25) == 0:
            tmo = rng.choice(TMO_HEADERS_BAD)
        return R(200, sid, tmo)
    if c < 11:
        return R(200, None, rng.choice(TMO_HEADERS_OK))
    if c < 15:
        return R(rng.choice([400, 404, 412, 500, 503, 204, 301, 499, 509, 599, 299, 399, 199, 600, 999]), rng.choice([None, None, rng.choice(SIDS[:4])]),
                 rng.choice([None, None, "Second-60"]))
    if c < 18:
        return list(CONN)
    return list(TMO)


def rand_op(rng, nsvc: int):
    if rng.randrange(12) == 0:
        return ["url", rng.randrange(4)]
    c = rng.randrange(0, 20)
    t = rng.choice(TIMEOUTS)
    if c < 6:
        return ["sub", rng.randrange(nsvc), t, [rand_react(rng, False)]]
    if c < 9:
        return ["resub", "s", rng.randrange(nsvc), t, [rand_react(rng, True), rand_react(rng, False)]]
    if c < 12:
        return ["resub", "i", rng.choice(SIDS), t, [rand_react(rng, True), rand_react(rng, False)]]
    if c < 14:
        return ["resuball", [rand_react(rng, rng.randrange(2) == 0) for _ in range(rng.randrange(0, 7))]]
    if c < 16:
        return ["unsub", "s", rng.randrange(nsvc), [rand_react(rng, True)]]
    if c < 18:
        return ["unsub", "i", rng.choice(SIDS), [rand_react(rng, True)]]
    return ["unsuball", [rand_react(rng, True) for _ in range(rng.randrange(0, 4))]]


CORPUS = [
    # F09a: any renewal used to carry TIMEOUT: Second-1800.0
    {"nsvc": 1, "ops": [["sub", 0, 1800, [R(200, "uuid:a", "Second-300")]], ["resub", "s", 0, 1800, [R(200, "uuid:a")]]]},
    {"nsvc": 2, "ops": [["sub", 0, 300, [R(200, "uuid:a")]], ["sub", 1, 300, [R(200, "uuid:b")]], ["resuball", [R(200), R(200)]]]},
    # renewal refused -> fresh subscription; unreachable -> dropped, no fallback
    {"nsvc": 1, "ops": [["sub", 0, 1800, [R(200, "uuid:a")]], ["resub", "i", "uuid:a", 1800, [R(412), R(200, "uuid:b", "Second-60")]],
                        ["resub", "s", 0, 1800, [CONN]], ["unsub", "i", "uuid:b", [R(200)]]]},
    # unsubscribe not confirmed
    {"nsvc": 1, "ops": [["sub", 0, 1800, [R(200, "uuid:a")]], ["unsub", "s", 0, [R(500)]], ["resub", "i", "uuid:a", 1800, [R(200)]]]},
    # the same SID granted to two services; renewal answered with a colliding SID
    {"nsvc": 2, "ops": [["sub", 0, 1800, [R(200, "uuid:a")]], ["sub", 1, 1800, [R(200, "uuid:a")]], ["sub", 0, 1800, [R(200, "uuid:b")]],
                        ["resub", "i", "uuid:b", 1800, [R(200, "uuid:a")]], ["unsuball", [R(200)]]]},
    # round 3: values repeat — the SID of one service goes a -> b -> a over renewals, the same SID is granted again after an unsubscribe,
    # the identical call is made twice (the exhaustive part is a product WITH repetition, so every letter also follows itself)
    {"nsvc": 2, "ops": [["sub", 0, 1800, [R(200, "uuid:a")]], ["resub", "s", 0, 1800, [R(200, "uuid:b")]], ["resub", "s", 0, 1800, [R(200, "uuid:a")]],
                        ["unsub", "i", "uuid:a", [R(200)]], ["sub", 0, 1800, [R(200, "uuid:a")]], ["sub", 0, 1800, [R(200, "uuid:a")]],
                        ["sub", 1, 1800, [R(200, "uuid:a")]], ["unsub", "i", "uuid:a", [R(200)]], ["unsub", "i", "uuid:a", [R(200)]]]},
    # round 4: refusals with status codes outside http.HTTPStatus (499, 509, 599, 299 …) on subscribe / renew / unsubscribe: the
    # refused renewal must still fall back and the dropped SID must not stay routed
    {"nsvc": 2, "ops": [["sub", 0, 1800, [R(200, "uuid:a")]], ["sub", 1, 1800, [R(299, "uuid:b")]], ["resub", "s", 0, 1800, [R(499), R(200, "uuid:c")]],
                        ["resub", "i", "uuid:c", 1800, [R(599), R(509)]], ["sub", 1, 1800, [R(200, "uuid:b")]], ["unsub", "i", "uuid:b", [R(799)]],
                        ["sub", 0, 1800, [R(200, "uuid:a")]], ["resuball", [R(499), R(200, "uuid:d")]], ["unsuball", [R(599)]]]},
    # batch 6: the notify server's callback URL changes between calls of a long-lived handler; every later initial SUBSCRIBE — also
    # the one a refused renewal falls back to, also inside renew-all — carries the CURRENT URL
    {"nsvc": 2, "ops": [["sub", 0, 1800, [R(200, "uuid:a")]], ["url", 1], ["sub", 1, 1800, [R(200, "uuid:b")]],
                        ["resub", "s", 0, 1800, [R(412), R(200, "uuid:c")]], ["url", 2], ["resuball", [R(412), R(200, "uuid:d"), R(200)]],
                        ["url", 0], ["sub", 0, 1800, [R(200, "uuid:e")]]]},
    {"nsvc": 1, "ops": [["url", 3], ["sub", 0, 300, [R(500)]], ["url", 1], ["sub", 0, 300, [R(200, "uuid:a")]]]},
    # timeouts longer than a day (timedelta.seconds drops the days), empty SID
    {"nsvc": 1, "ops": [["sub", 0, 86405, [R(200, "", "Second-infinite")]], ["resub", "s", 0, 86405, []], ["resub", "i", "", 90000, [R(200)]]]},
    # garbage granted timeouts (F09b: used to raise half-way; judged except for the returned timeout value)
    {"nsvc": 1, "ops": [["sub", 0, 1800, [R(200, "uuid:a", "Second-abc")]], ["sub", 0, 1800, [R(200, "uuid:a", "xSecond-7")]],
                        ["resub", "s", 0, 1800, [R(200, "uuid:b", "Second-99999999999999999999")]]]},
]


def _worker_init():
    from vk.core import activate_repo
    activate_repo()      # re-imports the package: objects built before the fork belong to the old classes
    _ENV.clear()
    c09env._LOOP = None


def _worker(args):
    recipes, start = args
    out = []
    for j, rec in enumerate(recipes):
        c = run_recipe(None, rec, f"x{start + j}")
        out.append((c.cid, c.lines, c.recipe, c.nontrivial, c.tags))
    return out


def run_many(ctx: Ctx, recipes: List[dict], prefix: str) -> List[Case]:
    if len(recipes) < 4000:
        return [run_recipe(ctx, r, f"{prefix}{i}") for i, r in enumerate(recipes)]
    chunk = 1000
    jobs = [(recipes[i:i + chunk], i) for i in range(0, len(recipes), chunk)]
    with multiprocessing.get_context("fork").Pool(min(12, len(jobs)), initializer=_worker_init) as pool:
        res = pool.map(_worker, jobs)
    cases = []
    for part in res:
        for cid, lines, rec, nt, tags in part:
            cases.append(Case(prefix + cid[1:], lines, rec, nt, tags))
    return cases


def generate(ctx: Ctx) -> List[Case]:
    rng = ctx.rng
    recipes: List[dict] = []
    full = EXH_CORE + EXH_MORE
    # exhaustive over the reduced alphabets
    if ctx.thorough:
        for seq in itertools.product(EXH_CORE, repeat=4):
            recipes.append({"nsvc": 2, "ops": list(seq)})
        for seq in itertools.product(full, repeat=3):
            recipes.append({"nsvc": 2, "ops": list(seq)})
    else:
        for seq in itertools.product(EXH_CORE, repeat=3):
            recipes.append({"nsvc": 2, "ops": list(seq)})
        for seq in itertools.product(full, repeat=2):
            recipes.append({"nsvc": 2, "ops": list(seq)})
    # the enumerated histories of length 2 (thorough: 3) once more with the callback URL changing after the first call
    m = 3 if ctx.thorough else 2
    for seq in itertools.product(EXH_CORE, repeat=m):
        recipes.append({"nsvc": 2, "ops": [seq[0], ["url", 1]] + list(seq[1:])})
    n_random = 20000 if ctx.thorough else 1000
    for _ in range(n_random):
        nsvc = rng.randrange(1, 4)
        n = rng.randrange(1, 31 if ctx.thorough else 16)
        recipes.append({"nsvc": nsvc, "ops": [rand_op(rng, nsvc) for _ in range(n)]})
    # the same histories against a requester that suspends (renew-all then sends every renewal before any fallback)
    susp = [dict(r, susp=True) for r in recipes if any(op[0] == "resuball" for op in r["ops"])]
    if not ctx.thorough:
        susp = susp[:: max(1, len(susp) // 1500)]
    cases = [run_recipe(ctx, rec, f"corpus{i}") for i, rec in enumerate(CORPUS + [dict(r, susp=True) for r in CORPUS])]
    cases += run_many(ctx, recipes + susp, "g")
    return cases


def signature(case: Case, verdict) -> str:
    calls = " ".join(sorted({ln.split()[1] for ln in case.lines if ln.startswith("call ")}))
    return f"C09 calls[{calls}] {verdict.notes[:300]}"
