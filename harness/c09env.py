"""Shared environment of the C09/C10/C11 harnesses: a device with 1..3 services built by the REAL
UpnpFactory from generated description XML, a scripted requester with the interface this version of the
library uses (`async_http_request(method, url, headers, body) -> (status, headers, body)`), a notify server
stub and one reusable event loop per process."""
from __future__ import annotations

import asyncio
from typing import Any, Dict, List, Optional, Tuple
from xml.sax.saxutils import escape

HOST = "dev:1234"
CALLBACK = "http://192.168.1.2:8090/notify"
DEVICE_URL = f"http://{HOST}/device.xml"

_DEV = """<?xml version="1.0"?>
<root xmlns="urn:schemas-upnp-org:device-1-0"><specVersion><major>1</major><minor>0</minor></specVersion>
<device><deviceType>urn:schemas-upnp-org:device:Test:1</deviceType><friendlyName>t</friendlyName><manufacturer>m</manufacturer><modelName>n</modelName><UDN>uuid:dev</UDN>
<serviceList>%s</serviceList></device></root>"""
_SVC = ("<service><serviceType>urn:schemas-upnp-org:service:S{i}:1</serviceType><serviceId>urn:upnp-org:serviceId:S{i}</serviceId>"
        "<controlURL>/c{i}</controlURL><eventSubURL>/e{i}</eventSubURL><SCPDURL>/s{i}.xml</SCPDURL></service>")
_SCPD = """<?xml version="1.0"?><scpd xmlns="urn:schemas-upnp-org:service-1-0"><specVersion><major>1</major><minor>0</minor></specVersion><actionList/>
<serviceStateTable>%s</serviceStateTable></scpd>"""


def var_xml(decl: Dict[str, Any]) -> str:
    """decl: {"name", "type", "min"?, "max"?, "allowed"?: [..]}"""
    out = f'<stateVariable sendEvents="yes"><name>{escape(decl["name"])}</name><dataType>{decl["type"]}</dataType>'
    if decl.get("allowed"):
        out += "<allowedValueList>" + "".join(f"<allowedValue>{escape(a)}</allowedValue>" for a in decl["allowed"]) + "</allowedValueList>"
    if decl.get("min") is not None or decl.get("max") is not None:
        out += "<allowedValueRange>"
        if decl.get("min") is not None:
            out += f"<minimum>{decl['min']}</minimum>"
        if decl.get("max") is not None:
            out += f"<maximum>{decl['max']}</maximum>"
        out += "</allowedValueRange>"
    return out + "</stateVariable>"


DEFAULT_VARS = [{"name": "A", "type": "ui2", "min": 0, "max": 100}, {"name": "B", "type": "string"}]


class Requester:
    """scripted publisher: GET serves the description; SUBSCRIBE/UNSUBSCRIBE are answered by `self.react(method, url,
    headers)` which returns ("resp", status, sid|None, timeout|None) | ("connerr",) | ("timeout",) | an awaitable of it"""

    def __init__(self, svc_vars: List[List[Dict[str, Any]]]):
        self.svc_vars = svc_vars
        self.log: List[Tuple[str, str, Dict[str, str], Any]] = []
        self.script: List[Any] = []
        self.default = ("resp", 500, None, None)
        self.park: Optional[Any] = None  # callable(method, url, headers) -> Future | None (C11)
        self.n = 0

    async def async_http_request(self, method, url, headers=None, body=None):
        from multidict import CIMultiDict, CIMultiDictProxy

        from async_upnp_client import exceptions as ex

        if method == "GET":
            if url.endswith("device.xml"):
                return 200, {}, _DEV % "".join(_SVC.format(i=i) for i in range(len(self.svc_vars)))
            i = int(url.rsplit("/s", 1)[1].split(".")[0])
            return 200, {}, _SCPD % "".join(var_xml(d) for d in self.svc_vars[i])
        entry = [method, url, dict(headers or {}), None]
        self.log.append(entry)
        fut = self.park(method, url, headers) if self.park else None
        if fut is not None:
            r = await fut
        else:
            r = self.script.pop(0) if self.script else self.default
        r = tuple(r)
        entry[3] = r
        self.n += 1
        if r[0] == "connerr":
            raise ex.UpnpConnectionError("scripted: unreachable")
        if r[0] == "timeout":
            raise ex.UpnpConnectionTimeoutError("scripted: timeout")
        _, status, sid, tmo = r
        h = {}
        if sid is not None:
            h[["SID", "sid", "Sid"][self.n % 3]] = sid
        if tmo is not None:
            h[["TIMEOUT", "Timeout", "timeout"][self.n % 3]] = tmo
        return status, CIMultiDictProxy(CIMultiDict(h)), ""


def svc_index(url: str) -> int:
    pre = f"http://{HOST}/e"
    if url.startswith(pre) and url[len(pre):].isdigit():
        return int(url[len(pre):])
    return 99


_LOOP: Optional[asyncio.AbstractEventLoop] = None


def loop() -> asyncio.AbstractEventLoop:
    global _LOOP
    if _LOOP is None or _LOOP.is_closed():
        _LOOP = asyncio.new_event_loop()
    return _LOOP


def run(coro):
    lp = loop()
    asyncio.set_event_loop(lp)
    return lp.run_until_complete(coro)


async def make_env(svc_vars: List[List[Dict[str, Any]]]):
    """-> (requester, event_handler, [services])  — services are referenced by the returned list (kept alive)"""
    from async_upnp_client.client_factory import UpnpFactory
    from async_upnp_client.event_handler import UpnpEventHandler, UpnpNotifyServer

    class NotifyServer(UpnpNotifyServer):
        @property
        def callback_url(self) -> str:
            return CALLBACK

        async def async_start_server(self) -> None:
            pass

        async def async_stop_server(self) -> None:
            pass

    rq = Requester(svc_vars)
    dev = await UpnpFactory(rq).async_create_device(DEVICE_URL)
    svcs = [dev.service(f"urn:schemas-upnp-org:service:S{i}:1") for i in range(len(svc_vars))]
    for i, s in enumerate(svcs):
        assert svc_index(s.event_sub_url) == i, s.event_sub_url
    eh = UpnpEventHandler(NotifyServer(), rq)
    return rq, eh, svcs


def exc_tok(e: BaseException) -> str:
    mod = type(e).__module__ or ""
    name = type(e).__name__
    if name == "UpnpResponseError" and mod.startswith("async_upnp_client"):
        return f"UpnpResponseError:{e.status}"
    return name if mod.startswith("async_upnp_client") else f"RAW:{name}"


def td_seconds(td) -> int:
    assert td.microseconds == 0, td
    return td.days * 86400 + td.seconds
