"""Shared environment of the C09/C10/C11 harnesses: a device with 1..3 services built by the REAL
UpnpFactory from generated description XML, a scripted requester with the interface this version of the
library uses (`async_http_request(method, url, headers, body) -> (status, headers, body)`), a notify server
stub and one reusable event loop per process."""
from __future__ import annotations

import asyncio
from typing import Any, Dict, List, Optional, Tuple
from xml.sax.saxutils import escape

HOST = "dev:1234"
CALLBACK = "http://192.168.1.2:8090/notify"
CALLBACK_NOW = [CALLBACK]     # what the fake notify server's callback_url returns at this moment (C09 'url' steps change it)


def callback_for(n: int) -> str:
    """the callback URL after the notify server was restarted on its n-th port"""
    return f"http://192.168.1.2:{8090 + n}/notify"
DEVICE_URL = f"http://{HOST}/device.xml"

_DEV = """<?xml version="1.0"?>
<root xmlns="urn:schemas-upnp-org:device-1-0"><specVersion><major>1</major><minor>0</minor></specVersion>
<device><deviceType>urn:schemas-upnp-org:device:Test:1</deviceType><friendlyName>t</friendlyName><manufacturer>m</manufacturer><modelName>n</modelName><UDN>uuid:dev</UDN>
<serviceList>%s</serviceList></device></root>"""
_SVC = ("<service><serviceType>urn:schemas-upnp-org:service:S{i}:1</serviceType><serviceId>urn:upnp-org:serviceId:S{i}</serviceId>"
        "<controlURL>/c{i}</controlURL><eventSubURL>/e{i}</eventSubURL><SCPDURL>/s{i}.xml</SCPDURL></service>")
_SCPD = """<?xml version="1.0"?><scpd xmlns="urn:schemas-upnp-org:service-1-0"><specVersion><major>1</major><minor>0</minor></specVersion><actionList/>
<serviceStateTable>%s</serviceStateTable></scpd>"""


def var_xml(decl: Dict[str, Any]) -> str:
    """decl: {"name", "type", "min"?, "max"?, "allowed"?: [..]}"""
    send = decl.get("send", "yes")      # "yes" | "no" | None (attribute absent): must make no difference to the NOTIFY path
    attr = "" if send is None else f' sendEvents="{send}"'
    out = f'<stateVariable{attr}><name>{escape(decl["name"])}</name><dataType>{decl["type"]}</dataType>'
    if decl.get("allowed"):
        out += "<allowedValueList>" + "".join(f"<allowedValue>{escape(a)}</allowedValue>" for a in decl["allowed"]) + "</allowedValueList>"
    if decl.get("min") is not None or decl.get("max") is not None:
        out += "<allowedValueRange>"
        if decl.get("min") is not None:
            out += f"<minimum>{escape(str(decl['min']))}</minimum>"
        if decl.get("max") is not None:
            out += f"<maximum>{escape(str(decl['max']))}</maximum>"
        out += "</allowedValueRange>"
    return out + "</stateVariable>"


DEFAULT_VARS = [{"name": "A", "type": "ui2", "min": 0, "max": 100}, {"name": "B", "type": "string"}]


class Requester:
    """scripted publisher: GET serves the description; SUBSCRIBE/UNSUBSCRIBE are answered by `self.react(method, url,
    headers)` which returns ("resp", status, sid|None, timeout|None) | ("connerr",) | ("timeout",) | an awaitable of it"""

    def __init__(self, svc_vars: List[List[Dict[str, Any]]]):
        self.svc_vars = svc_vars
        self.log: List[Tuple[str, str, Dict[str, str], Any]] = []
        self.script: List[Any] = []
        self.default = ("resp", 500, None, None)
        self.park: Optional[Any] = None  # callable(method, url, headers) -> Future | None (C11)
        self.probe: Optional[Any] = None   # callable(sid) -> index of the service routed for sid right now | None
        self.suspend = False             # answer after one trip round the event loop (the reaction is bound at request time)
        self.n = 0

    async def async_http_request(self, method, url, headers=None, body=None):
        from multidict import CIMultiDict, CIMultiDictProxy

        from async_upnp_client import exceptions as ex

        if method == "GET":
            if url.endswith("device.xml"):
                return 200, {}, _DEV % "".join(_SVC.format(i=i) for i in range(len(self.svc_vars)))
            i = int(url.rsplit("/s", 1)[1].split(".")[0])
            return 200, {}, _SCPD % "".join(var_xml(d) for d in self.svc_vars[i])
        entry = [method, url, dict(headers or {}), None, None]
        if self.probe is not None:
            hs = {k.upper(): v for k, v in (headers or {}).items()}
            if "SID" in hs:
                try:
                    entry[4] = self.probe(hs["SID"])   # what the handler routes for this SID while the request is in flight
                except Exception:  # noqa: BLE001
                    entry[4] = 96
        self.log.append(entry)
        fut = self.park(method, url, headers) if self.park else None
        if fut is not None:
            r = await fut
        else:
            r = self.script.pop(0) if self.script else self.default
            entry[3] = tuple(r)
            if self.suspend:
                await asyncio.sleep(0)
        r = tuple(r)
        entry[3] = r
        self.n += 1
        if r[0] == "connerr":
            raise ex.UpnpConnectionError("scripted: unreachable")
        if r[0] == "timeout":
            raise ex.UpnpConnectionTimeoutError("scripted: timeout")
        _, status, sid, tmo = r
        h = {}
        if sid is not None:
            h[["SID", "sid", "Sid"][self.n % 3]] = sid
        if tmo is not None:
            h[["TIMEOUT", "Timeout", "timeout"][self.n % 3]] = tmo
        return status, CIMultiDictProxy(CIMultiDict(h)), ""


def svc_index(url: str) -> int:
    pre = f"http://{HOST}/e"
    if url.startswith(pre) and url[len(pre):].isdigit():
        return int(url[len(pre):])
    return 99


_LOOP: Optional[asyncio.AbstractEventLoop] = None


def loop() -> asyncio.AbstractEventLoop:
    global _LOOP
    if _LOOP is None or _LOOP.is_closed():
        _LOOP = asyncio.new_event_loop()
    return _LOOP


def run(coro):
    lp = loop()
    asyncio.set_event_loop(lp)
    return lp.run_until_complete(coro)


async def make_env(svc_vars: List[List[Dict[str, Any]]], aiohttp_server: bool = False):
    """-> (requester, event_handler, [services])  — services are referenced by the returned list (kept alive)"""
    from async_upnp_client.client_factory import UpnpFactory
    from async_upnp_client.event_handler import UpnpEventHandler, UpnpNotifyServer

    class NotifyServer(UpnpNotifyServer):
        @property
        def callback_url(self) -> str:
            return CALLBACK_NOW[0]

        async def async_start_server(self) -> None:
            pass

        async def async_stop_server(self) -> None:
            pass

    import logging
    for name in ("async_upnp_client.client", "async_upnp_client.event_handler", "async_upnp_client.client_factory"):
        logging.getLogger(name).setLevel(logging.CRITICAL + 1)
    rq = Requester(svc_vars)
    dev = await UpnpFactory(rq).async_create_device(DEVICE_URL)
    svcs = [dev.service(f"urn:schemas-upnp-org:service:S{i}:1") for i in range(len(svc_vars))]
    for i, s in enumerate(svcs):
        assert svc_index(s.event_sub_url) == i, s.event_sub_url
    if aiohttp_server:
        # the library's own notify server in front of the handler (not started: requests are handed to `_handle_request`)
        from async_upnp_client.aiohttp import AiohttpNotifyServer

        ns = AiohttpNotifyServer(rq, source=("192.168.1.2", 8090), callback_url=CALLBACK, loop=asyncio.get_running_loop())
        eh = ns.event_handler
    else:
        eh = UpnpEventHandler(NotifyServer(), rq)
    return rq, eh, svcs


class FakeWebRequest:
    """what `AiohttpNotifyServer._handle_request` uses of an aiohttp.web.BaseRequest: method, headers (CIMultiDictProxy), text()"""

    def __init__(self, method: str, headers, body: str) -> None:
        self.method = method
        self.headers = headers
        self._body = body

    async def text(self) -> str:
        return self._body

    def __repr__(self) -> str:
        return f"<FakeWebRequest {self.method}>"


async def notify_via_server(eh, headers, body: str, method: str = "NOTIFY") -> int:
    """deliver a request the way the publisher does: through the notify server; returns the HTTP status it answers"""
    resp = await eh._notify_server._handle_request(FakeWebRequest(method, headers, body))
    return int(resp.status)


def exc_tok(e: BaseException) -> str:
    mod = type(e).__module__ or ""
    name = type(e).__name__
    if name == "UpnpResponseError" and mod.startswith("async_upnp_client"):
        return f"UpnpResponseError:{e.status}"
    return name if mod.startswith("async_upnp_client") else f"RAW:{name}"


def td_seconds(td) -> int:
    assert td.microseconds == 0, td
    return td.days * 86400 + td.seconds


# ---- NOTIFY side (C10 / C11) ------------------------------------------------------------------------

EVENT_NS = "urn:schemas-upnp-org:event-1-0"


def render_body(body, pad: str = "", style: int = 0) -> str:
    """body: [{"p": bool, "kids": [[ns, name, text], ...]}, ...] -> property-set XML.
    style 0: `e:` prefix for the event namespace; style 1: other prefix name."""
    if body == "#":
        return "<e:propertyset xmlns:e=\"urn:schemas-upnp-org:event-1-0\"><e:property><A>1</A>" + pad
    pre = ["e", "ev"][style % 2]
    out = [f'<?xml version="1.0"?><{pre}:propertyset xmlns:{pre}="{EVENT_NS}">']
    q = 0
    for el in body:
        tag = f"{pre}:property" if el["p"] else "junk"
        out.append(f"<{tag}>")
        for ns, name, text in el["kids"]:
            if ns:
                q += 1
                open_ = f'<q{q}:{name} xmlns:q{q}="{escape(ns, {chr(34): "&quot;"})}"'
                close = f"</q{q}:{name}>"
            else:
                open_ = f"<{name}"
                close = f"</{name}>"
            if text == "" and (q + len(name)) % 2:
                out.append(open_ + "/>")
            else:
                out.append(open_ + ">" + escape(text) + close)
        out.append(f"</{tag}>")
    out.append(f"</{pre}:propertyset>")
    return "".join(out) + pad


def body_tok(body) -> str:
    from harness.common import tok_str

    if body == "#":       # a body that is not XML
        return "#"
    if not body:
        return "~"
    return ";".join(("P" if el["p"] else "X") + "|" + ",".join(f"{tok_str(ns)}:{tok_str(nm)}:{tok_str(tx)}" for ns, nm, tx in el["kids"])
                    for el in body)


def opt_tok(s) -> str:
    from harness.common import tok_str

    return "!" if s is None else tok_str(s)


FLOAT_TYPES = {"r4", "r8", "number", "fixed.14.4", "float"}


def decl_lines(svc_vars) -> List[str]:
    """`decl <svc> <name> <dtype> <range 0|1> <min|~> <max|~> <allowed ~|hex,…>` — the declaration texts as they stand in the SCPD"""
    from harness.common import tok_str

    out = [f"nsvc {len(svc_vars)}"]
    for i, ds in enumerate(svc_vars):
        for d in ds:
            al = ",".join(tok_str(a) for a in d.get("allowed") or []) or "~"
            has_range = d.get("min") is not None or d.get("max") is not None
            mn = "~" if d.get("min") is None else tok_str(str(d["min"]))
            mx = "~" if d.get("max") is None else tok_str(str(d["max"]))
            out.append(f"decl {i} {tok_str(d['name'])} {tok_str(d['type'])} {1 if has_range else 0} {mn} {mx} {al}")
    return out


def fdecl_lines(svc_vars, texts) -> List[str]:
    """the float oracle of the case: what Python's float() gives for every text a float-typed variable can meet (declared
    minimum / maximum / allowed values and every text sent under that variable's name)"""
    from harness.c08 import tok_float
    from harness.common import tok_str

    seen = {}
    fnames = set()
    for ds in svc_vars:
        for d in ds:
            if d["type"] in FLOAT_TYPES:
                fnames.add(d["name"])
                for t in [d.get("min"), d.get("max")] + list(d.get("allowed") or []):
                    if t is not None:
                        seen[str(t)] = None
    for name, text in texts:
        if name in fnames:
            seen[text] = None
    out = []
    for t in seen:
        try:
            r = tok_float(float(t))
        except ValueError:
            r = "!"
        out.append(f"fdecl parse {tok_str(t)} {r}")
    return out


TICK = [0]
_BASE = None


def install_clock() -> None:
    """replace `datetime` in async_upnp_client.client by a subclass whose now() is the virtual tick"""
    global _BASE
    import datetime as _dt

    from async_upnp_client import client

    if getattr(client.datetime, "_c09_fake", False):
        return
    real = _dt.datetime

    class FakeDT(real):  # type: ignore[misc,valid-type]
        _c09_fake = True

        @classmethod
        def now(cls, tz=None):
            return real(2000, 1, 1, tzinfo=tz) + _dt.timedelta(seconds=TICK[0])

    client.datetime = FakeDT


def state_line(i: int, svc) -> str:
    import datetime as _dt

    from harness.c08 import tok_val
    from harness.common import tok_str

    parts = []
    for name, sv in svc.state_variables.items():
        ua = sv.updated_at
        up = "!" if ua is None else str(int((ua - _dt.datetime(2000, 1, 1, tzinfo=_dt.timezone.utc)).total_seconds()))
        parts.append(f"{tok_str(name)}={tok_val(sv.value)}={up}")
    return f"st {i} " + (",".join(parts) or "~")


def notify_headers(nt, nts, sid, k: int = 0):
    """the headers object handed to handle_notify: what aiohttp's request.headers is (CIMultiDictProxy)"""
    from multidict import CIMultiDict, CIMultiDictProxy

    h = CIMultiDict()
    h["HOST"] = "192.168.1.2:8090"
    h["CONTENT-TYPE"] = 'text/xml; charset="utf-8"'
    if nt is not None:
        h[["NT", "Nt", "nt"][k % 3]] = nt
    if nts is not None:
        h[["NTS", "nts", "Nts"][k % 3]] = nts
    if sid is not None:
        h[["SID", "Sid", "sid"][k % 3]] = sid
    h["SEQ"] = str(k)
    return CIMultiDictProxy(h)


def events_tok(evs) -> str:
    from harness.common import tok_str

    if not evs:
        return "~"
    return "|".join(",".join(tok_str(n) for n in names) if names else "-" for names in evs)
