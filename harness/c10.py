"""C10 correspondence harness: NOTIFY requests through the real `UpnpEventHandler.handle_notify` ->
`UpnpService.notify_changed_state_variables` -> `UpnpStateVariable.upnp_value`, compared with the Lean model
`C10.handleNotify` and judged by `C10.ok` on the implementation's own observations.  See design/C10.md."""
from __future__ import annotations

from datetime import timedelta
from typing import Any, Dict, List

from harness import c09env
from harness.common import tok_str
from vk.core import Case, Ctx

GEN_MODULES: List[str] = ["C10Notify", "C08Types"]
MANIFEST = {
    "design_ref": "§5 C10",
    "text": ("Lean theorems over the executable NOTIFY model (header ladder taken from the table generated from handle_notify, "
             "SID lookup, changes dict, notify_changed_state_variables loop with the {ns}name fallback, upnp_value setter with "
             "C08's coercePython / schema over the generated type table for all 26 data types): status_spec (400/412/200 for every "
             "header combination), conversion_is_c08, no_exception_escapes, "
             "apply_complete / c10_step (for every handler state and every well-formed property set the per-variable judge "
             "C10.stepOk holds: named+valid -> stored and stamped, not convertible -> reads absent and listed, out of range / "
             "not allowed -> untouched, unknown skipped, exactly one callback listing exactly the replaced variables, other "
             "services untouched), isolation, c10_history (sequences).  The same C10.stepOk judges the real handler."),
    "note": ("Trusted: Lean kernel + standard axioms; the translators; XML text<->tree (DET.fromstring) is not modelled — the "
             "harness renders the abstract property set in varying textual forms; conversion / validation are C08's model for all 26 "
             "data types (floats through a declared oracle); voluptuous All/In/Range semantics as modelled in C08; ASCII values; a repeated element assigns its last text; a property set mixing x and {ns}x for "
             "one variable is compared but not judged."),
    "technique": "Lean 4 proof (per-variable characterisation of the NOTIFY loop) + generated ladder/type tables + model/implementation correspondence",
}
RULE = ("sequences of NOTIFY requests over 1..3 real services (variables of ALL 26 UPnP data types, sendEvents yes / no / absent, "
        "with and without declared "
        "ranges / allowed lists, names shared between services; accepted spellings incl. both offset signs, Z, space separator, "
        "+-HHMM / +-HH:MM, near-misses and out-of-range values): headers present/absent/wrong NT, NTS, SID routed / foreign / "
        "unrouted / missing; property sets of 0..7 children over 1..3 e:property elements plus foreign elements, namespaced and "
        "unknown names, valid / unconvertible / out-of-range / not-allowed values, repeated elements, the same event delivered twice in a "
        "row and A-B-A across events (byte-identical requests); after each request the "
        "status, every variable's value and updated_at of every service and the callbacks are compared and judged. "
        "non-trivial = a routed event that changes at least one variable")
EXHAUSTIVE = {"quick": False, "thorough": False}
ASSUMPTIONS = [
    "property-set text is well-formed XML (a malformed body raises ParseError out of handle_notify; not covered by the property)",
    "values and names are ASCII; names are NCNames without braces",
    "floats are not modelled: what float(text) gives is declared by the harness per text (as in C08)",
    "strict mode (UpnpFactory(non_strict=False)); on_event is set on every service",
]
TRUSTED = ["C10: voluptuous All/In/Range and the python-type validators behave as modelled (isinstance, membership, inclusive range)"]

SIDS = ["uuid:s0", "uuid:s1", "uuid:s2", "uuid:zz"]
NT_OK, NTS_OK = "upnp:event", "upnp:propchange"


async def _run(recipe, lines, tags):
    svc_vars = recipe["vars"]
    lines.extend(c09env.fdecl_lines(svc_vars, texts_of(recipe)))
    lines.extend(c09env.decl_lines(svc_vars))
    try:
        rq, eh, svcs = await c09env.make_env(svc_vars)
    except Exception as e:  # noqa: BLE001 - the factory rejects a declaration whose texts the type table accepts
        lines.append("factoryfail " + c09env.exc_tok(e))
        tags.add("factoryfail")
        return False
    c09env.install_clock()
    cb_log: List[List[List[str]]] = [[] for _ in svcs]
    for i, s in enumerate(svcs):
        s.on_event = (lambda i_: (lambda svc, vs: cb_log[i_].append([v.name for v in vs])))(i)
    notified = set()
    tick = 0
    nontrivial = False
    for op in recipe["ops"]:
        k = op[0]
        if k == "route":
            _, sid, i = op
            if sid in notified or not 0 <= i < len(svcs):
                continue
            rq.script = [("resp", 200, sid, None)]
            await eh.async_subscribe(svcs[i], timedelta(seconds=1800))
            lines.append(f"route {tok_str(sid)} {i}")
        elif k == "unroute":
            _, sid = op
            if eh.service_for_sid(sid) is None:
                continue
            rq.script = [("resp", 200, None, None)]
            await eh.async_unsubscribe(sid)
            lines.append(f"unroute {tok_str(sid)}")
        elif k == "notify":
            _, nt, nts, sid, body, pad = op[:6]
            tick += 1
            style = op[6] if len(op) > 6 and op[6] is not None else tick   # a fixed style makes a repeated event byte-identical
            c09env.TICK[0] = tick
            if sid is not None:
                notified.add(sid)
            lines.append(f"notify {tick} {c09env.opt_tok(nt)} {c09env.opt_tok(nts)} {c09env.opt_tok(sid)} {c09env.body_tok(body)}")
            tgt = eh.service_for_sid(sid) if sid is not None else None
            lines.append(f"rt {'!' if tgt is None else svcs.index(tgt)}")
            for l in cb_log:
                del l[:]
            before = [c09env.state_line(i, s) for i, s in enumerate(svcs)]
            try:
                st = await eh.handle_notify(c09env.notify_headers(nt, nts, sid, style), c09env.render_body(body, pad, style))
                res = f"status {int(st)}"
            except Exception as e:  # noqa: BLE001
                res = "exc " + c09env.exc_tok(e)
                tags.add("exc:" + c09env.exc_tok(e))
            lines.append("res " + res)
            after = [c09env.state_line(i, s) for i, s in enumerate(svcs)]
            lines.extend(after)
            for i, l in enumerate(cb_log):
                lines.append(f"ev {i} {c09env.events_tok(l)}")
            tags.add("res:" + res.replace(" ", ""))
            tags.add("target:" + ("none" if tgt is None else "routed"))
            if after != before:
                nontrivial = True
                tags.add("changed")
            for l in cb_log:
                for names in l:
                    tags.add(f"listed:{min(len(names), 3)}")
        else:
            raise ValueError(k)
    return nontrivial


def texts_of(recipe):
    out = []
    for op in recipe["ops"]:
        if op[0] == "notify" and op[4] != "#":
            for el in op[4]:
                for ns, name, text in el["kids"]:
                    out.append((name, text))
    return out


def run_recipe(ctx: Ctx, recipe: Dict[str, Any], cid: str) -> Case:
    lines: List[str] = []
    tags = set()
    nontrivial = c09env.run(_run(recipe, lines, tags))
    return Case(cid, lines, recipe, bool(nontrivial), sorted(tags))


# ---------------------------------------------------------------------------------------------
# generators

# every row of const.STATE_VARIABLE_TYPE_MAPPING, with and without declared ranges / allowed lists
VAR_KINDS = [
    {"type": "ui1", "min": 1, "max": 3, "allowed": ["1", "2", "9"]},
    {"type": "ui2", "min": 0, "max": 100}, {"type": "ui4", "max": 7}, {"type": "ui8"},
    {"type": "i1"}, {"type": "i2", "min": -5}, {"type": "i4"}, {"type": "i8", "allowed": ["-1", "0", "1"]}, {"type": "int"},
    {"type": "r4"}, {"type": "r8", "min": "0.5", "max": "10"}, {"type": "number", "allowed": ["1.5", "2"]},
    {"type": "fixed.14.4", "max": "1e3"}, {"type": "float"},
    {"type": "char"}, {"type": "string"}, {"type": "string", "allowed": ["x", "y", "On"]},
    {"type": "boolean"}, {"type": "bin.base64"}, {"type": "bin.hex"}, {"type": "uri", "allowed": ["http://a/", "x"]}, {"type": "uuid"},
    {"type": "date"}, {"type": "date", "min": "2000-01-01", "max": "2030-12-31"},
    {"type": "dateTime"}, {"type": "dateTime", "min": "2000-01-01T00:00:00", "max": "2030-01-01T00:00:00"},
    {"type": "dateTime.tz"}, {"type": "dateTime.tz", "min": "2000-01-01T00:00:00+00:00"},
    {"type": "time"}, {"type": "time", "max": "12:00:00"}, {"type": "time.tz"}, {"type": "time.tz", "allowed": ["05:06:07-05:00", "05:06:07Z"][:1]},
]
NAMES = ["A", "B", "Vol", "Mute", "x1"]
INT_TEXTS = ["5", "0", "100", "101", "-1", "-5", "-6", "7", "8", " 42 ", "+3", "1_0", "70000", "2", "9", "1",
             "abc", "", "1.5", "0x10", "5 5", "--1", "_1", "1_", "\t3\n"]
FLOAT_TEXTS = ["1.5", "2", "0.5", "10", "10.5", "-0.0", "1e3", "1e4", " 2.5 ", "inf", "-inf", "nan", ".5", "5.", "1_0.5",
               "abc", "", "1,5", "0x1p3", "1.5.2", "--1"]
BOOL_TEXTS = ["1", "0", "true", "TRUE", "Yes", "no", "false", "maybe", "", " 1"]
STR_TEXTS = ["x", "y", "On", "on", "z", "", "hello world", "<&>", " x", "X", "http://a/"]
DATE_TEXTS = ["2021-03-04", "2000-01-01", "1999-12-31", "2031-01-01", "2020-02-29", "2021-02-29", "2021-13-01", "0000-01-01",
              "2021-3-4", "20210304", "2021-03-04T05:06:07", "2021-03-04 ", "", "abc"]
DT_TEXTS = ["2021-03-04T05:06:07", "2021-03-04 05:06:07", "2021-03-04T05:06:07Z", "2021-03-04T05:06:07z",
            "2021-03-04T05:06:07+0100", "2021-03-04T05:06:07-0500", "2021-03-04T05:06:07+01:00", "2021-03-04T05:06:07-05:00",
            "2021-03-04T05:06:07 +0100", "2021-03-04T05:06:07 -05:00", "1999-01-01T00:00:00-05:00", "2035-01-01T00:00:00+0000",
            "1999-12-31T23:59:59", "2030-01-01T00:00:00", "2021-03-04T05:06:07+23:59", "2021-03-04T05:06:07-00:00",
            # near misses
            "2021-03-04T05:06", "2021-03-04T25:06:07", "2021-03-04T05:06:60", "2021-03-04T05:06:07+1:00", "2021-03-04T05:06:07-05:0",
            "2021-03-04T05:06:07+24:00", "2021-03-04T05:06:07+0160", "2021-03-04t05:06:07", "2021-03-04T05:06:07  +0100",
            "2021-03-04", "05:06:07", "", "abc", "12:00", "2021-02-30T00:00:00"]
TIME_TEXTS = ["05:06:07", "00:00:00", "12:00:00", "12:00:01", "23:59:59", "05:06:07+0100", "05:06:07-0500", "05:06:07+01:00",
              "05:06:07-05:00", "05:06:07 +0100", "05:06:07 -05:00",
              "24:00:00", "5:06:07", "05:06", "05:06:07Z", "05:06:07+1:00", "05:06:60", "", "abc", "12:00", "2021-03-04T05:06:07"]
NSS = ["", "", "", "urn:q", c09env.EVENT_NS, "urn:schemas-upnp-org:metadata-1-0/AVT/"]
INT_TYPES = {"ui1", "ui2", "ui4", "ui8", "i1", "i2", "i4", "i8", "int"}
STR_TYPES = {"char", "string", "bin.base64", "bin.hex", "uri", "uuid"}


def rand_vars(rng, nsvc):
    out = []
    for _ in range(nsvc):
        n = rng.randrange(1, 5)
        names = rng.sample(NAMES, n)
        out.append([dict(rng.choice(VAR_KINDS), name=nm, send=rng.choice(["yes", "yes", "no", None])) for nm in names])
    return out


def text_for(rng, decl):
    t = decl["type"]
    if t == "boolean":
        return rng.choice(BOOL_TEXTS)
    if t in STR_TYPES:
        return rng.choice(STR_TEXTS)
    if t in c09env.FLOAT_TYPES:
        return rng.choice(FLOAT_TEXTS)
    if t == "date":
        return rng.choice(DATE_TEXTS)
    if t in ("dateTime", "dateTime.tz"):
        return rng.choice(DT_TEXTS)
    if t in ("time", "time.tz"):
        return rng.choice(TIME_TEXTS)
    return rng.choice(INT_TEXTS)


def rand_body(rng, decls, dup_ok: bool):
    kids = []
    names = [d["name"] for d in decls]
    pool = list(decls)
    rng.shuffle(pool)
    n = rng.randrange(0, len(pool) + 1)
    for d in pool[:n]:
        kids.append([rng.choice(NSS), d["name"], text_for(rng, d)])
    for _ in range(rng.randrange(0, 3)):   # unknown names
        nm = rng.choice(["Zed", "Other", "a"])
        if nm not in names and nm not in [k[1] for k in kids]:
            kids.append([rng.choice(NSS), nm, rng.choice(STR_TEXTS + INT_TEXTS)])
    if dup_ok and kids and rng.randrange(6) == 0:   # a variable named again with the same tag: the last text is the event's value
        k0 = rng.choice(kids)
        d = next((d_ for d_ in decls if d_["name"] == k0[1]), None)
        kids.append([k0[0], k0[1], text_for(rng, d) if d else "dup"])
    if dup_ok and kids and rng.randrange(30) == 0:  # `x` and `{ns}x` mixed in one event: compared, not judged
        d = rng.choice(decls)
        kids.append([rng.choice(["urn:other", ""]), d["name"], text_for(rng, d)])
    rng.shuffle(kids)
    nprop = rng.randrange(1, 4)
    els = [{"p": True, "kids": []} for _ in range(nprop)]
    for kd in kids:
        els[rng.randrange(nprop)]["kids"].append(kd)
    if rng.randrange(5) == 0:
        d = rng.choice(decls)
        els.insert(rng.randrange(len(els) + 1), {"p": False, "kids": [["", d["name"], text_for(rng, d)]]})
    return els


def rand_notify(rng, svc_vars, routed):
    nt = NT_OK if rng.randrange(8) else rng.choice([None, "upnp:other", ""])
    nts = NTS_OK if rng.randrange(8) else rng.choice([None, "upnp:propchanged", "UPNP:PROPCHANGE"])
    c = rng.randrange(10)
    if c < 7 and routed:
        sid = rng.choice(list(routed))
        decls = svc_vars[routed[sid]]
    elif c < 9:
        sid = "uuid:zz"
        decls = rng.choice(svc_vars)
    else:
        sid = None
        decls = rng.choice(svc_vars)
    if rng.randrange(6) == 0:     # body written for another service (foreign SID)
        decls = rng.choice(svc_vars)
    pad = rng.choice(["", "", "\n", " \t\r\n", "\0", "\r\n\0 "])
    return ["notify", nt, nts, sid, rand_body(rng, decls, True), pad]


def rand_recipe(rng, n_notifies):
    nsvc = rng.randrange(1, 4)
    svc_vars = rand_vars(rng, nsvc)
    routed = {}
    ops = []
    for i in range(nsvc):
        if rng.randrange(6):
            routed[SIDS[i]] = i
            ops.append(["route", SIDS[i], i])
    for _ in range(n_notifies):
        ops.append(rand_notify(rng, svc_vars, routed))
        c = rng.randrange(8)
        if c < 2:            # the same event again, byte for byte: it must be applied and reported again (new updated_at, callback)
            a = ops[-1] = ops[-1][:6] + [0]
            ops.append(list(a))
        elif c == 2:         # A-B-A across events
            a = ops[-1] = ops[-1][:6] + [0]
            b = rand_notify(rng, svc_vars, routed)[:6] + [0]
            b[3] = a[3]
            ops.extend([b, list(a)])
        if routed and rng.randrange(25) == 0:
            sid = rng.choice(list(routed))
            del routed[sid]
            ops.append(["unroute", sid])
    return {"vars": svc_vars, "ops": ops}


V2 = [[{"name": "A", "type": "ui2", "min": 0, "max": 100}, {"name": "B", "type": "string", "allowed": ["x", "y"]},
       {"name": "C", "type": "boolean", "send": "no"}, {"name": "D", "type": "i4", "send": None}, {"name": "T", "type": "dateTime"},
       {"name": "Z", "type": "dateTime.tz"}, {"name": "W", "type": "time.tz"}, {"name": "F", "type": "r8", "min": "0.5", "max": "10"}],
      [{"name": "A", "type": "i4"}, {"name": "E", "type": "string"}]]


def P(*kids):
    return {"p": True, "kids": [list(k) for k in kids]}


CORPUS = [
    # the test-suite shape: one event, two variables
    {"vars": V2, "ops": [["route", "uuid:s0", 0], ["route", "uuid:s1", 1],
                         ["notify", NT_OK, NTS_OK, "uuid:s0", [P(("", "A", "5")), P(("urn:q", "B", "y"))], ""]]},
    # every header failure
    {"vars": V2, "ops": [["route", "uuid:s0", 0]] + [["notify", nt, nts, sid, [P(("", "A", "5"))], ""]
                                                    for nt in (NT_OK, None, "x") for nts in (NTS_OK, None, "x") for sid in ("uuid:s0", None, "uuid:zz")]},
    # per-property isolation: unconvertible, out of range, not allowed, unknown, then a good one (F10a shape)
    {"vars": V2, "ops": [["route", "uuid:s0", 0], ["notify", NT_OK, NTS_OK, "uuid:s0", [P(("", "A", "50"), ("", "B", "x"), ("", "C", "1"), ("", "D", "7"))], "\n"],
                         ["notify", NT_OK, NTS_OK, "uuid:s0", [P(("", "D", "zz"), ("", "A", "500"), ("", "B", "q"), ("", "Zed", "1"), ("", "C", "no"))], ""],
                         ["notify", NT_OK, NTS_OK, "uuid:s0", [P(("", "D", ""), ("", "A", "100"))], "\0"],
                         ["notify", NT_OK, NTS_OK, "uuid:s0", [], ""]]},
    # F10a: a short malformed dateTime used to raise IndexError out of handle_notify, losing the other properties
    {"vars": V2, "ops": [["route", "uuid:s0", 0], ["notify", NT_OK, NTS_OK, "uuid:s0", [P(("", "T", "abc"), ("", "A", "9"))], ""],
                         ["notify", NT_OK, NTS_OK, "uuid:s0", [P(("", "A", "10"), ("", "T", ""), ("", "C", "1"))], ""]]},
    # round 2: negative colon offsets on dateTime / dateTime.tz / time.tz (a regression here used to be invisible), floats
    {"vars": V2, "ops": [["route", "uuid:s0", 0],
                         ["notify", NT_OK, NTS_OK, "uuid:s0", [P(("", "T", "2021-03-04T05:06:07-05:00"), ("", "Z", "2021-03-04T05:06:07-05:00"),
                                                                ("", "W", "05:06:07-05:00"), ("", "F", "2.5"))], ""],
                         ["notify", NT_OK, NTS_OK, "uuid:s0", [P(("", "T", "2021-03-04T05:06:07+01:00"), ("", "Z", "2021-03-04T05:06:07"),
                                                                ("", "W", "05:06:07 -0500"), ("", "F", "11"))], ""],
                         ["notify", NT_OK, NTS_OK, "uuid:s0", [P(("", "Z", "2021-03-04T05:06:07Z"), ("", "W", "05:06:07"), ("", "F", "nan"))], ""]]},
    # round 3: the same property set twice in a row and A-B-A across events (byte-identical requests): every event is applied and
    # reported — updated_at moves, the callback runs and lists the variable although its value did not change
    {"vars": V2, "ops": [["route", "uuid:s0", 0],
                         ["notify", NT_OK, NTS_OK, "uuid:s0", [P(("", "A", "10"), ("", "B", "x"))], "", 0],
                         ["notify", NT_OK, NTS_OK, "uuid:s0", [P(("", "A", "10"), ("", "B", "x"))], "", 0],
                         ["notify", NT_OK, NTS_OK, "uuid:s0", [P(("", "A", "20"))], "", 0],
                         ["notify", NT_OK, NTS_OK, "uuid:s0", [P(("", "A", "10"), ("", "B", "x"))], "", 0],
                         ["notify", NT_OK, NTS_OK, "uuid:s0", [], "", 0], ["notify", NT_OK, NTS_OK, "uuid:s0", [], "", 0]]},
    # foreign SID: the other service's variables with the same name stay untouched
    {"vars": V2, "ops": [["route", "uuid:s0", 0], ["route", "uuid:s1", 1], ["notify", NT_OK, NTS_OK, "uuid:s1", [P(("", "A", "-7"), ("", "E", "t"))], ""],
                         ["notify", NT_OK, NTS_OK, "uuid:s0", [P(("", "A", "7")), {"p": False, "kids": [["", "B", "y"]]}], ""]]},
    # a variable named twice with the same tag: the last text counts (5 then 500 -> out of range -> old value kept; 500 then 5 -> 5)
    {"vars": V2, "ops": [["route", "uuid:s0", 0], ["notify", NT_OK, NTS_OK, "uuid:s0", [P(("", "A", "5"), ("", "B", "x"), ("", "A", "500"))], ""],
                         ["notify", NT_OK, NTS_OK, "uuid:s0", [P(("urn:q", "A", "500")), P(("urn:q", "A", "7"), ("urn:q", "A", "8"))], ""]]},
    # `A` and `{ns}A` mixed (dict order decides; compared, outside the judge)
    {"vars": V2, "ops": [["route", "uuid:s0", 0], ["notify", NT_OK, NTS_OK, "uuid:s0", [P(("", "A", "5"), ("urn:q", "A", "6"), ("", "A", "500"))], ""]]},
]


def generate(ctx: Ctx) -> List[Case]:
    rng = ctx.rng
    cases = [run_recipe(ctx, rec, f"corpus{i}") for i, rec in enumerate(CORPUS)]
    n_cases = 6000 if ctx.thorough else 220
    for i in range(n_cases):
        cases.append(run_recipe(ctx, rand_recipe(rng, rng.randrange(3, 21 if ctx.thorough else 11)), f"g{i}"))
    return cases


def signature(case: Case, verdict) -> str:
    return f"C10 {verdict.notes[:300]}"
