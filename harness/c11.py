"""C11 correspondence harness: a deterministic scheduler interleaves the arrival of NOTIFY requests with the completion
of parked `async_subscribe` calls on the real `UpnpEventHandler`; every schedule is replayed by the Lean model `C11.step`
and judged by `C11.ok` on the implementation's own observations.  See design/C11.md."""
from __future__ import annotations

import asyncio
import itertools
import multiprocessing
from datetime import timedelta
from typing import Any, Dict, List

from harness import c09env
from harness.c09 import r_tok
from harness.common import tok_str
from vk.core import Case, Ctx

GEN_MODULES: List[str] = ["C09Gena", "C10Notify", "C08Types", "C11Race"]
MANIFEST = {
    "design_ref": "§5 C11",
    "text": ("Lean theorems over the event-driven model (subscribe started / NOTIFY arrived / SUBSCRIBE response arrived; "
             "response handling = C09.subscribeFinish + replay of the per-SID backlog in arrival order; NOTIFY = C10.handleNotify): "
             "c11_schedules — for EVERY schedule inside the domain (one subscribe per service, distinct SIDs, well-formed property "
             "sets) the model's observations satisfy the judge C11.ok: every NOTIFY with valid headers is answered 200, and after "
             "every event each variable is absent if no NOTIFY for the SID granted to its service carried it and otherwise holds "
             "the value of the latest such NOTIFY (if valid) — so early NOTIFYs are not lost and NOTIFYs for never-granted SIDs "
             "affect no service; early_notify_200, ungranted_inert, no_loss corollaries.  The same C11.ok judges the real handler "
             "under a deterministic scheduler that enumerates the interleavings."),
    "note": ("Trusted: Lean kernel + standard axioms; asyncio atomicity between awaits (handle_notify never suspends; the tail of "
             "async_subscribe runs to completion once the requester's future is done) — the model's event granularity; XML "
             "text<->tree not modelled; data types as in C10; schedules are enumerated exhaustively only up to 3-4 NOTIFYs over a "
             "small alphabet, random beyond."),
    "technique": "Lean 4 proof (simulation invariant over event schedules) + deterministic scheduler over the real coroutines + correspondence",
}
RULE = ("schedules over {async_subscribe(svc) started, NOTIFY arrives, SUBSCRIBE response arrives}. Exhaustive part (thorough): both "
        "subscribes started, then ALL interleavings of NOTIFY#0..#k with the response of service 0 and the completion of service 1's "
        "subscribe, for EVERY assignment of a non-empty subset of two variables and of a SID to each NOTIFY — k<=2 with SIDs {service "
        "0's, service 1's, never granted}, k=3 with SIDs {service 0's, never granted} (quick: one NOTIFY fewer, k=2 for service 0's SID "
        "only); every SEQUENCE (with repetition: A-B-A, A-A-B, A-B-B-A) of k<=3 (thorough 4) bodies over a 4-body alphabet as byte-identical "
        "early NOTIFYs at every response position, the same bodies for two SIDs; every enumerated schedule once with plain SIDs and once "
        "more with device-style SIDs (upper-case hex, mixed case, digits, '_', '-') or with three SIDs that differ ONLY in case (two "
        "granted to different subscriptions, one never granted: events go to exactly the verbatim SID); "
        "every enumerated schedule once with an on_event callback on the services and once with none (the default; state read from the "
        "variables); plus random schedules over 1..3 services (SIDs plain / random over that alphabet / random case variants of one SID) with refused / unreachable / SID-less responses, invalid headers and values, "
        "verbatim repeats; "
        "after every event the status / returned value and every variable of every service are compared and judged. "
        "non-trivial = at least one NOTIFY arrived before the response that granted its SID")
EXHAUSTIVE = {"quick": False, "thorough": True}
ASSUMPTIONS = [
    "asyncio atomicity between awaits; that handle_notify and the tail of async_subscribe contain no other suspension point is read "
    "from the source (Gen.C11Race, theorem atomicity_pinned) and probed: the scheduler steps the completing call turn by turn and "
    "delivers the next NOTIFYs of the schedule while it has not returned",
    "one subscribe call at a time per service, none after a grant (a failed call may be repeated); SIDs granted at most once",
    "property sets are well-formed XML naming each variable at most once; ASCII values",
]
TRUSTED = ["C11: asyncio FIFO scheduling and the parked-future requester stand for the network"]

NT_OK, NTS_OK = "upnp:event", "upnp:propchange"
V2 = [[{"name": "A", "type": "ui2", "min": 0, "max": 100}, {"name": "B", "type": "string"}, {"name": "C", "type": "boolean"}],
      [{"name": "A", "type": "i4"}, {"name": "D", "type": "string", "allowed": ["x", "y"]}]]


class Hang(Exception):
    """an event of the real code did not finish (e.g. a replay loop feeding itself)"""


HANGS = [0]   # events that did not finish in this process; exploration stops after a few (each costs a timer period)


def _alarm(signum, frame):
    HANGS[0] += 1
    raise Hang()


class watchdog:
    """handle_notify and the tail of async_subscribe never yield to the loop, so a non-terminating one can only be
    interrupted by a signal; 0.5 s of CPU time per event is three orders of magnitude above the normal cost"""

    def __enter__(self):
        import signal
        # CPU time of this process, not wall-clock time: a descheduled process on a loaded machine must not look hung
        self.old = signal.signal(signal.SIGVTALRM, _alarm)
        signal.setitimer(signal.ITIMER_VIRTUAL, 0.5)

    def __exit__(self, *a):
        import signal
        signal.setitimer(signal.ITIMER_VIRTUAL, 0)
        signal.signal(signal.SIGVTALRM, self.old)
        return False


VIA = ["direct"]
NSEQ = [0]


async def deliver(eh, nt, nts, sid, body, pad, style, tags) -> str:
    """one NOTIFY reaches the library: directly at `handle_notify`, or — what the publisher really does — as a request to
    `AiohttpNotifyServer._handle_request` (headers as aiohttp presents them); status and effect must be the same"""
    NSEQ[0] += 1
    server = VIA[0] == "server" or (VIA[0] == "mix" and NSEQ[0] % 2 == 0)
    try:
        with watchdog():
            hdrs, text = c09env.notify_headers(nt, nts, sid, style), c09env.render_body(body, pad, style)
            if server:
                st = await c09env.notify_via_server(eh, hdrs, text)
                tags.add("via:notify-server")
            else:
                st = await eh.handle_notify(hdrs, text)
                tags.add("via:direct")
        return f"out notified status {int(st)}"
    except Exception as e:  # noqa: BLE001
        tags.add("exc:" + c09env.exc_tok(e))
        return "out notified exc " + c09env.exc_tok(e)


async def settle():
    for _ in range(6):
        await asyncio.sleep(0)


async def _run(recipe, lines, tags):
    svc_vars = recipe.get("vars", V2)
    lines.append(f"cfg {tok_str(c09env.HOST)} {tok_str(c09env.CALLBACK)}")
    lines.extend(c09env.fdecl_lines(svc_vars, texts_of(recipe)))
    lines.extend(c09env.decl_lines(svc_vars))
    try:
        NSEQ[0] = 0
        via = recipe.get("via", "direct")     # direct | server | mix: how NOTIFYs reach the handler
        rq, eh, svcs = await c09env.make_env(svc_vars, aiohttp_server=via != "direct")
        VIA[0] = via
    except Exception as e:  # noqa: BLE001
        lines.append("factoryfail " + c09env.exc_tok(e))
        tags.add("factoryfail")
        return False
    c09env.install_clock()
    cb_count = [0] * len(svcs)
    nocb = bool(recipe.get("nocb"))
    for i, s_ in enumerate(svcs):
        if nocb:
            # the service has NO on_event callback (the default): state is observed by reading the variables; the "callback" count
            # is the number of times the service was told about an event (its notify_changed_state_variables was called)
            def _told(changes, i_=i, orig=s_.notify_changed_state_variables):
                cb_count[i_] += 1
                return orig(changes)
            s_.notify_changed_state_variables = _told
            continue

        def _cb(svc, vs, i_=i):
            cb_count[i_] += 1
        s_.on_event = _cb
    if nocb:
        tags.add("no-on_event")
    loop = asyncio.get_running_loop()
    futs: Dict[int, asyncio.Future] = {}
    tasks: Dict[int, asyncio.Task] = {}
    started = set()

    def park(method, url, headers):
        i = c09env.svc_index(url)
        futs[i] = loop.create_future()
        return futs[i]

    rq.park = park
    k = 0
    nontrivial = False
    early = set()
    routed = set()
    ops = recipe["ops"]
    pre: Dict[int, str] = {}     # NOTIFYs already delivered while a subscribe call was completing: op index -> `out` line
    for idx, op in enumerate(ops):
        kind = op[0]
        c09env.TICK[0] = k
        if kind == "start":
            _, i, t = op
            if not 0 <= i < len(svcs):
                continue
            if i in tasks:
                lines.append(f"ev start {i} {t}")
                lines.append("out nothing")
            else:
                del rq.log[:]
                tasks[i] = loop.create_task(eh.async_subscribe(svcs[i], timedelta(seconds=t)))
                await settle()
                lines.append(f"ev start {i} {t}")
                method, url, headers = rq.log[-1][:3]
                hs = ",".join(f"{k_}={tok_str(v)}" for k_, v in sorted((k2.upper(), str(v2)) for k2, v2 in headers.items()))
                lines.append(f"out sent {method} {c09env.svc_index(url)} {hs}")
        elif kind == "notify":
            _, nt, nts, sid, body = op[:5]
            pad = op[5] if len(op) > 5 else ""
            style = op[6] if len(op) > 6 and op[6] is not None else k   # a fixed style makes repeated NOTIFYs byte-identical
            lines.append(f"ev notify {c09env.opt_tok(nt)} {c09env.opt_tok(nts)} {c09env.opt_tok(sid)} {c09env.body_tok(body)}")
            if sid is not None and sid not in routed:
                early.add(sid)
            if idx in pre:
                lines.append(pre[idx])       # it arrived while the previous subscribe call was between wake-up and return
            else:
                lines.append(await deliver(eh, nt, nts, sid, body, pad, style, tags))
            tags.add("notify:" + ("early" if sid not in routed else "live"))
        elif kind == "respond":
            _, i, react = op
            if not 0 <= i < len(svcs):
                continue
            lines.append(f"ev respond {i} {r_tok(react)}")
            if i not in tasks or tasks[i].done() or i not in futs or futs[i].done():
                lines.append("out nothing")
            else:
                futs[i].set_result(tuple(react))
                hung = False
                try:
                    with watchdog():
                        # step the completing call one loop turn at a time; while it has woken up but not returned, the next
                        # NOTIFYs of the schedule arrive NOW (on the unchanged code the call returns within the first turn)
                        await asyncio.sleep(0)
                        j = idx + 1
                        for _turn in range(6):
                            if tasks[i].done():
                                break
                            if j < len(ops) and ops[j][0] == "notify":
                                o = ops[j]
                                c09env.TICK[0] = k + (j - idx)
                                st_ = o[6] if len(o) > 6 and o[6] is not None else k + (j - idx)
                                pre[j] = await deliver(eh, o[1], o[2], o[3], o[4], o[5] if len(o) > 5 else "", st_, tags)
                                tags.add("notify:inside-completing-call")
                                j += 1
                            await asyncio.sleep(0)
                        c09env.TICK[0] = k
                        await settle()
                except Hang:
                    hung = True
                    eh._backlog.clear()   # free what a self-feeding replay accumulated
                t = tasks.pop(i)
                try:
                    if hung:
                        t.cancel()
                        raise Hang()
                    sid, td = t.result()
                    lines.append(f"out returned sub {tok_str(sid)} {c09env.td_seconds(td)}")
                    routed.add(sid)
                    if sid in early:
                        nontrivial = True
                        tags.add("replayed")
                except Exception as e:  # noqa: BLE001
                    lines.append("out returned exc " + c09env.exc_tok(e))
                    if isinstance(e, Hang):
                        eh._backlog.clear()
                        tags.add("hang")
                tags.add("respond:" + (react[0] if react[0] != "resp" else str(react[1])))
        else:
            raise ValueError(kind)
        for i, s in enumerate(svcs):
            lines.append(c09env.state_line(i, s))
        lines.append("cb " + (",".join(str(c) for c in cb_count) or "~"))
        k += 1
    for t in tasks.values():
        t.cancel()
    await settle()
    rq.park = None
    return nontrivial


def texts_of(recipe):
    out = []
    for op in recipe["ops"]:
        if op[0] == "notify" and op[4] != "#":
            for el in op[4]:
                for ns, name, text in el["kids"]:
                    out.append((name, text))
    return out


def run_recipe(ctx: Ctx, recipe: Dict[str, Any], cid: str) -> Case:
    lines: List[str] = []
    tags = set()
    nontrivial = c09env.run(_run(recipe, lines, tags))
    return Case(cid, lines, recipe, bool(nontrivial), sorted(tags))


# ---------------------------------------------------------------------------------------------
# generators

S0, S1, S9 = "uuid:s0", "uuid:s1", "uuid:never"


def P(*kids):
    return {"p": True, "kids": [list(k) for k in kids]}


def notify(sid, kids, nt=NT_OK, nts=NTS_OK, pad=""):
    return ["notify", nt, nts, sid, [P(*kids)] if kids else [], pad]


def same(sid, kids):
    """a NOTIFY whose headers and body text depend on (sid, kids) only: sending it again is a byte-identical request"""
    return ["notify", NT_OK, NTS_OK, sid, [P(*kids)] if kids else [], "", 0]


# bodies over a two-letter value alphabet per variable: sequences WITH repetition (A-B-A, A-A-B, A-B-B-A …)
# SIDs as devices spell them: upper-case hex, mixed case, digits, '_' and '-'.  A SID is an opaque token: events are routed to exactly
# the SID the SUBSCRIBE response spelled, never to a case variant of it.  Every enumerated schedule is run once with the plain SIDs
# and once more with one of these spellings (the structure of the schedule is unchanged, only the three SID strings are renamed).
SID_STYLES = [
    # realistic, unrelated
    {S0: "uuid:4C49-aB_7x", S1: "uuid:RINCON_000E58A1B2C301400_sub0000000042", S9: "uuid:Never-9F"},
    # the three SIDs differ ONLY in case: two subscriptions granted case variants of each other, a third variant never granted
    {S0: "uuid:AbCd-01_x", S1: "uuid:abcd-01_X", S9: "UUID:ABCD-01_X"},
    {S0: "uuid:abcd-01_x", S1: "uuid:ABCD-01_X", S9: "uuid:Abcd-01_x"},
]
SID_ALPHABET = "ABCDEFabcdef0123456789RINCONrincon_-"


def with_sids(recipe, style):
    """the same schedule with its SIDs renamed (NOTIFY headers and SUBSCRIBE responses alike)"""
    ops = []
    for op in recipe["ops"]:
        op = list(op)
        if op[0] == "notify" and op[3] in style:
            op[3] = style[op[3]]
        elif op[0] == "respond" and op[2][0] == "resp" and op[2][2] in style:
            op[2] = [op[2][0], op[2][1], style[op[2][2]], op[2][3]]
        ops.append(op)
    return dict(recipe, ops=ops)


def rand_sids(rng, n):
    """n + 1 distinct SIDs (the last one is never granted): plain, realistic, or case variants of ONE realistic SID"""
    c = rng.randrange(4)
    if c == 0:
        return [f"uuid:s{i}" for i in range(n)] + [S9]
    base = "uuid:" + "".join(rng.choice(SID_ALPHABET) for _ in range(rng.randrange(4, 25)))
    if c == 1 or not any(ch.isalpha() for ch in base[5:]):
        out = []
        while len(out) < n + 1:
            sid = "uuid:" + "".join(rng.choice(SID_ALPHABET) for _ in range(rng.randrange(4, 25)))
            if sid not in out:
                out.append(sid)
        return out
    out = [base]
    for _ in range(200):
        if len(out) == n + 1:
            break
        v = "".join(ch.upper() if rng.randrange(2) else ch.lower() for ch in base)
        if v not in out:
            out.append(v)
    while len(out) < n + 1:
        out.append(base + "-" + str(len(out)))
    rng.shuffle(out)
    return out


REP_BODIES = [[["", "A", "10"]], [["", "A", "20"]], [["", "A", "10"], ["", "B", "x"]], [["", "B", "y"]]]


def repeated(ctx: Ctx):
    """early NOTIFYs are a SEQUENCE, not a set: every sequence of k<=3 (quick) / k<=4 (thorough) bodies over REP_BODIES for the SID
    being granted, byte-identical repeats included, with the response at every position; and the same bodies sent for two SIDs"""
    out = []
    for m in ((3, 4) if ctx.thorough else (3,)):
        for seq in itertools.product(range(len(REP_BODIES)), repeat=m):
            if len(set(seq)) == m and m == 4:
                continue     # no repetition at all: covered by the other enumeration
            ns = [same(S0, REP_BODIES[b]) for b in seq]
            for p0 in range(m + 1):
                ev = list(ns)
                ev.insert(p0, grant(0, S0))
                out.append({"ops": [["start", 0, 1800]] + ev})
    # the same body for two different SIDs, both granted (quick: two bodies; thorough: three), all response positions
    bodies = REP_BODIES[:3] if ctx.thorough else REP_BODIES[:2]
    for seq in itertools.product(itertools.product([S0, S1], range(len(bodies))), repeat=3):
        if len({b for _, b in seq}) == 3:
            continue
        ns = [same(sid, bodies[b]) for sid, b in seq]
        for ops in interleavings(ns, grant(0, S0), grant(1, S1, None)):
            out.append({"ops": ops})
    return out


def grant(i, sid, tmo="Second-300"):
    return ["respond", i, ["resp", 200, sid, tmo]]


# what NOTIFY number j may carry: a non-empty subset of {A, B}; the value identifies the NOTIFY
def carry(j, subset):
    kids = []
    if "A" in subset:
        kids.append(["", "A", str(10 * (j + 1))])
    if "B" in subset:
        kids.append(["urn:q" if j % 2 else "", "B", f"v{j}"])
    return kids


SUBSETS = [("A",), ("B",), ("A", "B")]


def interleavings(notifies, r0, r1):
    """all positions of the two responses among the NOTIFYs (which keep their order); both subscribes are started first"""
    m = len(notifies)
    for p0 in range(m + 1):
        for p1 in range(m + 2):
            seq = list(notifies)
            seq.insert(p0, r0)
            seq.insert(p1, r1)
            yield [["start", 0, 1800], ["start", 1, 600]] + seq


def exhaustive(ctx: Ctx):
    out = []
    sids = [S0, S1, S9]
    max_full = 3 if ctx.thorough else 2
    for m in range(1, max_full + 1):
        for choice in itertools.product(itertools.product(sids, SUBSETS), repeat=m):
            ns = [notify(sid, carry(j, sub)) for j, (sid, sub) in enumerate(choice)]
            for seq in interleavings(ns, grant(0, S0), grant(1, S1, None)):
                out.append({"ops": seq})
    # one more NOTIFY (k = 3 in thorough): SIDs of the subscribing service / never granted
    m = max_full + 1
    for choice in itertools.product(itertools.product([S0, S9] if ctx.thorough else [S0], SUBSETS), repeat=m):
        ns = [notify(sid, carry(j, sub)) for j, (sid, sub) in enumerate(choice)]
        for seq in interleavings(ns, grant(0, S0), ["respond", 1, ["resp", 500, None, None]]):
            out.append({"ops": seq})
    # the SUBSCRIBE fails (refused / unreachable / no SID) with NOTIFYs backlogged, then is repeated and granted the same SID:
    # all positions of two NOTIFYs around {failure, second start, grant}
    for fail in (["resp", 500, None, None], ["connerr"], ["resp", 200, None, None]):
        for subs in itertools.product(SUBSETS, repeat=2):
            ns = [notify(S0, carry(j, sub)) for j, sub in enumerate(subs)]
            ctl = [["respond", 0, fail], ["start", 0, 600], grant(0, S0)]
            for pos in itertools.combinations(range(5), 2):     # where the two NOTIFYs sit among the 5 events
                seq, ci, ni = [], 0, 0
                for k in range(5):
                    if k in pos:
                        seq.append(ns[ni]); ni += 1
                    else:
                        seq.append(ctl[ci]); ci += 1
                out.append({"ops": [["start", 0, 1800]] + seq})
    return out


NAMES = ["A", "B", "C", "D", "Vol"]
KINDS = [{"type": "ui2", "min": 0, "max": 100}, {"type": "i4"}, {"type": "boolean"}, {"type": "string"},
         {"type": "string", "allowed": ["x", "y"]}, {"type": "dateTime.tz"}, {"type": "r8", "min": "0.5"}]
TEXTS = {"ui2": ["1", "50", "100", "7", "101", "abc", ""], "i4": ["-3", "0", "12", " 4 ", "zz"],
         "boolean": ["1", "0", "true", "no", "?"], "string": ["x", "y", "hello", "", "z"],
         "dateTime.tz": ["2021-03-04T05:06:07-05:00", "2021-03-04T05:06:07+0100", "2021-03-04T05:06:07Z", "2021-03-04T05:06:07", "x"],
         "r8": ["1.5", "0.25", "nan", "abc", " 2 "]}


def rand_recipe(rng):
    nsvc = rng.randrange(1, 4)
    svc_vars = []
    for _ in range(nsvc):
        names = rng.sample(NAMES, rng.randrange(1, 4))
        svc_vars.append([dict(rng.choice(KINDS), name=n) for n in names])
    sids = rand_sids(rng, nsvc)
    never = sids[-1]
    ops = []
    pending_resp = []
    for i in range(nsvc):
        if rng.randrange(8):
            ops.append(["start", i, rng.choice([1800, 300, 0])])
            c = rng.randrange(10)
            if c < 7:
                react = ["resp", 200, sids[i], rng.choice([None, "Second-300", "Second-infinite"])]
            elif c == 7:
                react = ["resp", rng.choice([412, 500]), None, None]
            elif c == 8:
                react = ["resp", 200, None, None]
            else:
                react = [rng.choice(["connerr", "timeout"])]
            pending_resp.append(["respond", i, react])
    events = list(pending_resp)
    for j in range(rng.randrange(1, 9)):
        sid = rng.choice(sids)
        i = sids.index(sid) if sid != never else rng.randrange(nsvc)
        decls = svc_vars[i]
        pool = list(decls)
        rng.shuffle(pool)
        kids = [[rng.choice(["", "", "urn:q"]), d["name"], rng.choice(TEXTS[d["type"]])] for d in pool[:rng.randrange(0, len(pool) + 1)]]
        if rng.randrange(6) == 0:
            kids.append(["", "Zed", "1"])
        if rng.randrange(15) == 0 and kids:   # a variable named twice (same tag: the last text counts)
            kids.append(list(kids[0]))
        nt = NT_OK if rng.randrange(10) else rng.choice([None, "x"])
        nts = NTS_OK if rng.randrange(10) else rng.choice([None, "x"])
        if rng.randrange(40) == 0:
            events.append(["notify", nt, nts, sid, "#", ""])      # not XML: compared, judging stops
        else:
            events.append(notify(sid if rng.randrange(12) else None, kids, nt, nts, rng.choice(["", "\n", "\0"])))
    notifs = [e for e in events if e[0] == "notify" and e[4] != "#"]
    for _ in range(rng.randrange(0, 3)):      # the same NOTIFY again, byte for byte (fixed style), possibly for another SID
        if notifs:
            src = rng.choice(notifs)
            dup = list(src[:6]) + [0]
            src_fixed = list(src[:6]) + [0]
            events[events.index(src)] = src_fixed
            notifs[notifs.index(src)] = src_fixed
            if rng.randrange(3) == 0:
                dup[3] = rng.choice(sids)
            events.append(dup)
    rng.shuffle(events)
    if rng.randrange(6) == 0:   # a repeated subscribe: in the domain after a failure, outside it after a grant / while one is parked
        i = rng.randrange(nsvc)
        events.insert(rng.randrange(len(events) + 1), ["start", i, 60])
        events.insert(rng.randrange(len(events) + 1), ["respond", i, ["resp", 200, rng.choice(sids), None]])
    return {"vars": svc_vars, "ops": ops + events}


CORPUS = [
    # F11a: NOTIFY{A=1,B=x}, NOTIFY{A=2}, then the SUBSCRIBE response: B used to be lost (one backlog slot per SID)
    {"ops": [["start", 0, 1800], notify(S0, [["", "A", "1"], ["", "B", "x"]]), notify(S0, [["", "A", "2"]]), grant(0, S0)]},
    {"ops": [["start", 0, 1800], ["start", 1, 1800], notify(S0, [["", "B", "first"]]), notify(S1, [["", "A", "-4"]]), notify(S0, [["", "A", "3"]]),
             notify(S9, [["", "A", "99"]]), grant(1, S1), notify(S0, [["", "C", "yes"]]), grant(0, S0), notify(S0, [["", "A", "4"]])]},
    # never granted: refused / unreachable / no SID
    {"ops": [["start", 0, 1800], notify(S0, [["", "A", "1"]]), ["respond", 0, ["resp", 500, None, None]], notify(S0, [["", "A", "2"]])]},
    {"ops": [["start", 0, 1800], notify(S0, [["", "A", "1"]]), ["respond", 0, ["connerr"]], ["start", 1, 5], notify(S0, [["", "A", "2"]]),
             ["respond", 1, ["resp", 200, None, None]]]},
    # round 2: the SUBSCRIBE fails after NOTIFYs were backlogged; the backlog entry stays (keyed by SID) and a LATER subscription
    # that is granted the same SID replays it: by the text those NOTIFYs are then early NOTIFYs of the granted SID (judged so)
    {"ops": [["start", 0, 1800], notify(S0, [["", "A", "1"], ["", "B", "x"]]), ["respond", 0, ["resp", 500, None, None]],
             notify(S0, [["", "A", "2"]]), ["start", 0, 1800], notify(S0, [["", "C", "1"]]), grant(0, S0), notify(S0, [["", "A", "3"]])]},
    {"ops": [["start", 0, 1800], notify(S0, [["", "A", "7"]]), ["respond", 0, ["connerr"]], ["start", 1, 1800], grant(1, S0),
             ["start", 0, 300], ["respond", 0, ["resp", 200, S1, None]]]},
    # a malformed early NOTIFY (not XML): answered 200 and stored; the replay raises ParseError out of async_subscribe AFTER the
    # SID was registered, the backlog entry stays (compared with the model; outside the property's domain, not judged)
    {"ops": [["start", 0, 1800], notify(S0, [["", "A", "1"]]), ["notify", NT_OK, NTS_OK, S0, "#", ""], notify(S0, [["", "A", "2"]]),
             grant(0, S0), notify(S0, [["", "B", "live"]]), ["notify", NT_OK, NTS_OK, S0, "#", ""]]},
    # round 3: early NOTIFYs are a sequence — Volume 10, 20, 10 as three NOTIFYs, the first and third byte-identical; a replay that
    # skips a body it has already replayed would leave 20
    {"ops": [["start", 0, 1800], same(S0, [["", "A", "10"]]), same(S0, [["", "A", "20"]]), same(S0, [["", "A", "10"]]), grant(0, S0)]},
    {"ops": [["start", 0, 1800], same(S0, [["", "A", "10"]]), same(S0, [["", "A", "10"]]), same(S0, [["", "A", "20"]]), grant(0, S0),
             same(S0, [["", "A", "10"]]), same(S0, [["", "A", "10"]])]},
    {"ops": [["start", 0, 1800], ["start", 1, 1800], same(S0, [["", "A", "10"]]), same(S1, [["", "A", "10"]]), same(S0, [["", "A", "20"]]),
             same(S1, [["", "A", "20"]]), same(S0, [["", "A", "10"]]), grant(1, S1), same(S1, [["", "A", "10"]]), grant(0, S0)]},
    # batch 5: SIDs are opaque tokens.  An upper-case SID with early NOTIFYs (a backlog filed under a case-folded key is never replayed)
    {"ops": [["start", 0, 1800], notify("uuid:4C49-RINCON_0", [["", "A", "1"], ["", "B", "x"]]), notify("uuid:4C49-RINCON_0", [["", "A", "2"]]),
             grant(0, "uuid:4C49-RINCON_0"), notify("uuid:4C49-RINCON_0", [["", "C", "yes"]])]},
    # two subscriptions whose SIDs differ only in case, a third variant never granted: each event reaches exactly its verbatim SID
    {"ops": [["start", 0, 1800], ["start", 1, 1800], notify("uuid:AbC", [["", "A", "1"]]), notify("uuid:abc", [["", "A", "2"]]),
             notify("uuid:ABC", [["", "A", "3"]]), grant(1, "uuid:abc"), notify("uuid:AbC", [["", "B", "zero"]]), grant(0, "uuid:AbC"),
             notify("uuid:abc", [["", "B", "one"]]), notify("uuid:ABC", [["", "B", "none"]]), notify("uuid:AbC", [["", "A", "4"]])]},
    {"ops": [["start", 0, 1800], notify("uuid:abc", [["", "A", "1"]]), notify("uuid:ABC", [["", "A", "2"]]), grant(0, "uuid:ABC"),
             notify("uuid:abc", [["", "A", "3"]]), ["start", 1, 600], notify("uuid:abc", [["", "B", "late"]]), grant(1, "uuid:Abc")]},
    # early NOTIFY with bad headers is not stored
    {"ops": [["start", 0, 1800], notify(S0, [["", "A", "1"]], nt=None), notify(S0, [["", "A", "2"]], nts="x"), notify(None, [["", "A", "3"]]), grant(0, S0)]},
]


def _worker_init():
    from vk.core import activate_repo
    activate_repo()
    c09env._LOOP = None


def _worker(args):
    recipes, start = args
    out = []
    for j, rec in enumerate(recipes):
        if HANGS[0] >= 4:
            break
        c = run_recipe(None, rec, f"x{start + j}")
        out.append((c.cid, c.lines, c.recipe, c.nontrivial, c.tags))
    return out


def run_many(recipes: List[dict], prefix: str) -> List[Case]:
    if len(recipes) < 3000:
        out = []
        for i, r in enumerate(recipes):
            if HANGS[0] >= 4:   # the real code does not terminate on some events: already a judged failure
                break
            out.append(run_recipe(None, r, f"{prefix}{i}"))
        return out
    chunk = 500
    jobs = [(recipes[i:i + chunk], i) for i in range(0, len(recipes), chunk)]
    with multiprocessing.get_context("fork").Pool(min(12, len(jobs)), initializer=_worker_init) as pool:
        res = pool.map(_worker, jobs)
    return [Case(prefix + cid[1:], lines, rec, nt, tags) for part in res for cid, lines, rec, nt, tags in part]


def generate(ctx: Ctx) -> List[Case]:
    cases = [run_recipe(ctx, rec, f"corpus{i}") for i, rec in enumerate(CORPUS + [dict(r, via="server") for r in CORPUS]
                                                                        + [dict(r, nocb=True) for r in CORPUS])]
    recipes = exhaustive(ctx) + repeated(ctx)
    # every enumerated schedule once more with device-style SIDs / SIDs that differ only in case
    n_enum = len(recipes)
    recipes += [with_sids(r, SID_STYLES[i % len(SID_STYLES)]) for i, r in enumerate(recipes)]
    n_random = 4000 if ctx.thorough else 300
    recipes += [rand_recipe(ctx.rng) for _ in range(n_random)]
    # a third of the schedules deliver every NOTIFY through AiohttpNotifyServer._handle_request, a third every other one
    recipes = [dict(r, via=["direct", "server", "mix"][i % 3]) for i, r in enumerate(recipes)]
    # configuration dimension: the service has an on_event callback / has none (the default).  Every enumerated schedule runs once with
    # and once without (one of the two under the renamed SIDs); random schedules alternate.
    recipes = [dict(r, nocb=True) if (i + (i // n_enum if i < 2 * n_enum else 0)) % 2 else r for i, r in enumerate(recipes)]
    cases += run_many(recipes, "g")
    return cases


def signature(case: Case, verdict) -> str:
    return f"C11 {verdict.notes[:300]}"
