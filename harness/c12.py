"""C12 correspondence harness: the real profile subscription code (profiles/profile.py on top of the real
UpnpEventHandler) is run on a virtual-time event loop against a scripted publisher; the canonical trace
(request log with virtual timestamps and publisher reactions, on_event callbacks, call results, snapshots of
the profile bookkeeping / handler routing table / renewal task) is compared with the Lean model
(`Upnp.C12.run`) and judged by `Upnp.C12.ok`.  See DESIGN.md §5 C12 and design/C12.md."""
from __future__ import annotations

import asyncio
import heapq
import itertools
from typing import Any, Dict, List, Optional, Tuple

from harness.common import VirtualTimeLoop, exc_token
from vk.core import Case, Ctx

GEN_MODULES: List[str] = ["C12Profile", "C12ServiceTypes"]
MANIFEST = {
    "design_ref": "§5 C12",
    "text": ("Lean theorems over the executable model of UpnpProfileDevice's subscription life cycle (subscribe loop with "
             "rollback, renewal loop, per-round renewal with event-handler fallback, unsubscribe with task cancellation), "
             "parametrised by the constants and loop shapes extracted from profiles/profile.py on every run: all_or_nothing(+_trace), "
             "clean_unsubscribe, clean_trace, report_trace, lapse_trace, yield_trace — all five clause monitors of the judge are "
             "proved to flag nothing on any model history (judge_accepts_model; Zeno-freedom budget_ok_of_long_timeouts for "
             "granted timeouts above the tolerance); renew_before_expiry with the decidable latency hypothesis CalmHistory; "
             "loop_yields, failure_reported_once, wake_margin / renew_round_start / renew_round_step / deadline_le_expiry "
             "(renew_before_expiry_partial). The model is tied to the code "
             "by a differential check of whole timelines (hours of virtual time, scripted publisher reactions and latencies, "
             "unsubscribe injected at every distinct point of a run) and the Lean judge C12.ok is evaluated on the "
             "implementation's trace."),
    "note": ("Trusted: Lean kernel + standard axioms; asyncio scheduling (cancellation delivered at the await, FIFO ready queue) "
             "is modelled, not verified; the event handler is modelled only through its routing-table effects (C09 owns it); "
             "lapse-freedom is conditional on the judge's decidable calm predicate (per-window latency bound); "
             "Zeno-freedom needs granted timeouts above the tolerance (excluded point probed on the real code); timer "
             "resolution/drift not modelled; "
             "correspondence is sampled."),
    "technique": "Lean 4 proof (invariants over an event-driven executable model) + generated constants/shape pins + model/implementation correspondence on a virtual-time loop",
}
RULE = ("timelines over generated DmrDevice/DmsDevice/IgdDevice profiles (0..4 profile services in every documented version "
        "of every service/device type + foreign services): ops "
        "sub(auto)/wait/unsub with a scripted publisher (reaction ok/new SID/refuse/unreachable/comm error, granted timeout "
        "61..1800 s/infinite/absent, latency 0..300 s per request); unsubscribe injected at every distinct event time of a run "
        "(thorough) ; non-trivial = at least one renewal round ran; distinct = distinct canonical driver text. Tags record the "
        "distribution: tmo:s<service>:<61-120|121-600|601-1800|inf|abs> (granted timeout per service), round:<reaction> "
        "(publisher reaction per renewal), lat:<bucket> (reply latency), unsubpoint:<task-not-started|sleeping|"
        "inflight-renewal|inflight-fallback|task-ended|notask> (where unsubscribe hit the renewal task)")
EXHAUSTIVE = {"quick": False, "thorough": False}
ASSUMPTIONS = [
    "caller operations are sequential (subscribe is only called while nothing is subscribed and no renewal task is alive; manual re-subscription of a live profile is not exercised)",
    "the publisher decides its reaction when the request arrives; the reply reaches the client `latency` later (a reply that is queued but not yet consumed when the task is cancelled is indistinguishable from one still in flight)",
    "all times are multiples of 125 ms (exact in binary floating point); renewal-task events at time T are processed before a caller operation at T",
    "the event handler is represented by its routing-table effects only (C09 owns its request formats)",
]
TRUSTED = ["C12: asyncio semantics used by the model: Task.cancel() is delivered as CancelledError at the pending await; gather() starts its children in argument order"]

SPIN_LIMIT = 400       # time.monotonic() calls within one loop iteration => the renewal loop does not yield
ZENO_LIMIT = 300      # loop iterations without virtual time advancing
FUEL_AWAITS = 2000     # model-side bound on task awaits per `wait` (mirrors ZENO_LIMIT loosely; compared leniently)

PROFILES = {"dmr": "DmrDevice", "dms": "DmsDevice", "igd": "IgdDevice"}
FOREIGN = {"X1": "urn:schemas-upnp-org:service:Dummy:1", "X2": "urn:example-org:service:Other:1"}
# short names used by the corpus / random generators
SHORT = {"RC": "RC:1", "RC2": "RC:2", "AVT": "AVT:1", "CM": "CM:1", "CD": "CD:1",
         "L3": "L3FWD:1", "CIC": "WANCIC:1", "IPC": "WANIPC:1", "PPPC": "WANPPPC:1"}
INTERESTING = {"dmr": ["RC", "RC2", "AVT", "CM"], "dms": ["CD", "CM"], "igd": ["L3", "CIC", "IPC", "PPPC"]}


def load_service_max():
    """the documented maxima pinned in lean/Upnp/Model/C12ServiceMax.lean (single source for model and harness):
    {class: {alias: (urn prefix, max version)}}, {class: (device urn prefix, max version)}"""
    import re
    from pathlib import Path
    text = (Path(__file__).resolve().parent.parent / "lean" / "Upnp" / "Model" / "C12ServiceMax.lean").read_text()
    svc: Dict[str, Dict[str, Tuple[str, int]]] = {}
    dev: Dict[str, Tuple[str, int]] = {}
    for m in re.finditer(r'\("(\w+)"\.toList, "(\w+)"\.toList, "([^"]+)"\.toList, (\d+)\)', text):
        svc.setdefault(m.group(1), {})[m.group(2)] = (m.group(3), int(m.group(4)))
    for m in re.finditer(r'\("(\w+)"\.toList, "(urn:[^"]+:device:[^"]+)"\.toList, (\d+)\)', text):
        dev[m.group(1)] = (m.group(2), int(m.group(3)))
    if not svc or not dev:
        raise RuntimeError("cannot read Model/C12ServiceMax.lean")
    return svc, dev


SERVICE_MAX, DEVICE_MAX = load_service_max()


def resolve(profile: str, key: str) -> Tuple[str, bool]:
    """service key -> (service type URN, is it one of the profile's services per the documented tables?)"""
    if key in FOREIGN:
        return FOREIGN[key], False
    key = SHORT.get(key, key)
    if key.startswith("vendor:"):   # the profile's service name under another vendor domain: not a profile service
        _, alias, ver = key.split(":")
        prefix = SERVICE_MAX[PROFILES[profile]][alias][0]
        return prefix.replace("urn:schemas-upnp-org:", "urn:example-org:") + f":{ver}", False
    alias, ver = key.split(":")
    table = SERVICE_MAX[PROFILES[profile]]
    if alias not in table:
        raise ValueError(f"unknown service key {key} for {profile}")
    prefix, vmax = table[alias]
    return f"{prefix}:{ver}", int(ver) <= vmax


def is_interesting(profile: str, key: str) -> bool:
    return resolve(profile, key)[1]


SCPD = """<?xml version="1.0"?>
<scpd xmlns="urn:schemas-upnp-org:service-1-0"><specVersion><major>1</major><minor>0</minor></specVersion>
<actionList></actionList>
<serviceStateTable><stateVariable sendEvents="yes"><name>A</name><dataType>string</dataType></stateVariable></serviceStateTable>
</scpd>"""


def path_of(key: str) -> str:
    return key.replace(":", "_")


def service_xml(profile: str, key: str, used_ids: set) -> str:
    """one <service>; the serviceId is the standard one of the service type (`urn:upnp-org:serviceId:<Name>`, which
    profile code such as DmrDevice._on_event keys on), made unique when a second service of that name follows"""
    urn = resolve(profile, key)[0]
    name = urn.split(":")[-2] if key not in FOREIGN else key
    sid = name
    k = 2
    while sid in used_ids:
        sid = f"{name}{k}"
        k += 1
    used_ids.add(sid)
    return (f"<service><serviceType>{urn}</serviceType><serviceId>urn:upnp-org:serviceId:{sid}</serviceId>"
            f"<controlURL>/c/{path_of(key)}</controlURL><eventSubURL>/e/{path_of(key)}</eventSubURL>"
            f"<SCPDURL>/scpd.xml</SCPDURL></service>")


def layout_order(services: List[str], depths: List[int]) -> List[str]:
    """order in which `UpnpDevice.all_services` lists them: the device's own services, then (recursively) those of
    its embedded devices"""
    return [s for d in (0, 1, 2) for s, dd in zip(services, depths) if dd == d]


def device_xml(profile: str, services: List[str], devver: int = 1, depths: Optional[List[int]] = None,
               outer: Optional[List[str]] = None) -> str:
    """description document.  `depths[i]` = 0: service i is a direct service of the profile device, 1 / 2: of an
    embedded device one / two levels down (the standard IGD layout).  `outer` (if not None): the profile device is
    itself embedded in a root device of another type that offers the `outer` services."""
    depths = depths or [0] * len(services)
    used: set = set()

    def dev(dtype: str, udn: str, svcs: List[str], inner: str) -> str:
        sl = "".join(service_xml(profile, s, used) for s in svcs)
        dl = f"<deviceList>{inner}</deviceList>" if inner else ""
        return (f"<device><deviceType>{dtype}</deviceType><friendlyName>d</friendlyName><manufacturer>m</manufacturer>"
                f"<modelName>n</modelName><UDN>uuid:{udn}</UDN><serviceList>{sl}</serviceList>{dl}</device>")

    at = lambda d: [s for s, dd in zip(services, depths) if dd == d]  # noqa: E731
    e2 = dev("urn:schemas-upnp-org:device:Inner2:1", "c12-e2", at(2), "") if at(2) else ""
    e1 = dev("urn:schemas-upnp-org:device:Inner1:1", "c12-e1", at(1), e2) if (at(1) or at(2)) else ""
    body = dev(f"{DEVICE_MAX[PROFILES[profile]][0]}:{devver}", "c12", at(0), e1)
    if outer is not None:
        body = dev("urn:schemas-upnp-org:device:Basic:1", "c12-root", outer, body)
    return (f'<?xml version="1.0"?><root xmlns="urn:schemas-upnp-org:device-1-0"><specVersion><major>1</major><minor>0</minor>'
            f"</specVersion>{body}</root>")


class SpinDetected(BaseException):
    pass


class ZenoDetected(BaseException):
    pass


class FakeTime:
    """replacement for the `time` module inside profiles/profile.py: virtual monotonic clock + step counter"""

    def __init__(self, loop: VirtualTimeLoop) -> None:
        self.loop = loop
        self.calls = 0
        self.spun = False

    def monotonic(self) -> float:
        self.calls += 1
        if self.calls > SPIN_LIMIT:
            self.spun = True
            raise SpinDetected()
        return self.loop.time()


class Loop(VirtualTimeLoop):
    faketime: Optional[FakeTime] = None

    def _run_once(self) -> None:  # type: ignore[override]
        if self.faketime is not None:
            self.faketime.calls = 0
        super()._run_once()


def ms(t: float) -> int:
    return int(round(t * 1000))


def tmo_tok(t) -> str:
    return str(t)


def tmo_bucket(t) -> str:
    if t in ("inf", "abs"):
        return str(t)
    t = int(t)
    return "61-120" if t <= 120 else "121-600" if t <= 600 else "601-1800"


def lat_bucket(lat: int) -> str:
    return "0" if lat == 0 else "<1s" if lat < 1000 else "<60s" if lat < 60000 else "1-2min" if lat < 120000 else ">=2min"


class Sim:
    """one case: device + profile + publisher + trace"""

    def __init__(self, recipe: Dict[str, Any]) -> None:
        self.recipe = recipe
        self.profile_name = recipe.get("profile", "dmr")
        self.services = list(recipe.get("services", ["RC", "CM", "AVT"]))
        self.script = [tuple(e) for e in recipe.get("script", [])]
        self.default = tuple(recipe.get("default", ["ok", 1800, 0]))
        self.pos = 0
        self.next_sid = 1
        self.lines: List[str] = []
        self.tags: set = set()
        self.rounds = 0
        self.loop = Loop()
        self.ft = FakeTime(self.loop)
        self.loop.faketime = self.ft
        self.devver = int(recipe.get("devver", 1))
        self.depths = [int(d) for d in recipe.get("depths", [0] * len(self.services))][:len(self.services)]
        self.depths += [0] * (len(self.services) - len(self.depths))
        self.outer = recipe.get("outer")
        inter = [s for s in self.services if is_interesting(self.profile_name, s)]
        self.n = len(inter)
        self.svc_index: Dict[str, int] = {}
        for j, s in enumerate(self.outer or []):     # services of the enclosing root are not the profile's
            self.svc_index[f"/e/{path_of(s)}"] = 200 + j
        k = 0
        for j, s in enumerate(layout_order(self.services, self.depths)):
            if is_interesting(self.profile_name, s):
                self.svc_index[f"/e/{path_of(s)}"] = k
                k += 1
            else:
                self.svc_index[f"/e/{path_of(s)}"] = 100 + j
        self.stopped = False
        self.tags.add(f"devver:{self.profile_name}:{self.devver}")
        self.tags.add(f"layout:depth{max(self.depths + [0])}")
        if self.outer is not None:
            self.tags.add("layout:profile-embedded")
        for sname in self.services:
            kk = SHORT.get(sname, sname)
            if kk.startswith("vendor:"):
                self.tags.add("only:vendor-domain")
            elif sname not in FOREIGN and not is_interesting(self.profile_name, sname):
                self.tags.add("only:above-max-version")
        for sname in self.services:
            if is_interesting(self.profile_name, sname):
                a, v = SHORT.get(sname, sname).split(":")
                self.tags.add(f"ver:{self.profile_name}:{a}:{v}")
        self.inflight: List[str] = []     # requests currently awaiting their reply (publisher side)
        self.in_call: Optional[str] = None
        self.fresh_task = None

    # ---- publisher (UpnpRequester fake) ------------------------------------------------------
    async def async_http_request(self, method, url, headers=None, body=None):
        from async_upnp_client.exceptions import UpnpCommunicationError, UpnpConnectionError
        from harness.common import make_headers

        path = url.split("://", 1)[1].split("/", 1)[1]
        path = "/" + path
        if method == "GET":
            if path == "/device.xml":
                return 200, make_headers({}), device_xml(self.profile_name, self.services, self.devver, self.depths, self.outer)
            return 200, make_headers({}), SCPD
        reac, tmo, lat = self.script[self.pos] if self.pos < len(self.script) else self.default
        self.pos += 1
        svc = self.svc_index.get(path, 999)
        sid_hdr = (headers or {}).get("SID")
        sid_in = sid_hdr[len("uuid:s"):] if sid_hdr else "-"
        if method == "SUBSCRIBE":
            kind = "R" if sid_hdr else "S"
        else:
            kind = "U"
        granted = "-"
        hdrs: Dict[str, str] = {}
        if reac in ("ok", "new") and kind != "U":
            if kind == "S" or reac == "new":
                granted = str(self.next_sid)
                self.next_sid += 1
            else:
                granted = sid_in
            hdrs["SID"] = f"uuid:s{granted}"
            if tmo == "inf":
                hdrs["TIMEOUT"] = "Second-infinite"
            elif tmo != "abs":
                hdrs["TIMEOUT"] = f"Second-{int(tmo)}"
        self.lines.append(f"o req {ms(self.loop.time())} {kind} {svc} {sid_in} {reac} {tmo_tok(tmo)} {lat} {granted}")
        self.tags.add(f"req:{kind}:{reac}")
        if kind != "U":
            if reac in ("ok", "new"):
                self.tags.add(f"tmo:s{svc}:{tmo_bucket(tmo)}")
            self.tags.add(f"lat:{lat_bucket(lat)}")
            if kind == "R":
                self.tags.add(f"round:{reac}")
        fallback = kind == "S" and self.in_call is None
        self.inflight.append("fallback" if fallback else kind)
        try:
            await asyncio.sleep(lat / 1000.0)
        finally:
            self.inflight.pop()
        if reac == "unreach":
            raise UpnpConnectionError("unreachable")
        if reac == "comm":
            raise UpnpCommunicationError("comm")
        if reac == "refuse":
            return 412, make_headers({}), ""
        return 200, make_headers(hdrs), ""

    # ---- loop stepping -------------------------------------------------------------------------
    def pump(self, until: Optional[float] = None, task: Optional[asyncio.Future] = None) -> None:
        loop = self.loop
        same = 0
        while True:
            loop.call_soon(loop.stop)
            loop.run_forever()
            if self.ft.spun:
                raise SpinDetected()
            if task is not None and task.done():
                return
            sched = loop._scheduled  # type: ignore[attr-defined]
            while sched and sched[0]._cancelled:
                h = heapq.heappop(sched)
                h._scheduled = False
            if loop._ready:  # type: ignore[attr-defined]
                same += 1
                if same > ZENO_LIMIT:
                    raise ZenoDetected()
                continue
            if sched and (until is None or sched[0]._when <= until + 1e-9):
                if sched[0]._when > loop.time():
                    same = 0
                else:
                    same += 1
                    if same > ZENO_LIMIT:
                        raise ZenoDetected()
                loop.advance_to(sched[0]._when)
                continue
            if task is not None:
                raise RuntimeError("call cannot complete: nothing scheduled")
            break
        if until is not None:
            loop.advance_to(until)

    def call(self, coro) -> Tuple[str, Any]:
        task = self.loop.create_task(coro)
        self.pump(task=task)
        try:
            return "ok", task.result()
        except SpinDetected:
            raise
        except BaseException as e:  # noqa: BLE001
            return exc_token(e), None

    # ---- observations ---------------------------------------------------------------------------
    def sid_tok(self, sid: str) -> str:
        return sid[len("uuid:s"):] if sid.startswith("uuid:s") else "?" + sid

    def task_alive(self) -> bool:
        t = self.profile._resubscriber_task
        return t is not None and not t.done()

    def any_task_pending(self) -> bool:
        """observable form of "the renewal task has ended": no task at all is pending on the loop between two caller
        operations (the harness itself runs outside tasks), whatever attribute the profile keeps it in"""
        return any(not t.done() for t in asyncio.all_tasks(self.loop))

    def snap(self) -> None:
        subs = [self.sid_tok(s) for s in self.profile._subscriptions]
        routed = sorted((self.sid_tok(s) for s in list(self.handler._subscriptions.keys())), key=lambda x: (len(x), x))
        self.lines.append(
            f"o snap {ms(self.loop.time())} {','.join(subs) or '~'} {','.join(routed) or '~'} "
            f"{'T' if (self.task_alive() or self.any_task_pending()) else 'F'} {'T' if self.profile.profile_device.available else 'F'}")

    def on_event(self, service, state_variables) -> None:
        path = "/" + service.event_sub_url.split("://", 1)[1].split("/", 1)[1]
        self.lines.append(
            f"o cb {ms(self.loop.time())} {self.svc_index.get(path, 999)} {len(state_variables)} "
            f"{'T' if self.profile.profile_device.available else 'F'}")
        self.tags.add("cb:unavail" if not self.profile.profile_device.available else "cb:avail")

    # ---- run ---------------------------------------------------------------------------------------
    def run(self) -> None:
        import logging

        import async_upnp_client.profiles.profile as profile_mod
        logging.getLogger("async_upnp_client").setLevel(logging.CRITICAL + 1)
        from async_upnp_client.client_factory import UpnpFactory
        from async_upnp_client.event_handler import UpnpEventHandler, UpnpNotifyServer
        from async_upnp_client.exceptions import UpnpError
        from async_upnp_client.profiles.dlna import DmrDevice, DmsDevice
        from async_upnp_client.profiles.igd import IgdDevice

        class Notify(UpnpNotifyServer):
            @property
            def callback_url(self) -> str:
                return "http://192.168.1.2:8090/notify"

        old_time = profile_mod.time
        profile_mod.time = self.ft  # type: ignore[assignment]
        asyncio.set_event_loop(self.loop)
        try:
            factory = UpnpFactory(self, non_strict=True)
            res, dev = self.call(factory.async_create_device("http://dev:1234/device.xml"))
            if res != "ok":
                raise RuntimeError(f"device creation failed: {res}")
            self.device = dev
            self.handler = UpnpEventHandler(Notify(), self)
            cls = {"dmr": DmrDevice, "dms": DmsDevice, "igd": IgdDevice}[self.profile_name]
            self.lines.append(f"cfg {self.n}")
            try:
                self.profile = cls(dev, self.handler)
            except UpnpError as e:
                # a device of a documented version of the profile's device type is not recognised at all
                self.lines.append(f"o noprofile {exc_token(e)}")
                self.tags.add("noprofile")
                return
            self.profile.on_event = self.on_event
            self.lines.append("script " + (",".join(f"{r}:{t}:{l}" for r, t, l in self.script) or "~"))
            self.lines.append("default " + ":".join(str(x) for x in self.default))
            try:
                for op in self.recipe.get("ops", []):
                    self.do_op(op)
            except SpinDetected:
                self.lines.append(f"o spin {ms(self.loop.time())}")
                self.tags.add("spin:noyield")
            except ZenoDetected:
                self.lines.append(f"o spin {ms(self.loop.time())}")
                self.tags.add("spin:zeno")
        finally:
            profile_mod.time = old_time
            try:
                pending = [t for t in asyncio.all_tasks(self.loop) if not t.done()]
                for t in pending:
                    t.cancel()
                if pending:
                    try:
                        self.loop.run_until_complete(asyncio.gather(*pending, return_exceptions=True))
                    except BaseException:  # noqa: BLE001
                        pass
                t = getattr(getattr(self, "profile", None), "_resubscriber_task", None)
                if t is not None and t.done() and not t.cancelled():
                    t.exception()
            finally:
                asyncio.set_event_loop(None)
                self.loop.close()

    def do_op(self, op) -> None:
        name = op[0]
        now = ms(self.loop.time())
        if name == "sub":
            auto = bool(op[1])
            if self.profile._subscriptions or self.task_alive():
                return  # precondition of the sequential-caller scope (see ASSUMPTIONS)
            self.lines.append(f"sub {1 if auto else 0}")
            self.lines.append(f"o call {now} sub")
            self.in_call = "sub"
            try:
                res, _ = self.call(self.profile.async_subscribe_services(auto_resubscribe=auto))
            finally:
                self.in_call = None
            self.lines.append(f"o ret {ms(self.loop.time())} sub {res}")
            self.tags.add(f"sub:{'auto' if auto else 'manual'}:{res}")
            self.fresh_task = self.profile._resubscriber_task if self.task_alive() else None
            self.snap()
        elif name == "unsub":
            self.lines.append("unsub")
            self.lines.append(f"o call {now} unsub")
            t = self.profile._resubscriber_task
            if t is None:
                point = "notask"
            elif t.done():
                point = "task-ended"
            elif self.inflight:
                point = "inflight-fallback" if "fallback" in self.inflight else "inflight-renewal"
            elif self.fresh_task is t:
                point = "task-not-started"
            else:
                point = "sleeping"
            self.in_call = "unsub"
            try:
                res, _ = self.call(self.profile.async_unsubscribe_services())
            finally:
                self.in_call = None
            self.lines.append(f"o ret {ms(self.loop.time())} unsub {res}")
            self.tags.add("unsub:task" if t is not None else "unsub:notask")
            self.tags.add(f"unsubpoint:{point}")
            self.snap()
        elif name == "wait":
            d = int(op[1])
            self.lines.append(f"wait {d}")
            before = sum(1 for l in self.lines if l.startswith("o req"))
            self.fresh_task = None
            self.pump(until=self.loop.time() + d / 1000.0)
            after = sum(1 for l in self.lines if l.startswith("o req"))
            if after > before:
                self.rounds += 1
            self.snap()
        else:
            raise ValueError(name)


def run_recipe(ctx: Ctx, recipe: Dict[str, Any], cid: str) -> Case:
    sim = Sim(recipe)
    sim.run()
    sim.tags.add(f"n:{sim.n}")
    return Case(cid, sim.lines, recipe, sim.rounds > 0, sorted(sim.tags))


CORPUS: List[Dict[str, Any]] = [
    # plain life cycle, foreign service in the device, infinite / absent timeouts
    {"profile": "dmr", "services": ["RC", "X1", "CM", "AVT"], "script": [["ok", 61, 0], ["ok", 300, 250], ["ok", "inf", 0]],
     "default": ["ok", "abs", 0], "ops": [["sub", 1], ["wait", 100125], ["wait", 3600000], ["unsub"], ["wait", 500000]]},
    # F12a: granted 61 s, renewal slower than 121 s -> the only entry is > tolerance overdue -> loop never awaits
    {"profile": "dmr", "services": ["RC"], "script": [["ok", 61, 0], ["ok", 61, 130000]], "default": ["ok", 1800, 0],
     "ops": [["sub", 1], ["wait", 400125], ["unsub"]]},
    # F12a (second form): one entry overdue, the other renewed in a zero-delay loop (floods the publisher)
    {"profile": "dmr", "services": ["RC", "CM"], "script": [["ok", 61, 0], ["ok", 1800, 0], ["ok", 61, 0], ["ok", 1800, 130000]],
     "default": ["ok", 1800, 0], "ops": [["sub", 1], ["wait", 400125], ["unsub"]]},
    # F12b: unsubscribe while the renewal reply is outstanding
    {"profile": "dmr", "services": ["RC"], "script": [["ok", 61, 0], ["ok", 61, 50000]], "default": ["ok", 1800, 0],
     "ops": [["sub", 1], ["wait", 10125], ["unsub"], ["wait", 500000]]},
    # F12b with the handler's fall-back SUBSCRIBE in flight
    {"profile": "igd", "services": ["L3", "CIC"], "script": [["ok", 61, 0], ["ok", 100, 0], ["refuse", 61, 1000], ["ok", 61, 50000]],
     "default": ["ok", 1800, 0], "ops": [["sub", 1], ["wait", 10125], ["unsub"], ["wait", 500000]]},
    # F12c: every renewal failed (task ended by itself), subscribe again with auto-renewal -> must be renewed
    {"profile": "dmr", "services": ["RC"], "script": [["ok", 61, 0], ["unreach", 61, 0]], "default": ["ok", 100, 0],
     "ops": [["sub", 1], ["wait", 10125], ["sub", 1], ["wait", 500000], ["unsub"]]},
    # all-or-nothing: second SUBSCRIBE refused / unreachable / comm error; UNSUBSCRIBE itself failing
    {"profile": "dmr", "services": ["RC", "CM", "AVT"], "script": [["ok", 300, 0], ["refuse", 61, 250]], "default": ["ok", 1800, 0],
     "ops": [["sub", 1], ["wait", 1000], ["sub", 0], ["wait", 700000], ["unsub"]]},
    {"profile": "igd", "services": ["X2", "IPC", "PPPC", "L3"], "script": [["ok", 300, 0], ["new", 100, 0], ["unreach", 61, 250], ["comm", 1, 500], ["refuse", 1, 250]],
     "default": ["ok", 1800, 0], "ops": [["sub", 1], ["wait", 1000], ["unsub"]]},
    # failed renewals: unreachable, refused then fall-back ok / refused / unreachable, new SID
    {"profile": "dmr", "services": ["RC", "CM", "AVT", "RC2"],
     "script": [["ok", 100, 0]] * 4 + [["unreach", 1, 250], ["refuse", 1, 0], ["ok", 200, 0], ["comm", 1, 0], ["refuse", 1, 500], ["new", 300, 0]],
     "default": ["ok", 1800, 0], "ops": [["sub", 1], ["wait", 50125], ["wait", 3600000], ["unsub"], ["wait", 1000]]},
    # C12-1 (audit): a failed renewal of the AVTransport service of a DMR (standard serviceId) must be reported through
    # DmrDevice._on_event with an empty change list
    {"profile": "dmr", "services": ["AVT", "RC"], "script": [["ok", 61, 0], ["ok", 300, 0], ["unreach", 61, 0], ["refuse", 61, 0], ["comm", 61, 0]],
     "default": ["ok", 300, 0], "ops": [["sub", 1], ["wait", 30125], ["wait", 400000], ["unsub"]]},
    # no profile service at all; manual mode
    {"profile": "dmr", "services": ["X1"], "script": [], "default": ["ok", 1800, 0], "ops": [["sub", 1], ["wait", 1000], ["unsub"]]},
    {"profile": "igd", "services": ["CIC", "L3"], "script": [], "default": ["ok", 120, 0], "ops": [["sub", 0], ["wait", 300000], ["unsub"], ["sub", 1], ["unsub"]]},
]


LATS = [0, 0, 0, 0, 125, 250, 1000, 5000, 19875, 30000, 59875, 60000, 61000, 120000, 121000, 130000, 300000]
CALM_LATS = [0, 0, 0, 125, 250, 1000, 5000, 14875]
TMOS = [61, 61, 62, 90, 120, 121, 150, 300, 540, 600, 1800, "inf", "abs"]
WAITS = [125, 1000, 10125, 59875, 60000, 61000, 100125, 300000, 480000, 1000000, 3600000, 7200000]


def rand_tmo(rng):
    return rng.choice(TMOS) if rng.random() < 0.8 else rng.randrange(61, 1801)


def rand_services(rng, profile: str) -> Tuple[List[str], int]:
    """0..4 profile services (any documented version, sometimes two versions of one type) + foreign ones"""
    table = SERVICE_MAX[PROFILES[profile]]
    keys = [f"{a}:{v}" for a, (_, vmax) in sorted(table.items()) for v in range(1, vmax + 1)]
    rng.shuffle(keys)
    k = rng.choice([0, 1, 1, 2, 2, 3, 3, 4])
    services = keys[:k] + rng.sample(["X1", "X2"], rng.choice([0, 0, 1, 2]))
    # "and ONLY": services of a profile's type that are NOT in its table (version above the maximum, other vendor domain)
    a = rng.choice(sorted(table))
    if rng.random() < 0.25:
        services.append(f"{a}:{table[a][1] + 1}")
    if rng.random() < 0.15:
        services.append(f"vendor:{a}:1")
    rng.shuffle(services)
    return services, k


def rand_layout(rng, profile: str, services: List[str]) -> Dict[str, Any]:
    """where the services sit: directly in the profile device or in embedded devices one / two levels down; and
    whether the profile device is itself embedded in a root device of another type"""
    out: Dict[str, Any] = {}
    if rng.random() < 0.5:
        out["depths"] = [rng.choice([0, 0, 0, 1, 1, 2]) for _ in services]
    if rng.random() < 0.25:
        table = SERVICE_MAX[PROFILES[profile]]
        out["outer"] = rng.sample(["X1", "X2", f"vendor:{sorted(table)[0]}:1"], rng.choice([0, 1, 2]))
        out["outer"] = [o for o in out["outer"] if o not in services]
    return out


def rand_recipe(rng, calm: bool) -> Dict[str, Any]:
    profile = rng.choice(["dmr", "dmr", "igd", "igd", "dms"])
    services, k = rand_services(rng, profile)
    n = max(k, 1)
    script = []
    for _ in range(rng.randrange(0, 40)):
        if calm:
            reac = "ok" if rng.random() < 0.85 else "new"
            lat = rng.choice([l for l in CALM_LATS if l * n < 60000])
        else:
            reac = rng.choices(["ok", "new", "refuse", "unreach", "comm"], [62, 8, 12, 9, 9])[0]
            lat = rng.choice(LATS) if rng.random() < 0.9 else 125 * rng.randrange(0, 2400)
        script.append([reac, rand_tmo(rng), lat])
    default = ["ok", rand_tmo(rng), rng.choice([0, 0, 125, 1000]) if not calm else 0]
    fast = isinstance(default[1], int) and default[1] <= 150   # a renewal round every few seconds: keep the timeline short
    ops: List[List[Any]] = []
    for _cycle in range(rng.choice([1, 1, 2, 3])):
        ops.append(["sub", 1 if rng.random() < 0.85 else 0])
        for _ in range(rng.randrange(0, 5)):
            w = rng.choice(WAITS) if rng.random() < 0.7 else 125 * rng.randrange(1, 30000)
            if fast:
                w = min(w, 600000)
            ops.append(["wait", w])
            if rng.random() < 0.1:
                ops.append(["sub", 1])      # only effective when everything was lost in between
        if rng.random() < 0.85:
            ops.append(["unsub"])
            if rng.random() < 0.6:
                ops.append(["wait", rng.choice(WAITS)])
    return {"profile": profile, "services": services, "devver": rng.randrange(1, DEVICE_MAX[PROFILES[profile]][1] + 1),
            **rand_layout(rng, profile, services), "script": script, "default": default, "ops": ops}


def version_recipes() -> List[Dict[str, Any]]:
    """every documented version of every service type of every profile, each in turn (incl. the highest), and every
    documented version of the profile's device type"""
    out: List[Dict[str, Any]] = []
    ops = [["sub", 1], ["wait", 100125], ["unsub"]]
    for profile, cls in sorted(PROFILES.items()):
        table = SERVICE_MAX[cls]
        devmax = DEVICE_MAX[cls][1]
        top = max([devmax] + [vmax for _, vmax in table.values()])
        for v in range(1, top + 1):     # a device of generation v: every service at version min(v, its maximum)
            services = [f"{a}:{min(v, vmax)}" for a, (_, vmax) in sorted(table.items())] + ["X1"]
            out.append({"profile": profile, "services": services, "devver": min(v, devmax), "script": [],
                        "default": ["ok", 300, 0], "ops": ops})
        for a, (_, vmax) in sorted(table.items()):   # one service alone, each version in turn
            for v in range(1, vmax + 1):
                out.append({"profile": profile, "services": ["X2", f"{a}:{v}"], "devver": 1, "script": [],
                            "default": ["ok", 300, 0], "ops": ops})
            # "and ONLY": the same type one version above the table, and under another vendor domain
            out.append({"profile": profile, "services": [f"{a}:{vmax + 1}", f"{a}:1", f"vendor:{a}:1"], "devver": 1,
                        "script": [], "default": ["ok", 300, 0], "ops": ops})
        # embedded layouts: services one and two levels down (the standard IGD layout), every placement of the first
        # three services over depths 0..2, and the profile device itself embedded in a root of another type
        names = [f"{a}:1" for a in sorted(table)][:3]
        import itertools as _it
        for depths in _it.product((0, 1, 2), repeat=len(names)):
            out.append({"profile": profile, "services": names + ["X1"], "depths": list(depths) + [1], "devver": 1,
                        "script": [], "default": ["ok", 300, 0], "ops": ops})
        out.append({"profile": profile, "services": names, "depths": [0, 1, 2][:len(names)], "outer": ["X2", f"vendor:{sorted(table)[0]}:1"],
                    "devver": 1, "script": [["ok", 61, 0]] * len(names) + [["unreach", 61, 0]], "default": ["ok", 300, 0],
                    "ops": [["sub", 1], ["wait", 30125], ["wait", 400000], ["unsub"]]})
    return out


def lost_then_resub_recipe(rng) -> Dict[str, Any]:
    """every renewal of the first round fails (the renewal task ends by itself), then the caller
    subscribes again with auto-renewal and waits well past the new expiry (F12c family)"""
    profile = rng.choice(["dmr", "igd", "dms"])
    k = rng.choice([1, 1, 2, 3]) if profile != "dms" else rng.choice([1, 2])
    services = list(INTERESTING[profile])[:k] + rng.sample(["X1", "X2"], rng.choice([0, 1]))
    rng.shuffle(services)
    script = [["ok", rng.choice([61, 90, 120, 300]), rng.choice([0, 125])] for _ in range(k)]
    for _ in range(k):
        kind = rng.choice(["unreach", "refuse", "comm"])
        script.append([kind, 61, rng.choice([0, 250])])
        if kind != "unreach":
            script.append([rng.choice(["unreach", "refuse", "comm"]), 61, 0])
    t2 = rng.choice([61, 100, 300, 540, "abs"])
    ops = [["sub", 1], ["wait", 125 * rng.randrange(2400, 8000)], ["sub", 1],
           ["wait", 125 * rng.randrange(4000, 40000)], ["wait", 1000000]]
    if rng.random() < 0.7:
        ops.append(["unsub"])
    return {"profile": profile, "services": services, "script": script, "default": ["ok", t2, 0], "ops": ops}


def event_times(case: Case) -> List[int]:
    """distinct virtual times at which something happens in the trace (request arrivals, reply arrivals)"""
    ts = set()
    for ln in case.lines:
        tk = ln.split()
        if tk[:2] == ["o", "req"]:
            ts.add(int(tk[2]))
            ts.add(int(tk[2]) + int(tk[8]))
        elif tk[:2] == ["o", "cb"]:
            ts.add(int(tk[2]))
    return sorted(ts)


def unsub_points(ctx: Ctx, rec: Dict[str, Any], cid: str, horizon: int, max_points: int) -> List[Case]:
    """`sub auto; wait horizon` and, for every distinct event time of that run, unsubscribe just before / at /
    just after it (every point relative to the in-flight requests)"""
    base = {**rec, "ops": [["sub", 1], ["wait", horizon]]}
    c0 = run_recipe(ctx, base, cid + "b")
    out = [c0]
    t0 = None
    for ln in c0.lines:
        tk = ln.split()
        if tk[:2] == ["o", "ret"]:
            t0 = int(tk[2])
            break
    if t0 is None:
        return out
    pts = []
    for t in event_times(c0):
        for d in (-125, 0, 125):
            if t + d - t0 > 0 and t + d - t0 <= horizon:
                pts.append(t + d - t0)
    pts = sorted(set(pts))
    if len(pts) > max_points:
        pts = sorted(ctx.rng.sample(pts, max_points))
    for j, w in enumerate(pts):
        r = {**rec, "ops": [["sub", 1], ["wait", w], ["unsub"], ["wait", 700000], ["sub", 1], ["wait", 200000], ["unsub"]]}
        c = run_recipe(ctx, r, f"{cid}u{j}")
        c.tags.append("gen:unsub-point")
        out.append(c)
    return out


def _worker(args) -> List[Case]:
    seed, tier, kind, idx, count = args
    from vk import core
    core.activate_repo()
    import random
    ctx = Ctx("C12", tier, seed, core.VERIF / ".work", 0.0, random.Random(seed * 7919 + idx * 104729 + (1 if kind == "u" else 0)))
    out: List[Case] = []
    for j in range(count):
        calm = ctx.rng.random() < 0.45
        rec = rand_recipe(ctx.rng, calm)
        if kind == "r" and j % 12 == 11:
            c = run_recipe(ctx, lost_then_resub_recipe(ctx.rng), f"l{idx}_{j}")
            c.tags.append("gen:lost-then-resub")
            out.append(c)
        elif kind == "r":
            c = run_recipe(ctx, rec, f"r{idx}_{j}")
            c.tags.append("gen:calm" if calm else "gen:wild")
            out.append(c)
        else:
            fast = isinstance(rec["default"][1], int) and rec["default"][1] <= 150
            out.extend(unsub_points(ctx, rec, f"p{idx}_{j}", 300000 if fast else ctx.rng.choice([300000, 1000000, 4000000]), 24))
    return out


def generate(ctx: Ctx) -> List[Case]:
    cases: List[Case] = []
    for i, rec in enumerate(CORPUS):
        cases.append(run_recipe(ctx, rec, f"corpus{i}"))
    for i, rec in enumerate(version_recipes()):
        c = run_recipe(ctx, rec, f"ver{i}")
        c.tags.append("gen:versions")
        cases.append(c)
    for i, rec in enumerate(CORPUS[:6]):
        cases.extend(unsub_points(ctx, rec, f"cp{i}", 400000, 40))
    if not ctx.thorough:
        jobs = [(ctx.seed, ctx.tier, "r", 0, 500), (ctx.seed, ctx.tier, "u", 1, 25)]
        for job in jobs:
            cases.extend(_worker(job))
        return cases
    import multiprocessing as mp
    jobs = [(ctx.seed, ctx.tier, "r", i, 450) for i in range(16)] + [(ctx.seed, ctx.tier, "u", 100 + i, 40) for i in range(16)]
    with mp.get_context("fork").Pool(min(16, mp.cpu_count())) as pool:
        for chunk in pool.map(_worker, jobs):
            cases.extend(chunk)
    return cases


REQUIRED_TAGS = ([f"tmo:s{k}:{b}" for k in range(3) for b in ("61-120", "121-600", "601-1800", "inf", "abs")]
                 + [f"round:{r}" for r in ("ok", "new", "refuse", "unreach", "comm")]
                 + [f"lat:{b}" for b in ("0", "<1s", "<60s", "1-2min", ">=2min")]
                 + [f"unsubpoint:{p}" for p in ("task-not-started", "sleeping", "inflight-renewal", "inflight-fallback",
                                                "task-ended", "notask")]
                 + [f"ver:{p}:{a}:{v}" for p, c in sorted(PROFILES.items()) for a, (_, vmax) in sorted(SERVICE_MAX[c].items())
                    for v in range(1, vmax + 1)]
                 + [f"devver:{p}:{v}" for p, c in sorted(PROFILES.items()) for v in range(1, DEVICE_MAX[c][1] + 1)]
                 + ["layout:depth0", "layout:depth1", "layout:depth2", "layout:profile-embedded",
                    "only:above-max-version", "only:vendor-domain"])


def extra_evidence(ctx: Ctx, cases: List[Case], verdicts) -> Dict[str, Any]:
    """the generator must have produced every class of the property's quantifier (listed in REQUIRED_TAGS)"""
    seen = set()
    for c in cases:
        seen.update(c.tags)
    missing = [t for t in REQUIRED_TAGS if t not in seen]
    return {"quantifier_classes_required": len(REQUIRED_TAGS), "quantifier_classes_missing": missing,
            "zeno_probe": zeno_probe(ctx)}


def zeno_probe(ctx: Ctx) -> Dict[str, Any]:
    """The excluded point of theorem yield_trace (hypothesis BudgetOk), run against the REAL code and not judged:
    a publisher that grants a timeout <= RESUBSCRIBE_TOLERANCE and answers without delay makes the renewal loop
    start round after round without virtual time advancing (it still yields to the event loop at every request:
    the per-iteration step counter does not trip, the no-time-advance counter does).  Granted 61 s (the
    property's lower bound) does not."""
    out = {}
    for tmo in (60, 61):
        rec = {"profile": "dmr", "services": ["RC"], "script": [], "default": ["ok", tmo, 0], "ops": [["sub", 1], ["wait", 10000]]}
        c = run_recipe(ctx, rec, f"zeno{tmo}")
        out[f"granted_{tmo}s_latency_0"] = {
            "spin": [t for t in c.tags if t.startswith("spin:")],
            "renewal_requests": sum(1 for ln in c.lines if ln.startswith("o req") and " R " in ln)}
    return out


def signature(case: Case, verdict) -> str:
    return f"C12 {verdict.notes[:300]}"
