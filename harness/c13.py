"""C13 correspondence harness: the real `SsdpSearchResponder` / `SsdpAdvertisementAnnouncer` over generated
`UpnpServerDevice` class trees, on the virtual-time loop, with a recording response socket / transport, `randrange`
replaced by a harness-chosen value, and every emitted datagram fed to a real `SsdpListener`.
The Lean driver (`Upnp/Drv/C13.lean`) replays the case through the server model and judges the implementation's
observations with `Upnp.C13.ok`.  See DESIGN.md §5 C13 and design/C13.md."""
from __future__ import annotations

import asyncio
import multiprocessing
import os
import random
from typing import Any, Dict, List, Optional, Tuple

from harness.common import FakeTransport, exc_token, run_virtual, tok_bytes, tok_str
from vk.core import Case, Ctx

GEN_MODULES: List[str] = ["C13Server"]
MANIFEST = {
    "design_ref": "§5 C13",
    "text": ("Lean theorems over the executable model of server.py's SSDP side (device-tree instantiation, all_devices/"
             "all_services, _build_responses, _match_type_versions, _on_data with the MX jitter, _build_advertisements, "
             "the announcer cycle and byebyes) for ALL device trees, search targets, MX values, jitter choices, request "
             "histories and announcer runs: the answers to ssdp:all are 1 + 2·devices + services messages and a "
             "permutation of the UDA table; every other target is answered with exactly the prescribed subset (root, "
             "UUID, type at equal or lower version, echoing the request) or nothing; each answer once, inside the MX "
             "window, to the requester; the advertised and revoked (NT, USN) pairs are that same table, round-robin; "
             "every USN begins with the described device's UDN; every message is accepted by the model of the library's "
             "listener as that device at the description URL (main theorem c13_ok: the judge holds on every model run); "
             "history_once: the responder as an event-loop state machine with pending call_at timers sends, over ANY "
             "sequence of receptions and clock advances, exactly what the per-request function prescribes - nothing lost, "
             "duplicated or misdirected; wire_round_trip: the driver's reader of datagrams inverts build_ssdp_packet. "
             "The model is tied to server.py by generated constants/control shape (Gen/C13Server) and by a byte-for-byte "
             "differential check of every datagram, its virtual send time, destination, the randrange arguments and what "
             "a real SsdpListener reports; the same judge runs on the implementation's observations."),
    "note": ("Trusted: Lean kernel + standard axioms; the virtual-time loop, fake sockets, randrange stand-in; aiohttp "
             "header parsing inside the real listener is exercised, not modelled; ASCII text only; the always-root "
             "responder option is a parameter of model, judge and theorems (both settings generated); the *_OPTION_HEADERS "
             "option constants exist in server.py but are never read - the harness passes them and the byte-level check "
             "confirms they change nothing; the listener model is the merged C03/C04 model; real sockets/multicast are "
             "not covered."),
    "technique": "Lean 4 proof (for all trees/targets/histories) + generated tables + model/implementation correspondence",
}
RULE = ("one case = one generated device class tree (0..3 embedded devices, nested to depth 3, 0..3 services each, type "
        "versions 1..4, duplicate types among siblings, the same type at several versions, the same service type in several "
        "devices, shared UDNs, device types equal to service types, mixed letter case; responder option always-root on/off; "
        "custom-header options on/off) + an operation sequence of M-SEARCH deliveries "
        "(ssdp:all, rootdevice, every UDN, every device/service type at versions 0..5, foreign and malformed targets, "
        "random letter case; MX absent / 0..10 / negative / non-numeric; jitter choice min / max / random; delivered as a "
        "datagram through SsdpProtocol or directly to _on_data; several searches from one requester socket, also while "
        "answers to it are pending), clock advances, announcer start and stop (async_start/async_stop, or the whole SSDP "
        "side through UpnpServer), observation up to 1850 s; every emitted "
        "datagram is compared byte for byte and fed to a real SsdpListener. non-trivial = at least one datagram was "
        "emitted; distinct = distinct canonical driver text")
EXHAUSTIVE = {"quick": False, "thorough": False}
ASSUMPTIONS = [
    "text is ASCII, except that search targets may contain non-ASCII characters that str.lower() leaves non-ASCII (the "
    "model's lower is the identity on them; code points that str.lower() maps to ASCII, e.g. KELVIN SIGN, are not generated)",
    "device trees are in the domain Upnp.C13.wfTree: UDNs are uuid: names (any case) without '::' and not ending in ':', "
    "every device/service type is base:canonical-decimal-version; nothing else - devices may share UDNs or types, the same "
    "service type may occur in several devices, a device type may equal a service type (all generated); the driver checks "
    "the domain on every tree and reports a tree outside it as a failure",
    "services / embedded devices that share a type are all hosted (UpnpDevice keys further ones <type>#<serviceId> / "
    "<type>#<UDN>; only a third item with the same type AND the same id/UDN replaces the second); the model transcribes "
    "that keying (build) and the judge works on the instantiated tree",
    "the listener clause presupposes a description URL the listener does not refuse by design (is_usable_location: http(s), "
    "parsed host not localhost / loopback / IPv4 link-local); IPv4, IPv6 and named hosts are generated, and so are refused "
    "spellings (127.0.0.2, localhost, [::1], 169.254.x, IPv4-mapped loopback): there the responder must answer as usual and "
    "the model (C03 listener) and the real listener must both ignore the messages",
    "requester and multicast target are IPv4",
]
TRUSTED = [
    "C13: harness fakes (recording response socket, FakeTransport, VirtualTimeLoop, randrange stand-in, fixed time.time)",
    "C13: aiohttp HeadersParser / ssdp.decode_ssdp_packet inside the real listener are run, not modelled",
]

SERVER_ADDR = ("192.168.1.5", 1900)
TARGET = ("239.255.255.250", 1900)
REQ_HOST = "192.168.1.9"
M_SEARCH = "M-SEARCH * HTTP/1.1"
DISCOVER = '"ssdp:discover"'


# description URLs the listener refuses by design (ssdp_listener.is_usable_location): the responder must answer all
# the same, the listener must ignore the messages
UNUSABLE_BASES = ["http://127.0.0.1:8000", "http://127.0.0.2:8000", "http://localhost:8000", "http://LocalHost",
                  "http://[::1]:8000", "http://169.254.10.20:80", "http://[::ffff:127.0.0.1]:8000"]


def addr_tok(addr) -> str:
    try:
        return tok_str(f"{addr[0]}:{addr[1]}")
    except Exception:  # noqa: BLE001
        return tok_str(repr(addr))


def opt_tok(v: Optional[str]) -> str:
    return "!" if v is None else tok_str(v)


# ---------------------------------------------------------------------------------------------
# building the device classes


def make_classes(tree: Dict[str, Any], url: str):
    import xml.etree.ElementTree as ET

    from async_upnp_client.const import DeviceInfo, ServiceInfo
    from async_upnp_client.server import UpnpServerDevice, UpnpServerService

    counter = [0]
    shared = [0]

    svc_classes: Dict[Tuple[str, str], Any] = {}

    def svc_class(stype: str, sid: str):
        # ONE class per (service type, service id): devices of the tree that list the same service share the class
        # (as applications do: `SERVICES = [ConnectionManager]` on several devices); each device gets its own instance
        if (stype, sid) in svc_classes:
            shared[0] += 1
            return svc_classes[(stype, sid)]
        cls = _new_svc_class(stype, sid)
        svc_classes[(stype, sid)] = cls
        return cls

    def _new_svc_class(stype: str, sid: str):
        counter[0] += 1
        n = counter[0]
        return type(f"Svc{n}", (UpnpServerService,), {
            "SERVICE_DEFINITION": ServiceInfo(
                service_id=sid, service_type=stype, control_url=f"/c{n}",
                event_sub_url=f"/e{n}", scpd_url=f"/s{n}.xml", xml=ET.Element("server_service")),
            "STATE_VARIABLE_DEFINITIONS": {},
        })

    def dev_class(node: Dict[str, Any], is_root: bool = True):
        counter[0] += 1
        n = counter[0]
        kids = [dev_class(k, False) for k in node.get("kids", [])]
        return type(f"Dev{n}", (UpnpServerDevice,), {
            "DEVICE_DEFINITION": DeviceInfo(
                device_type=node["type"], friendly_name="f", manufacturer="m", manufacturer_url=None, model_name="n",
                model_url=None, udn=node["udn"], upc=None, model_description="d", model_number="1", serial_number="1",
                # an embedded device may carry its own DeviceInfo.url (also empty / relative); the tree is described,
                # answered for and advertised at ONE location: the root's
                presentation_url=None, url=url if is_root else node.get("url", url), icons=[],
                xml=ET.Element("server_device")),
            "EMBEDDED_DEVICES": kids,
            "SERVICES": [svc_class(ty, sid) for ty, sid in svc_pairs(node)],
        })

    return dev_class(tree)


def svc_pairs(node: Dict[str, Any]) -> List[Tuple[str, str]]:
    """(service type, service id) of a declared device; an entry of "svcs" is a type (the id is then derived from its
    position, unique within the device) or a [type, id] pair"""
    out = []
    for i, s in enumerate(node.get("svcs", [])):
        out.append((s, f"urn:upnp-org:serviceId:s{i}") if isinstance(s, str) else (s[0], s[1]))
    return out


def cls_lines(node: Dict[str, Any], depth: int = 0) -> List[str]:
    svcs = svc_pairs(node)
    out = [f"cls {depth} {tok_str(node['udn'])} {tok_str(node['type'])} "
           f"{','.join(tok_str(s) for s, _ in svcs) if svcs else '~'} {','.join(tok_str(i) for _, i in svcs) if svcs else '~'}"]
    for k in node.get("kids", []):
        out += cls_lines(k, depth + 1)
    return out


def dev_lines(device, depth: int = 0) -> List[str]:
    svcs = [s.service_type for s in device.services.values()]
    out = [f"dev {depth} {tok_str(device.udn)} {tok_str(device.device_type)} {','.join(tok_str(s) for s in svcs) if svcs else '~'}"]
    for k in device.embedded_devices.values():
        out += dev_lines(k, depth + 1)
    return out


# ---------------------------------------------------------------------------------------------
# the library's own listener, fed one datagram at a time


def hear(loop, data: bytes, kind: str) -> str:
    """Feed `data` to a fresh real SsdpListener (for a byebye: after the matching alive) and report its callback."""
    from async_upnp_client.advertisement import SsdpAdvertisementListener
    from async_upnp_client.const import SsdpSource
    from async_upnp_client.search import SsdpSearchListener
    from async_upnp_client.ssdp import SsdpProtocol
    from async_upnp_client.ssdp_listener import SsdpListener

    events: List[Tuple[str, str, Optional[str], Any]] = []

    def cb(dev, dst, source) -> None:
        events.append((dev.udn, dst, dev.location, source))

    src = ("192.168.1.77", 0)
    listener = SsdpListener(callback=cb, source=src, target=TARGET, loop=loop)
    adv = SsdpAdvertisementListener(on_alive=listener._on_alive, on_update=listener._on_update,
                                    on_byebye=listener._on_byebye, source=src, target=TARGET, loop=loop)
    srch = SsdpSearchListener(callback=listener._on_search, loop=loop, source=src, target=TARGET)
    listener._advertisement_listener = adv
    listener._search_listener = srch
    pa = SsdpProtocol(loop, on_connect=adv._on_connect, on_data=adv._on_data)
    ps = SsdpProtocol(loop, on_connect=srch._on_connect, on_data=srch._on_data)
    pa.connection_made(FakeTransport(("192.168.1.77", 1900)))
    ps.connection_made(FakeTransport(("192.168.1.77", 40000)))
    codes = {SsdpSource.SEARCH_CHANGED: 0, SsdpSource.SEARCH_ALIVE: 0, SsdpSource.ADVERTISEMENT_ALIVE: 1,
             SsdpSource.ADVERTISEMENT_BYEBYE: 2, SsdpSource.ADVERTISEMENT_UPDATE: 3}
    try:
        if kind == "search":
            ps.datagram_received(data, SERVER_ADDR)
        elif kind == "alive":
            pa.datagram_received(data, SERVER_ADDR)
        else:
            pa.datagram_received(data.replace(b"NTS:ssdp:byebye", b"NTS:ssdp:alive", 1), SERVER_ADDR)
            events.clear()
            pa.datagram_received(data, SERVER_ADDR)
            if events and events[0][0] in listener.devices:
                events.append(("still-known", "", None, None))
    except Exception as e:  # noqa: BLE001 - reported as "not accepted"
        return f"heard F {tok_str('EXC:' + exc_token(e))} - - 9"
    if len(events) != 1:
        return f"heard F - - - {9 if events else 0}"
    udn, dst, loc, source = events[0]
    if kind != "bye" and udn not in listener.devices:
        return "heard F - - - 8"
    return f"heard T {tok_str(udn)} {tok_str(str(dst))} {tok_str(loc or '')} {codes.get(source, 7)}"


def tree_tags(device) -> List[str]:
    devs = device.all_devices
    svcs = device.all_services
    out = [f"tree:devices={min(len(devs), 6)}{'+' if len(devs) > 6 else ''}",
           f"tree:depth={max(depth_of(d) for d in devs)}"]
    dtypes = [d.device_type.lower() for d in devs]
    stypes = [s.service_type.lower() for s in svcs]
    base = lambda t: t.rpartition(":")[0]  # noqa: E731
    if len(set(dtypes)) < len(dtypes):
        out.append("tree:same-device-type-twice")
    if len({base(t) for t in dtypes}) < len(set(dtypes)):
        out.append("tree:device-type-at-two-versions")
    if len(set(stypes)) < len(stypes):
        out.append("tree:same-service-type-twice")
    if len({base(t) for t in stypes}) < len(set(stypes)):
        out.append("tree:service-type-at-two-versions")
    if {base(t) for t in dtypes} & {base(t) for t in stypes}:
        out.append("tree:device-type-equals-service-type")
    if len({d.udn.lower() for d in devs}) < len(devs):
        out.append("tree:shared-udn")
    seen_cls: Dict[Any, int] = {}
    for x in svcs:
        seen_cls[type(x)] = seen_cls.get(type(x), 0) + 1
    if any(n > 1 for n in seen_cls.values()):
        out.append("tree:service-class-on-several-devices")
    if any(d.device_url != device.device_url for d in devs):
        out.append("tree:embedded-device-with-own-url")
    for d in devs:
        kt = [k.device_type for k in d.embedded_devices.values()]
        if len(set(kt)) < len(kt):
            out.append("tree:same-type-sibling-devices")
        st = [x.service_type for x in d.services.values()]
        if len(set(st)) < len(st):
            out.append("tree:same-type-services-in-one-device")
    return sorted(set(out))


def depth_of(d) -> int:
    n = 0
    while d.parent_device is not None:
        d = d.parent_device
        n += 1
    return n


def st_class(st: Optional[str], device, answered: bool) -> str:
    if st is None:
        return "absent"
    low = st.lower()
    if any(ord(c) > 127 for c in st):
        return "unicode-lookalike"
    if low == "ssdp:all":
        return "all"
    if low == "upnp:rootdevice":
        return "rootdevice"
    if any(d.udn.lower() == low for d in device.all_devices):
        return "uuid-hit"
    if low.startswith("uuid:"):
        return "uuid-miss"
    if answered:
        return "type-hit"
    types = [d.device_type.lower() for d in device.all_devices] + [s.service_type.lower() for s in device.all_services]
    if any(low.rpartition(":")[0] == t.rpartition(":")[0] for t in types):
        return "type-version-miss"
    return "foreign"


def st_of(data: bytes) -> str:
    for ln in data.decode("latin-1").split("\r\n")[1:]:
        if ln[:3].upper() == "ST:":
            return ln[3:].lower()
    return ""


def mx_class(mx: Optional[str]) -> str:
    if mx is None:
        return "absent"
    try:
        v = int(mx)
    except ValueError:
        return "non-numeric"
    return "negative" if v < 0 else "0" if v == 0 else "1-5" if v <= 5 else "6+"


# ---------------------------------------------------------------------------------------------
# running one case


class _FakeTime:
    @staticmethod
    def time() -> float:
        return 0.0


def run_recipe(ctx: Ctx, recipe: Dict[str, Any], cid: str) -> Case:
    import async_upnp_client.server as server
    from async_upnp_client.ssdp import SsdpProtocol
    from async_upnp_client.utils import CaseInsensitiveDict

    tree = recipe["tree"]
    base = recipe.get("base", "http://192.168.1.5:8000")
    url = recipe.get("url", "/device.xml")
    boot = recipe.get("boot", 1)
    config = recipe.get("config", 1)
    # every option is three-valued: absent ("absent" / key missing in the recipe), present with a falsy value
    # (False, None, 0, "", {}), present with a truthy value.  The code reads options by truthiness; so does the model.
    ar_value = recipe.get("always_root", "absent")
    always_root = ar_value != "absent" and bool(ar_value)
    custom = recipe.get("custom_headers", "absent")  # the *_OPTION_HEADERS options (defined in server.py, never read)
    extra_opts = recipe.get("extra_options") or {}   # unrelated keys in the options dicts
    opts_dict = recipe.get("options_dict", "auto")  # "auto": a dict only when something is in it; "none": options=None; "dict"
    tags = set()
    lines: List[str] = []
    state: Dict[str, Any] = {}

    via_server = bool(recipe.get("via_server", False))

    async def main(loop) -> None:
        saved = (server.time, server.randrange, server.get_ssdp_socket)
        server.time = _FakeTime
        ms = lambda: int(round(loop.time() * 1000))  # noqa: E731
        rr_calls: List[Tuple[int, int]] = []
        cur: Dict[str, Any] = {"sel": None, "addr": None, "eff": None}
        pending: Dict[Any, set] = {}          # requester -> due times (ms) of its scheduled answers

        def fake_randrange(lo, hi=None):
            rr_calls.append((lo, hi))
            if hi is None or hi <= lo:
                return random.Random(0).randrange(lo, hi)  # raises what the real one raises
            j = hi - 1 if cur["sel"] == "max" else lo + int(cur["sel"]) % (hi - lo)
            # two answers to one requester falling due at the same instant would fire in an order that is
            # not defined (timer heap); move this one by a millisecond (the model gets the effective choice)
            dues = pending.setdefault(cur["addr"], set())
            for _ in range(hi - lo):
                if ms() + j not in dues:
                    break
                j = j + 1 if j + 1 < hi else lo
            dues.add(ms() + j)
            cur["eff"] = j - lo
            return j

        server.randrange = fake_randrange

        # ---- no sockets: get_ssdp_socket / create_datagram_endpoint are replaced, everything else is the real code
        sent: List[Tuple[int, Any, bytes]] = []                # datagrams written with socket.sendto (response socket)
        tr_sent: List[Tuple[int, Any, bytes, Any]] = []        # datagrams written with transport.sendto (announcer)

        class RecSock:
            family = 2
            closed = False

            def sendto(self, data, addr):
                if self.closed:                      # like a real socket after close()
                    raise OSError(9, "Bad file descriptor")
                sent.append((ms(), addr, bytes(data)))
                return len(data)

            def bind(self, _addr):
                pass

            def getsockname(self):
                return SERVER_ADDR

            def setblocking(self, _flag):
                pass

            def close(self):
                self.closed = True

        class EndpointTransport:
            def __init__(self, sock):
                self.sock, self.proto, self.closed = sock, None, False

            def sendto(self, data, addr=None):
                if self.closed:
                    raise OSError(9, "Bad file descriptor")
                tr_sent.append((ms(), addr, bytes(data), self))

            def get_protocol(self):
                return self.proto

            def get_extra_info(self, name, default=None):
                return self.sock if name == "socket" else SERVER_ADDR if name == "sockname" else default

            def close(self):
                self.closed = True
                if self.sock is not None:
                    self.sock.close()             # a transport owns its socket

            def is_closing(self):
                return self.closed

        def fake_get_ssdp_socket(source, target):
            return RecSock(), source, target

        async def fake_endpoint(protocol_factory, sock=None, **_kw):
            tr = EndpointTransport(sock)
            tr.proto = protocol_factory()
            tr.proto.connection_made(tr)
            return tr, tr.proto

        server.get_ssdp_socket = fake_get_ssdp_socket
        loop.create_datagram_endpoint = fake_endpoint  # type: ignore[method-assign]

        responder_options: Optional[Dict[str, Any]] = {}
        announcer_options: Optional[Dict[str, Any]] = {}
        if ar_value != "absent":
            responder_options[server.SSDP_SEARCH_RESPONDER_OPTION_ALWAYS_REPLY_WITH_ROOT_DEVICE] = ar_value
            tags.add("option:always-root=" + ("truthy" if always_root else "present-falsy"))
        else:
            tags.add("option:always-root=absent")
        if custom != "absent":
            responder_options[server.SSDP_SEARCH_RESPONDER_OPTION_HEADERS] = None if custom is None else dict(custom)
            announcer_options[server.SSDP_ADVERTISEMENT_ANNOUNCER_OPTION_HEADERS] = None if custom is None else dict(custom)
            tags.add("option:custom-headers=" + ("non-empty" if custom else "present-empty"))
        else:
            tags.add("option:custom-headers=absent")
        if extra_opts:
            responder_options.update(extra_opts)
            announcer_options.update(extra_opts)
            tags.add("option:unrelated-keys")
        # an empty options dict is passed as {} ("dict") or as None ("auto" / "none")
        if not responder_options and opts_dict != "dict":
            responder_options = None
        if not announcer_options and opts_dict != "dict":
            announcer_options = None
        tags.add("option:dict=" + ("None" if responder_options is None else "empty" if not responder_options else "filled"))
        try:
            root_cls = make_classes(tree, url)
            ann: Dict[str, Any] = {}
            srv = None
            if via_server:
                # the whole SSDP side through UpnpServer._async_start_ssdp / _async_stop_ssdp
                port = int(base.rsplit(":", 1)[1]) if base.count(":") == 2 and base.rsplit(":", 1)[1].isdigit() else 8000
                srv = server.UpnpServer(root_cls, source=(SERVER_ADDR[0], 0), target=TARGET, http_port=port,
                                        boot_id=boot, config_id=config,
                                        options={server.SSDP_SEARCH_RESPONDER_OPTIONS: responder_options,
                                                 server.SSDP_ADVERTISEMENT_ANNOUNCER_OPTIONS: announcer_options})
                srv._create_device()
                device = srv._device
                base_uri = srv.base_uri
                tags.add("start:UpnpServer")
            else:
                device = root_cls(server.NopRequester(), base, boot, config)
                base_uri = base
                tags.add("start:async_start")
            lines.append("cfg " + " ".join([tok_str(base_uri), tok_str(url), tok_str(server.HEADER_SERVER),
                                            tok_str("Thu, 01 Jan 1970 00:00:00 GMT"), tok_str(str(boot)),
                                            tok_str(str(config)), tok_str(f"{TARGET[0]}:{TARGET[1]}"), addr_tok(TARGET),
                                            "absent" if ar_value == "absent" else "truthy" if always_root else "falsy"]))
            lines.extend(cls_lines(tree))
            lines.extend(dev_lines(device))
            tags.update(tree_tags(device))
            from async_upnp_client.ssdp_listener import is_usable_location
            tags.add("location:" + ("usable" if is_usable_location(base_uri + url) else "refused-by-listener"))

            if via_server:
                ann["start"] = ms()
                await srv._async_start_ssdp()
                responder = srv._search_responder
                ann["announcer"] = srv._advertisement_announcer
            else:
                responder = server.SsdpSearchResponder(device, source=(SERVER_ADDR[0], 0), target=TARGET,
                                                       options=responder_options)
                await responder.async_start()            # public entry point
            rproto = responder._transport.get_protocol()
            running = [True]                          # the responder is listening

            searches: List[Dict[str, Any]] = []

            async def advance(delta_ms: int) -> None:
                await asyncio.sleep(delta_ms / 1000)

            def off_tick() -> bool:
                return "start" in ann and (ms() - ann["start"]) % 1000 == 0

            for op in recipe["ops"]:
                name = op[0]
                if name == "advance":
                    await advance(int(op[1]))
                    tags.add("op:advance")
                elif name == "rstop":
                    # responder life cycle: stop listening (answers already scheduled still go out) ...
                    if via_server or not running[0]:
                        continue
                    await responder.async_stop()
                    running[0] = False
                    tags.add("op:responder-stop")
                elif name == "rstart":
                    # ... and start the SAME responder object again: it must answer as before
                    if via_server or running[0]:
                        continue
                    await responder.async_start()
                    rproto = responder._transport.get_protocol()
                    running[0] = True
                    tags.add("op:responder-restart")
                elif name == "search":
                    if not running[0]:
                        continue                      # nobody listens: the datagram reaches no handler
                    s = dict(op[1])
                    sid = len(searches)
                    line, man, st, mx = s.get("line", M_SEARCH), s.get("man", DISCOVER), s.get("st"), s.get("mx")
                    is_msearch = line == M_SEARCH and man == DISCOVER
                    # several searches may come from one requester; anything that is not an M-SEARCH gets its own
                    port = 10000 + int(s.get("req", sid)) % 1000 if is_msearch else 20000 + sid
                    addr = (REQ_HOST, port)
                    # an answer of this requester falling due right now: let it fire first (order would be undefined)
                    while ms() in pending.get(addr, ()):
                        await advance(1)
                    sel = s.get("sel", "max")
                    cur.update(sel=sel, addr=addr, eff=None)
                    n0 = len(rr_calls)
                    rec = {"id": sid, "time": ms(), "addr": addr, "line": line, "man": man, "st": st, "mx": mx,
                           "sel": sel, "raise": None}
                    try:
                        if s.get("via", "datagram") == "direct":
                            hd = {"HOST": "239.255.255.250:1900"}
                            if man is not None:
                                hd["MAN"] = man
                            if mx is not None:
                                hd["MX"] = mx
                            if st is not None:
                                hd["ST"] = st
                            headers = CaseInsensitiveDict(hd, _remote_addr=addr, _host=addr[0], _port=port)
                            responder._on_data(line, headers)
                            tags.add("via:direct")
                        else:
                            pkt = line + "\r\nHOST:239.255.255.250:1900\r\n"
                            if man is not None:
                                pkt += f"MAN:{man}\r\n"
                            if mx is not None:
                                pkt += f"MX:{mx}\r\n"
                            if st is not None:
                                pkt += f"ST:{st}\r\n"
                            pkt += "\r\n"
                            rproto.datagram_received(pkt.encode(), addr)
                            tags.add("via:datagram")
                    except Exception as e:  # noqa: BLE001 - an exception out of the handler is an observation
                        rec["raise"] = exc_token(e)
                        tags.add(f"raise:{rec['raise']}")
                    rec["rr"] = rr_calls[n0:]
                    if cur["eff"] is not None:
                        rec["sel"] = cur["eff"]
                    if any(o["addr"] == addr for o in searches):
                        tags.add("requester:reused")
                        if any(t >= ms() for t in pending.get(addr, ())) and len(pending.get(addr, ())) > (1 if rec["rr"] else 0):
                            tags.add("requester:reused-while-answer-pending")
                    searches.append(rec)
                    tags.add("op:search")
                elif name == "astart":
                    if "start" in ann:
                        continue
                    announcer = server.SsdpAdvertisementAnnouncer(device, source=(SERVER_ADDR[0], 0), target=TARGET,
                                                                  options=announcer_options, loop=loop)
                    ann.update(start=ms(), announcer=announcer)
                    await announcer.async_start()         # public entry point (first announcement included)
                    tags.add("op:astart")
                elif name == "astop":
                    if "start" not in ann or "stop" in ann:
                        continue
                    if off_tick():
                        await advance(7)
                    ann["stop"] = ms()
                    if via_server:
                        await srv._async_stop_ssdp()
                    else:
                        await ann["announcer"].async_stop()
                    tags.add("op:astop")
                else:
                    raise ValueError(name)
            # let every pending response fire (cap 5 s) and make sure the announcer is silent after a stop
            await advance(6000)
            if "start" in ann and "stop" not in ann and off_tick():
                await advance(7)
            await advance(int(recipe.get("tail", 0)))
            state["end"] = ms()

            # ---- report: the requests, then the response socket in send order, then the announcer
            n_sent = 0
            for rec in searches:
                lines.append(f"search {rec['id']} {rec['time']} {addr_tok(rec['addr'])} {tok_str(rec['line'])} "
                             f"{opt_tok(rec['man'])} {opt_tok(rec['st'])} {opt_tok(rec['mx'])} {rec['sel']}")
                if rec["raise"]:
                    lines.append(f"raise {rec['raise']}")
                if len(rec["rr"]) == 0:
                    lines.append("rr none")
                else:
                    for lo, hi in rec["rr"]:
                        lines.append(f"rr {lo} {hi}")
                answered = any(st_of(d) == (rec["st"] or "").lower() for _, a, d in sent if a == rec["addr"])
                tags.add("st:" + st_class(rec["st"], device, answered))
                tags.add("mx:" + mx_class(rec["mx"]))
                tags.add("jitter:" + ("none" if not rec["rr"] else "max" if rec["sel"] == "max" else "min" if rec["sel"] == 0 else "mid"))
                if rec["line"] != M_SEARCH or rec["man"] != DISCOVER:
                    tags.add("not-msearch")
                if rec["rr"]:
                    tags.add("delayed-send")
            for t, addr, data in sent:
                lines.append(f"sent {t} {addr_tok(addr)} {tok_bytes(data)}")
                lines.append(hear(loop, data, "search"))
                n_sent += 1
            tags.add("answers:" + ("0" if not sent else "1-5" if len(sent) <= 5 else "6-20" if len(sent) <= 20 else "21+"))
            other = [x for x in tr_sent if "announcer" not in ann or x[3] is not ann["announcer"]._transport]
            if other:
                lines.append(f"unexpected-transport-send {len(other)}")
            if "start" in ann:
                stopped = "stop" in ann
                upto = ann["stop"] if stopped else state["end"]
                lines.append(f"ann {ann['start']} {upto} {1 if stopped else 0}")
                alog = [x for x in tr_sent if x[3] is ann["announcer"]._transport]
                n_alive = 0
                for t, addr, data, _tr in alog:
                    is_bye = b"ssdp:byebye" in data
                    n_alive += 0 if is_bye else 1
                    lines.append(f"{'bye' if is_bye else 'alive'} {t} {addr_tok(addr)} {tok_bytes(data)}")
                    lines.append(hear(loop, data, "bye" if is_bye else "alive"))
                    n_sent += 1
                tags.add("announcer:" + ("stopped" if stopped else "running"))
                tags.add("alives:" + ("0" if n_alive == 0 else "<cycle" if n_alive < 8 else "cycles"))
            state["n_sent"] = n_sent
        finally:
            server.time, server.randrange, server.get_ssdp_socket = saved

    run_virtual(main)
    return Case(cid, lines, recipe, state.get("n_sent", 0) > 0, sorted(tags))


# ---------------------------------------------------------------------------------------------
# generators

DEV_NAMES = ["MediaServer", "MediaRenderer", "InternetGatewayDevice", "WANDevice", "Basic", "thing"]
SVC_NAMES = ["ContentDirectory", "ConnectionManager", "AVTransport", "WANIPConnection", "Layer3Forwarding", "x"]
DOMAINS = ["schemas-upnp-org", "acme-com", "Schemas-UPnP-Org"]


def rand_udn(rng: random.Random) -> str:
    body = "-".join("".join(rng.choice("0123456789abcdefABCDEF") for _ in range(n)) for n in (8, 4, 4))
    return rng.choice(["uuid:", "uuid:", "uuid:", "UUID:", "Uuid:"]) + body


def rand_tree(rng: random.Random, depth: int = 0, used=None) -> Dict[str, Any]:
    used = used if used is not None else set()
    udn = rand_udn(rng)
    if used and rng.random() < 0.05:
        udn = rng.choice(sorted(used))  # two devices sharing a UDN
    used.add(udn)
    kind = rng.choice(["device", "device", "device", "device", "device", "device", "device", "thing"])
    skind = lambda: "service" if kind == "device" or rng.random() < 0.5 else "thing"  # noqa: E731
    node = {
        "udn": udn,
        # "thing" types: vendor names without the device/service marker, so a device type can equal a service type
        "type": f"urn:{rng.choice(DOMAINS)}:{kind}:{rng.choice(DEV_NAMES)}:{rng.randrange(1, 5)}",
        "svcs": [f"urn:{rng.choice(DOMAINS)}:{skind()}:{rng.choice(SVC_NAMES + (DEV_NAMES if kind == 'thing' else []))}:{rng.randrange(1, 5)}"
                 for _ in range(rng.randrange(0, 4))],
        "kids": [],
    }
    if depth > 0 and rng.random() < 0.6:
        node["url"] = rng.choice(["/emb.xml", "/desc/embedded.xml", "", "emb.xml", "../e.xml", "/device.xml#e",
                                  f"/dev{rng.randrange(100)}.xml", "http://192.168.1.5:9/other.xml"])
    if depth < 3:
        nk = rng.choice([0, 0, 1, 1, 2, 3]) if depth == 0 else rng.choice([0, 0, 0, 1, 2])
        node["kids"] = [rand_tree(rng, depth + 1, used) for _ in range(nk)]
    # services / embedded devices sharing a type are ordinary (two WANConnectionDevices, two identical sensors)
    if node["svcs"] and len(node["svcs"]) < 3 and rng.random() < 0.25:
        node["svcs"].append(rng.choice(node["svcs"]))          # same type, another service id
    if len(node["kids"]) >= 2 and rng.random() < 0.35:
        a, b = rng.sample(range(len(node["kids"])), 2)
        node["kids"][b]["type"] = node["kids"][a]["type"]       # sibling devices of one type
        if rng.random() < 0.1:
            node["kids"][b]["udn"] = node["kids"][a]["udn"]
    return node


def flatten(node: Dict[str, Any]) -> List[Dict[str, Any]]:
    out = [node]
    for k in node.get("kids", []):
        out += flatten(k)
    return out


def recase(rng: random.Random, s: str) -> str:
    c = rng.randrange(4)
    if c == 0:
        return s
    if c == 1:
        return s.upper()
    if c == 2:
        return s.lower()
    return "".join(ch.upper() if rng.random() < 0.5 else ch.lower() for ch in s)


FOREIGN = ["uuid:00000000-0000-0000-0000-000000000000", "urn:schemas-upnp-org:device:Nope:1",
           "urn:schemas-upnp-org:service:Nope:1", "ssdp:al", "ssdp:all ", "ssdp:alll", "upnp:rootdevic", "uuid:", "", ":", "::",
           "urn:schemas-upnp-org:device:MediaServer", "urn:schemas-upnp-org:device:MediaServer:",
           "urn:schemas-upnp-org:device:MediaServer:01", "urn:schemas-upnp-org:device:MediaServer:+1",
           "urn:schemas-upnp-org:device:MediaServer:1:1", "urn:schemas-upnp-org:device:MediaServer:-1",
           "urn:schemas-upnp-org:device:MediaServer:1_0", "urn:schemas-upnp-org:device:MediaServer:x",
           "MediaServer:1", "device:MediaServer:1", "*", "ssdp:all,upnp:rootdevice", "\x7f!#$%&", "0", "1"]
MX_VALUES = [None, None, "0", "1", "2", "3", "4", "5", "6", "7", "8", "9", "10", "-1", "-3", "abc", "", "1.5", "+2",
             "1_0", "0x2", "120", "00", "03"]


def _lookalike_table() -> Dict[str, List[str]]:
    """ASCII text -> non-ASCII strings that are NOT equal to it under str.lower() but become it under casefold(),
    upper().lower() or NFKC/NFKD normalisation (computed, not listed: every BMP code point is tried)"""
    import unicodedata
    table: Dict[str, List[str]] = {}
    for cp in range(0x80, 0x10000):
        ch = chr(cp)
        if 0xD800 <= cp <= 0xDFFF:
            continue
        low = ch.lower()
        if any(ord(x) < 128 for x in low):
            continue                                   # str.lower() itself already yields ASCII (e.g. KELVIN SIGN)
        for f in (str.casefold, lambda x: x.upper().lower(), lambda x: unicodedata.normalize("NFKC", x).lower(),
                  lambda x: unicodedata.normalize("NFKD", x).lower()):
            t = f(ch)
            if t and len(t) <= 3 and all(ord(x) < 128 for x in t) and t.isalnum():
                lst = table.setdefault(t, [])
                if ch not in lst and len(lst) < 6:
                    lst.append(ch)
    return table


_LOOKALIKES: Dict[str, List[str]] = {}


def lookalikes(rng: random.Random, target: str, n: int = 2) -> List[str]:
    """variants of one of the server's own targets in which some characters are replaced by non-ASCII look-alikes;
    str.lower() does not map them back, so they are foreign targets"""
    if not _LOOKALIKES:
        _LOOKALIKES.update(_lookalike_table())
    out = []
    low = target.lower()
    spots = [(i, k) for k in _LOOKALIKES for i in range(len(low)) if low.startswith(k, i)]
    for _ in range(n):
        if not spots:
            break
        i, k = rng.choice(spots)
        out.append(target[:i] + rng.choice(_LOOKALIKES[k]) + target[i + len(k):])
    return out


def all_targets(rng: random.Random, tree: Dict[str, Any]) -> List[Optional[str]]:
    t: List[Optional[str]] = ["ssdp:all", "upnp:rootdevice", recase(rng, "ssdp:all"), recase(rng, "upnp:rootdevice"), None]
    for d in flatten(tree):
        t.append(d["udn"])
        t.append(recase(rng, d["udn"]))
        t.append(d["udn"] + "::" + d["type"])
        types = [d["type"]] + [ty for ty, _ in svc_pairs(d)]
        for ty in types:
            basepart, _, _v = ty.rpartition(":")
            for v in range(0, 6):
                t.append(recase(rng, f"{basepart}:{v}") if rng.random() < 0.4 else f"{basepart}:{v}")
    t += FOREIGN
    own = ["ssdp:all", "upnp:rootdevice"]
    for d in flatten(tree):
        own += [d["udn"], d["type"]] + [ty for ty, _ in svc_pairs(d)]
    rng.shuffle(own)
    for tgt in ["ssdp:all", "upnp:rootdevice"] + own[:6]:
        t += lookalikes(rng, tgt, 1)
    return t


def rand_search(rng: random.Random, st: Optional[str]) -> Dict[str, Any]:
    s: Dict[str, Any] = {"st": st, "mx": rng.choice(MX_VALUES)}
    s["sel"] = rng.choice(["max", "max", 0, 0, rng.randrange(0, 100000)])
    if rng.random() < 0.75:
        s["req"] = rng.randrange(0, 3)      # a control point sends several searches from one socket
    safe = all(32 < ord(c) < 127 for c in (st or "x")) and all(32 < ord(c) < 127 for c in (s["mx"] or "x"))
    s["via"] = "datagram" if safe and rng.random() < 0.8 else "direct"
    r = rng.random()
    if r < 0.02:
        s["man"] = rng.choice([None, "ssdp:discover", '"ssdp:alive"'])
    elif r < 0.04:
        s["line"] = rng.choice(["NOTIFY * HTTP/1.1", "M-SEARCH * HTTP/1.0", "HTTP/1.1 200 OK"])
        s["via"] = "direct" if s["line"].endswith("1.0") else s["via"]
    if s["via"] == "direct" and rng.random() < 0.3:
        s["mx"] = rng.choice([" 3", "3 ", "\t2\n", "- 1", "1e1", "2 2"])
    return s


def share_services(rng: random.Random, tree: Dict[str, Any]) -> None:
    """make devices of the tree list the SAME service (type and id, hence one class): root and embedded, siblings,
    nested levels; every (device, service type) pair must still be answered / advertised under its own device's UDN"""
    devs = flatten(tree)
    donors = [d for d in devs if d["svcs"]]
    if len(devs) < 2 or not donors:
        return
    for _ in range(rng.choice([1, 1, 2, 3])):
        src = rng.choice(donors)
        i = rng.randrange(len(src["svcs"]))
        ty, sid = svc_pairs(src)[i]
        src["svcs"][i] = [ty, sid]                      # pin the id so that both list the identical service
        dst = rng.choice([d for d in devs if d is not src])
        if len(dst["svcs"]) >= 3:
            dst["svcs"][rng.randrange(len(dst["svcs"]))] = [ty, sid]
        else:
            dst["svcs"].append([ty, sid])


def tree_cases(rng: random.Random, tree: Dict[str, Any], prefix: str, per_case: int = 10) -> List[Dict[str, Any]]:
    if rng.random() < 0.5:
        share_services(rng, tree)
    targets = all_targets(rng, tree)
    rng.shuffle(targets)
    recipes = []
    for ci in range(0, len(targets), per_case):
        ops: List[Any] = []
        chunk = targets[ci:ci + per_case]
        with_ann = ci == 0 or rng.random() < 0.15
        if with_ann and rng.random() < 0.7:
            ops.append(["advance", rng.randrange(0, 5000)])
            ops.append(["astart"])
        for st in chunk:
            ops.append(["search", rand_search(rng, st)])
            if rng.random() < 0.6:
                ops.append(["advance", rng.choice([1, 50, 100, 400, 999, 1000, 2500, 5000, 30000, rng.randrange(1, 90000)])])
        if rng.random() < 0.25:
            # stop / start the responder (possibly repeatedly) before and between the searches
            for _ in range(rng.choice([1, 1, 2, 3])):
                pos = rng.randrange(0, len(ops) + 1)
                ops[pos:pos] = [["rstop"]] + ([["advance", rng.choice([0, 10, 3000])]] if rng.random() < 0.5 else []) + [["rstart"]]
        if with_ann:
            if not any(o[0] == "astart" for o in ops):
                ops.insert(rng.randrange(0, len(ops) + 1), ["astart"])
            ops.append(["advance", rng.choice([0, 29999, 30000, 30001, 250000, rng.randrange(0, 900000),
                                               rng.choice([250000, 1850000])])])  # sometimes longer than the stated max-age
            if rng.random() < 0.75:
                ops.append(["astop"])
        recipes.append({"tree": tree, "ops": ops, "tail": rng.choice([0, 0, 31000, 65000]),
                        "base": rng.choice(["http://192.168.1.5:8000", "http://10.0.0.1", "https://server.example:8443",
                                            "http://[2001:db8::1]:80", "http://192.168.1.5:8000", "http://10.0.0.1"]
                                           if rng.random() < 0.85 else UNUSABLE_BASES),
                        "url": rng.choice(["/device.xml", "/", "/desc/root.xml"]),
                        "boot": rng.choice([1, 1, 7, 12345]), "config": rng.choice([1, 1, 2]),
                        "always_root": rng.choice(["absent"] * 12 + [False, None, 0, "", False] + [True, True, 1, "yes"]),
                        "via_server": rng.random() < 0.15,
                        "custom_headers": rng.choice(["absent"] * 8 + [{}, None] + [{"X-CUSTOM": "1", "SERVER": "other/1.0"}]),
                        "extra_options": rng.choice([None] * 5 + [{"unrelated": True, "ssdp_search_responder_always_rootdevic": True}]),
                        "options_dict": rng.choice(["auto", "auto", "dict", "none"])})
    return recipes


def _worker(args) -> List[Case]:
    seed, start, recipes, tier = args
    from vk.core import activate_repo
    activate_repo()
    ctx = Ctx("C13", tier, seed, None, 0)  # type: ignore[arg-type]
    return [run_recipe(ctx, r, f"g{start + i}") for i, r in enumerate(recipes)]


def generate(ctx: Ctx) -> List[Case]:
    cases: List[Case] = []
    for i, rec in enumerate(CORPUS):
        cases.append(run_recipe(ctx, rec, f"corpus{i}"))
    n_trees = 2400 if ctx.thorough else 150
    recipes: List[Dict[str, Any]] = []
    for ti in range(n_trees):
        tree = rand_tree(ctx.rng)
        recipes += tree_cases(ctx.rng, tree, f"t{ti}")
    if ctx.thorough:
        nproc = min(16, os.cpu_count() or 4)
        chunk = max(1, (len(recipes) + nproc * 4 - 1) // (nproc * 4))
        jobs = [(ctx.seed, i, recipes[i:i + chunk], ctx.tier) for i in range(0, len(recipes), chunk)]
        with multiprocessing.get_context("fork").Pool(nproc) as pool:
            for part in pool.map(_worker, jobs):
                cases += part
    else:
        cases += [run_recipe(ctx, r, f"g{i}") for i, r in enumerate(recipes)]
    return cases


def _t(udn, ty, svcs=(), kids=()):
    return {"udn": udn, "type": ty, "svcs": list(svcs), "kids": list(kids)}


_EMB = _t("uuid:emb", "urn:schemas-upnp-org:device:Emb:2", ["urn:schemas-upnp-org:service:B:1"])
_ROOT = _t("uuid:root", "urn:schemas-upnp-org:device:Root:1", ["urn:schemas-upnp-org:service:A:3"], [_EMB])

CORPUS: List[Dict[str, Any]] = [
    # F13a: embedded device and its service answered under the root's UDN
    {"tree": _ROOT, "ops": [["search", {"st": "ssdp:all"}]]},
    {"tree": _ROOT, "ops": [["search", {"st": "uuid:emb"}]]},
    {"tree": _ROOT, "ops": [["search", {"st": "urn:schemas-upnp-org:service:B:1"}]]},
    # F13b: MX present -> answered now and again after the jitter
    {"tree": _ROOT, "ops": [["search", {"st": "upnp:rootdevice", "mx": "2", "sel": 300}]]},
    # F13c: negative MX raises out of the handler
    {"tree": _ROOT, "ops": [["search", {"st": "upnp:rootdevice", "mx": "-1"}]]},
    # version matching, echo, announcer cycle + stop
    {"tree": _ROOT, "ops": [["astart"], ["search", {"st": "URN:schemas-upnp-org:device:emb:1", "mx": "5", "sel": "max"}],
                            ["search", {"st": "urn:schemas-upnp-org:device:Emb:3", "mx": "1", "sel": 0}],
                            ["advance", 200000], ["astop"]], "tail": 61000},
    # duplicate types among siblings collapse in the device's dicts
    {"tree": _t("uuid:r", "urn:schemas-upnp-org:device:Root:1",
                ["urn:schemas-upnp-org:service:A:3", "urn:schemas-upnp-org:service:A:3"], [_EMB, _t("uuid:emb2", _EMB["type"])]),
     "ops": [["search", {"st": "ssdp:all", "mx": "3", "sel": 17}], ["astart"], ["advance", 100000]]},
]


_THING = _t("uuid:thing", "urn:acme-com:thing:Light:2", ["urn:acme-com:thing:Light:2", "urn:acme-com:thing:Light:1"],
            [_t("uuid:thing-2", "urn:acme-com:thing:Light:1", ["urn:acme-com:thing:Light:2"]),
             _t("UUID:THING", "urn:acme-com:thing:Light:3")])
CORPUS += [
    # a device type that is also a service type; two devices sharing a UDN (letter case apart); the same service type
    # in two devices; one type at three versions: every match must be answered, each once
    {"tree": _THING, "ops": [["search", {"st": "urn:acme-com:thing:Light:1"}], ["search", {"st": "urn:acme-com:thing:Light:2"}],
                             ["search", {"st": "urn:acme-com:thing:light:3", "mx": "2", "sel": 5}],
                             ["search", {"st": "uuid:thing"}], ["search", {"st": "ssdp:all"}], ["astart"], ["advance", 400000],
                             ["astop"]]},
    # responder option always-root: one extra root message on every search, also on foreign targets
    {"tree": _ROOT, "always_root": True,
     "ops": [["search", {"st": "ssdp:all"}], ["search", {"st": "upnp:rootdevice", "mx": "1", "sel": 0}],
             ["search", {"st": "urn:schemas-upnp-org:service:B:1"}], ["search", {"st": "nothing"}], ["search", {"st": None}]]},
    # the *_OPTION_HEADERS options are defined but not read by server.py: packets are unchanged
    {"tree": _ROOT, "custom_headers": {"X-CUSTOM": "1"}, "ops": [["search", {"st": "ssdp:all"}], ["astart"], ["advance", 31000], ["astop"]]},
]


_SENSOR = "urn:acme-com:device:Sensor:1"
_TEMP = "urn:acme-com:service:Temp:2"
CORPUS += [
    # same-type sibling devices and same-type services (distinct ids) are all hosted: every one is answered and advertised
    {"tree": _t("uuid:hub", "urn:acme-com:device:Hub:1", [_TEMP, _TEMP, _TEMP],
                [_t("uuid:s1", _SENSOR, [_TEMP, _TEMP]), _t("uuid:s2", _SENSOR, [_TEMP]), _t("uuid:s3", _SENSOR)]),
     "ops": [["search", {"st": "ssdp:all"}], ["search", {"st": _TEMP}], ["search", {"st": "urn:acme-com:device:sensor:0"}],
             ["search", {"st": "uuid:s3"}], ["astart"], ["advance", 1000000], ["astop"]]},
    # the corner of the keying scheme: a third item with the same type AND the same service id / UDN replaces the second
    {"tree": _t("uuid:hub", "urn:acme-com:device:Hub:1", [[_TEMP, "id:a"], [_TEMP, "id:a"], [_TEMP, "id:a"], [_TEMP, "id:b"]],
                [_t("uuid:s1", _SENSOR, [_TEMP]), _t("uuid:s1", _SENSOR), _t("uuid:s1", _SENSOR, [_TEMP, _TEMP])]),
     "ops": [["search", {"st": "ssdp:all"}], ["search", {"st": _SENSOR}], ["astart"], ["advance", 100000], ["astop"]]},
]


CORPUS += [
    # audit C13-1: two searches from the SAME socket, the second while the first (MX 3) answer is pending; then the same
    # target twice; each must be answered once within its own window
    {"tree": _ROOT, "ops": [["search", {"st": "upnp:rootdevice", "mx": "3", "sel": 0, "req": 0}],
                            ["search", {"st": "urn:schemas-upnp-org:service:A:1", "mx": "3", "sel": 0, "req": 0}],
                            ["advance", 50], ["search", {"st": "upnp:rootdevice", "mx": "3", "sel": 0, "req": 0}],
                            ["advance", 10000], ["search", {"st": "upnp:rootdevice", "mx": "1", "sel": "max", "req": 0}],
                            ["search", {"st": "ssdp:all", "req": 0}]]},
    # audit C13-2: observed for longer than the max-age the server states (1800 s): it must have advertised
    {"tree": _ROOT, "ops": [["astart"], ["advance", 1850000], ["astop"]]},
    # audit C13-2: the whole SSDP side started and stopped through UpnpServer._async_start_ssdp / _async_stop_ssdp
    {"tree": _ROOT, "via_server": True, "ops": [["search", {"st": "ssdp:all", "mx": "2", "sel": 3}], ["advance", 100000], ["astop"]],
     "tail": 61000},
]


CORPUS += [
    # round 5: a server whose description URL the listener refuses (other spellings of loopback): answered, but ignored
    {"tree": _ROOT, "base": b, "ops": [["search", {"st": "ssdp:all"}], ["astart"], ["advance", 31000], ["astop"]]}
    for b in ("http://127.0.0.2:8000", "http://localhost:8000", "http://[::1]:8000")
]


CORPUS += [
    # round 6: embedded devices with their own DeviceInfo.url (different / empty / relative): every answer and every
    # advertisement still carries the ROOT description URL
    {"tree": _t("uuid:root", "urn:schemas-upnp-org:device:Root:1", ["urn:schemas-upnp-org:service:A:3"],
                [dict(_t("uuid:emb", "urn:schemas-upnp-org:device:Emb:2", ["urn:schemas-upnp-org:service:B:1"],
                         [dict(_t("uuid:leaf", "urn:schemas-upnp-org:device:Leaf:1", ["urn:schemas-upnp-org:service:C:1"]), url="")]),
                      url="/emb.xml")]),
     "ops": [["search", {"st": "ssdp:all"}], ["search", {"st": "uuid:emb"}], ["search", {"st": "urn:schemas-upnp-org:service:B:1"}],
             ["search", {"st": "urn:schemas-upnp-org:device:leaf:1"}], ["astart"], ["advance", 400000], ["astop"]]},
]


CORPUS += [
    # round 7: the always-root option PRESENT BUT FALSY must behave like absent (no extra root answer)
    {"tree": _ROOT, "always_root": v, "options_dict": "dict",
     "ops": [["search", {"st": "ssdp:all"}], ["search", {"st": "upnp:rootdevice"}], ["search", {"st": "nothing"}],
             ["search", {"st": "urn:schemas-upnp-org:service:B:1", "mx": "1", "sel": 0}]]}
    for v in (False, None, 0, "")
] + [
    {"tree": _ROOT, "always_root": "yes", "custom_headers": {}, "extra_options": {"unrelated": 1},
     "ops": [["search", {"st": "nothing"}], ["astart"], ["advance", 31000], ["astop"]]},
    {"tree": _ROOT, "via_server": True, "always_root": False, "custom_headers": None,
     "ops": [["search", {"st": "nothing"}], ["search", {"st": "upnp:rootdevice"}], ["advance", 31000], ["astop"]]},
]


CORPUS += [
    # batch 5: start -> stop -> start on ONE responder object, then searches (immediate and delayed) must be answered
    {"tree": _ROOT, "ops": [["rstop"], ["rstart"], ["search", {"st": "upnp:rootdevice"}],
                            ["search", {"st": "ssdp:all", "mx": "2", "sel": 0}], ["rstop"], ["advance", 50], ["rstart"],
                            ["rstop"], ["rstart"], ["search", {"st": "uuid:emb", "mx": "1", "sel": "max"}]]},
    # batch 5: look-alikes of the server's own targets (casefold / NFKC would fold them, lower() does not): foreign
    {"tree": _ROOT, "ops": [["search", {"st": "\u017fsdp:all", "via": "direct"}], ["search", {"st": "upnp:rootdevi\uff43e", "via": "direct"}],
                            ["search", {"st": "uuid:e\uff4db", "via": "direct"}],
                            ["search", {"st": "urn:schemas-upnp-org:\u017fervice:B:1", "via": "direct"}],
                            ["search", {"st": "urn:schemas-upnp-org:device:Emb:\uff11", "via": "direct"}]]},
]


_CM = ["urn:schemas-upnp-org:service:ConnectionManager:2", "urn:upnp-org:serviceId:ConnectionManager"]
CORPUS += [
    # batch 6: ONE service class on root, an embedded device, its sibling and a nested device: each (device, service)
    # pair is answered and advertised under its own device's UDN
    {"tree": _t("uuid:root", "urn:schemas-upnp-org:device:Root:1", [_CM],
                [_t("uuid:e1", "urn:schemas-upnp-org:device:Emb:1", [_CM], [_t("uuid:n1", "urn:schemas-upnp-org:device:Leaf:1", [_CM])]),
                 _t("uuid:e2", "urn:schemas-upnp-org:device:Emb:1", [_CM])]),
     "ops": [["search", {"st": "ssdp:all"}], ["search", {"st": "urn:schemas-upnp-org:service:ConnectionManager:1", "mx": "1", "sel": 0}],
             ["astart"], ["advance", 400000], ["astop"]]},
]


def signature(case: Case, verdict) -> str:
    return f"C13 {verdict.notes[:300]}"
