"""C14 correspondence harness: the real `server.py` HTTP side (UpnpServer routes, UpnpXmlSerializer,
action_handler) composed with the library's own client (UpnpFactory, UpnpAction.async_call), against the Lean
model `Model/C14Server.lean` and the judge `Spec/C14.lean`.  See DESIGN.md §5 C14 and design/C14.md.

A case = one generated server device definition + a list of operations (calls through the client, raw POSTs).
The server is the real `UpnpServer` with `AppRunner`/`TCPSite` replaced (no socket): requests are resolved by the
real aiohttp router of the real `Application` and the real handlers are awaited on mocked requests; an exception
other than `web.HTTPException` escaping a handler is the observation `unhandled`.

Line protocol (tokens: text = hex of UTF-8, `-` empty, `~` None; typed values `i:<n>`, `s:<hex>`, `b:0|1`,
`o:<pytype>:<tz>:<order key>:<hex canonical text>`; dict `name=val,...` sorted by name, `~` empty, `!` absent):

  fact <dtype> <wire> <val|!>                 python's coerce_python for float/date/time texts (model oracle)
  svc <i> <type> <id> <control> <event> <scpd>
  var <i> <name> <dtype> <evented> <min> <max> <allowed a,b|~> <default>
  act <i> <name> <in arg:var,..|~> <out ..>
  dev <rose>                                  device tree: 12 fields, n, 5 tokens per service; kids = embedded
  built ok|fail:<exc>
  sdoc <xml rose> / sscpd <i> <xml rose>      documents the server serves (parsed back with ElementTree)
  cdevres ok|fail:<exc> ; cdev <rose>         the client's device tree
  cbegin <i> ; cvar <i> <name> <dtype> <ev> <min> <max> <allowed> <default> <tmin> <tmax> <tdefault> <tallowed> ;
  cact <i> <name> <in> <out> ; cend <i>       the client's service model (raw texts + typed public properties)
  call <i> <action> <args dict> <script R:<dict>|E:<code|N>>  then  cobs <seen dict|!> <ok:<dict>|ae:c:s|re:s|ce:Exc>
  raw <i> <soapaction|~> <xml rose|X> <script>                then  robs <seen> <resp:status:fault:rets|unh:Exc>
  xcheck ok|diff:<hex>                        sampled cases: the same recipe served by aiohttp's TestServer on 127.0.0.1 and
                                              driven by the real AiohttpRequester gave the same observations
"""
from __future__ import annotations

import asyncio
import datetime as dtm
import struct
import xml.etree.ElementTree as ET
from typing import Any, Dict, List, Optional, Tuple
from unittest import mock
from urllib.parse import urlsplit

from harness.common import exc_token, tok_str
from vk.core import Case, Ctx

GEN_MODULES: List[str] = ["C14Types", "C08Types", "C06Types"]
MANIFEST = {
    "design_ref": "§5 C14",
    "text": ("Lean theorems over the executable tree-level model of server.py's HTTP side composed with the client "
             "(Props/C14.lean): client_sees_definition (for every constructible service definition the client's parse of "
             "the served SCPD equals the definition: variables with type, evented flag, typed bounds incl. one-sided ranges, "
             "allowed set, default; actions with argument names, directions and variable bindings), client_sees_device_tree "
             "(embedded devices and services, any depth), call_roundtrip (every valid call made with the client's own action "
             "object reaches the handler with the same typed values and returns the handler's typed results), "
             "handler_error_propagates (same UPnP code), bad_request_never_unhandled / invalid_request_rejected / "
             "invalid_request_judged (for every request tree and header: SOAP fault or 4xx, never an escaping exception), "
             "client_sees_definition_c05 / client_sees_device_tree_c05 (C05's factory model with C08's coercers for all 26 types, "
             "run against the served device document and SCPDs, equals C05's mirror of the description they denote, via "
             "factory_mirror), call_request_c06 (C06's create_request on the C08 type model, read back by body_reads_back, reaches the C14 "
             "handler with the caller's values; codec_agreement: C14's texts are C08's for the int/str/bool rows), "
             "handler_error_propagates_c07 (C07's decode reads the served fault), judge_*_in_mirror, gen_types_ok over the generated type table. The model is tied to the code by that table (const.py) and a "
             "differential check of served documents, client model, handler inputs, results and statuses; the Lean judge "
             "is evaluated on the implementation's observations; the mocked-request path is cross-checked against a real "
             "HTTP server on loopback."),
    "note": ("Trusted: Lean kernel + standard axioms; XML text<->tree (ElementTree/expat, escaping), aiohttp routing and "
             "request plumbing, voluptuous, Python int()/float()/datetime are outside the model (sampled by the "
             "correspondence runs; float/date/time codecs enter the model as harness-supplied facts and a round-trip "
             "hypothesis). Icons, allowedValueRange/step and ranges / allowed lists on date/time types are not generated."),
    "technique": "Lean 4 proof (structural induction over definitions, argument lists and request trees) + generated table + model/implementation correspondence",
}
RULE = ("generated server definitions (1..3 services over a root and up to 2 embedded devices, 0..6 variables of all 26 "
        "types with two-sided / one-sided ranges, allowed lists, defaults, evented flag; 0..4 actions with 0..4 in and out "
        "arguments) -> served documents, client model dump, then per action: valid calls through the client (markup-laden "
        "Unicode strings, boundary values, handler returning values / raising action errors) and raw POSTs of every invalid "
        "class (missing, duplicate, unknown, unparseable, out of range, not allowed argument; unknown action; malformed "
        "envelope / header). non-trivial = the case has at least one action with an argument; distinct = canonical driver text")
EXHAUSTIVE = {"quick": False, "thorough": False}
ASSUMPTIONS = [
    "XML text <-> tree (ElementTree serialisation/parsing, escaping) is not modelled: the model works on parsed trees; texts avoid U+000D (F06b, C06) and characters outside XML 1.0",
    "names (variables, actions, arguments) are XML names without whitespace; service types contain no '#' or '\"'; names are unique per service (Python dict keys)",
    "float, date and time codecs are not modelled: coerce_python on the texts that occur is supplied to the model by the harness (fact lines); their round trip is a hypothesis of call_roundtrip",
    "typed values are of the mapped Python type (a bool given for an integer argument is generated and is the integer 1/0; no datetime for date); floats are finite, datetimes/times have whole seconds",
    "allowed lists of non-string types hold non-empty texts (string types may allow the empty string); bounds are non-empty and parse; date/time typed variables carry defaults but no range / allowed list",
    "handlers keep their contract: results are out-arguments with values valid for the related variable, or UpnpActionError",
    "device icons, allowedValueRange step and max_rate are not part of the compared model",
]
TRUSTED = ["C14: aiohttp router/Request/Response objects, ElementTree, voluptuous, int()/float()/datetime as used by the real code under the harness"]

BASE = "http://127.0.0.1:8000"
SOAP_NS = "http://schemas.xmlsoap.org/soap/envelope/"
CTL_NS = "urn:schemas-upnp-org:control-1-0"

INT_TYPES = ["ui1", "ui2", "ui4", "ui8", "i1", "i2", "i4", "i8", "int"]
FLOAT_TYPES = ["r4", "r8", "number", "fixed.14.4", "float"]
STR_TYPES = ["char", "string", "bin.base64", "bin.hex", "uri", "uuid"]
DATE_TYPES = ["date", "dateTime", "dateTime.tz", "time", "time.tz"]
ALL_TYPES = INT_TYPES + FLOAT_TYPES + STR_TYPES + ["boolean"] + DATE_TYPES
OPAQUE = set(FLOAT_TYPES + DATE_TYPES)


# ---------------------------------------------------------------------------------------------
# typed value tokens

def _fkey(x: float) -> int:
    x = x + 0.0
    (n,) = struct.unpack(">q", struct.pack(">d", x))
    return n if n >= 0 else -(n & 0x7FFFFFFFFFFFFFFF)


def val_tok(v: Any) -> str:
    if isinstance(v, bool):
        return f"b:{1 if v else 0}"
    if isinstance(v, int):
        return f"i:{v}"
    if isinstance(v, str):
        return f"s:{tok_str(v)}"
    if isinstance(v, float):
        return f"o:float:0:{_fkey(v)}:{tok_str(str(v))}"
    if isinstance(v, dtm.datetime):
        tz = v.tzinfo is not None
        ref = dtm.datetime(2000, 1, 1, tzinfo=dtm.timezone.utc if tz else None)
        d = v - ref
        key = (d.days * 86400 + d.seconds) * 1000000 + d.microseconds
        return f"o:datetime:{1 if tz else 0}:{key}:{tok_str(v.isoformat('T', 'seconds'))}"
    if isinstance(v, dtm.date):
        return f"o:date:0:{v.toordinal()}:{tok_str(v.isoformat())}"
    if isinstance(v, dtm.time):
        tz = v.tzinfo is not None
        key = ((v.hour * 60 + v.minute) * 60 + v.second) * 1000000 + v.microsecond
        if tz:
            off = v.utcoffset() or dtm.timedelta(0)
            key -= (off.days * 86400 + off.seconds) * 1000000
        return f"o:time:{1 if tz else 0}:{key}:{tok_str(v.isoformat('seconds'))}"
    raise TypeError(f"no token for {v!r}")


def canon_of(v: Any) -> str:
    """canonical UPnP text of a float/date/time value (the harness' own rendering of what `out` must produce)"""
    if isinstance(v, float):
        return str(v)
    if isinstance(v, dtm.datetime):
        return v.isoformat("T", "seconds")
    if isinstance(v, dtm.date):
        return v.isoformat()
    if isinstance(v, dtm.time):
        return v.isoformat("seconds")
    return str(v)


def val_from_json(j: Any) -> Any:
    """recipe encoding of typed values: int/str/bool direct; ["f", repr] ["d", iso] ["dt", iso] ["t", iso]"""
    if isinstance(j, list):
        k, s = j
        if k == "f":
            return float(s)
        if k == "d":
            return dtm.date.fromisoformat(s)
        if k == "dt":
            return dtm.datetime.fromisoformat(s)
        if k == "t":
            return dtm.time.fromisoformat(s)
        raise ValueError(j)
    return j


def dict_tok(d: Optional[Dict[str, Any]]) -> str:
    if d is None:
        return "!"
    if not d:
        return "~"
    return ",".join(f"{k}={val_tok(d[k])}" for k in sorted(d))


def opt_tok(s: Optional[str]) -> str:
    return "~" if s is None else tok_str(s)


# ---------------------------------------------------------------------------------------------
# rose tokens

def rose(label: List[str], kids: List[str]) -> str:
    return "|".join([str(len(label)), *label, str(len(kids)), *kids]) if kids else "|".join([str(len(label)), *label, "0"])


def _qname(tag: str) -> Tuple[str, str]:
    if tag.startswith("{"):
        ns, _, local = tag[1:].partition("}")
        return ns, local
    return "", tag


def xml_rose(el: ET.Element) -> str:
    ns, local = _qname(el.tag)
    text = el.text if el.text else None
    attrs = sorted((_qname(k), v) for k, v in el.attrib.items())
    label = [tok_str(ns), tok_str(local), opt_tok(text), str(len(attrs))]
    for (ans, an), av in attrs:
        label += [tok_str(ans), tok_str(an), tok_str(av)]
    kids = list(el)
    if el.tag == "{urn:schemas-upnp-org:service-1-0}allowedValueList":
        kids = sorted(kids, key=lambda k: k.text or "")
    return rose(label, [xml_rose(k) for k in kids])


def tree_rose(t: Any) -> str:
    """recipe XML tree [ns, name, text|None, [[ans, aname, aval]...], [kids...]] -> rose token"""
    ns, name, text, attrs, kids = t
    label = [tok_str(ns), tok_str(name), opt_tok(text if text else None), str(len(attrs))]
    for ans, an, av in sorted(attrs):
        label += [tok_str(ans), tok_str(an), tok_str(av)]
    return rose(label, [tree_rose(k) for k in kids])


def _esc(s: str) -> str:
    return s.replace("&", "&amp;").replace("<", "&lt;").replace(">", "&gt;").replace('"', "&quot;")


def tree_text(t: Any, pfx: Optional[Dict[str, str]] = None, depth: int = 0) -> str:
    """render a recipe XML tree as text (the harness' own writer: prefixes declared where first used)"""
    ns, name, text, attrs, kids = t
    pfx = dict(pfx or {})
    decl = ""

    def q(n: str, local: str, is_attr: bool) -> str:
        nonlocal decl
        if n == "":
            return local
        if n not in pfx:
            pfx[n] = f"n{len(pfx)}"
            decl += f' xmlns:{pfx[n]}="{_esc(n)}"'
        return f"{pfx[n]}:{local}"

    tag = q(ns, name, False)
    at = "".join(f' {q(ans, an, True)}="{_esc(av)}"' for ans, an, av in attrs)
    inner = _esc(text or "") + "".join(tree_text(k, pfx, depth + 1) for k in kids)
    return f"<{tag}{decl}{at}>{inner}</{tag}>"


# ---------------------------------------------------------------------------------------------
# building the real server from a definition

DEV_FIELDS = ["device_type", "friendly_name", "manufacturer", "manufacturer_url", "model_description", "model_name",
              "model_number", "model_url", "serial_number", "udn", "upc", "presentation_url"]


class World:
    """one running case: the real server objects, the captured aiohttp Application, handler script/log"""

    def __init__(self) -> None:
        self.app = None
        self.script: Dict[str, Any] = {}
        self.seen: Optional[Dict[str, Any]] = None
        self.facts: Dict[Tuple[str, str], str] = {}


def py_type(dtype: str):
    from async_upnp_client.const import STATE_VARIABLE_TYPE_MAPPING
    return STATE_VARIABLE_TYPE_MAPPING[dtype]["type"]


def add_fact(w: World, dtype: str, wire: Optional[str]) -> None:
    if wire is None or dtype not in OPAQUE or (dtype, wire) in w.facts:
        return
    from async_upnp_client.const import STATE_VARIABLE_TYPE_MAPPING
    try:
        v = STATE_VARIABLE_TYPE_MAPPING[dtype]["in"](wire)
        w.facts[(dtype, wire)] = val_tok(v)
    except ValueError:
        w.facts[(dtype, wire)] = "!"


def _mk_handler(w: World, a: Dict[str, Any], vtypes: Dict[str, str]):
    """the scripted, decorated handler method of one action"""
    from async_upnp_client.exceptions import UpnpActionError
    from async_upnp_client.server import callable_action

    async def handler(self, _w=w, _a=a, **kwargs):
        _w.seen = dict(kwargs)
        sc = _w.script
        if "err" in sc:
            # `desc` absent / None: UpnpActionError(error_code=c) without a description
            raise UpnpActionError(error_code=sc["err"], error_desc=sc.get("desc"))
        res = dict(sc.get("ret", {}))
        # the library's own idiom (contrib/dummy_router.py): assign the related state variable and return
        # the UpnpStateVariable object itself
        omap = dict(map(tuple, _a["out"]))
        for k in sc.get("retvar", []):
            if k in res and k in omap:
                sv = self.state_variable(omap[k])
                sv.value = res[k]
                res[k] = sv
        return res
    handler.__annotations__ = {arg: py_type(vtypes[var]) for arg, var in a["in"] if var in vtypes}
    return callable_action(a["name"], dict(map(tuple, a["in"])), dict(map(tuple, a["out"])))(handler)


SHARED_ACTION = {"name": "SharedPing", "in": [], "out": []}
SHARED_ATTR = "act_zzz_shared"   # sorts after act_NNN: the shared action is the last one of a service's definition


def mk_shared_base(w: World):
    """a base class two services of one definition inherit an action from"""
    from async_upnp_client.server import UpnpServerService
    return type("GenSharedBase", (UpnpServerService,), {SHARED_ATTR: _mk_handler(w, SHARED_ACTION, {})})


def mk_service_class(w: World, idx: int, svc: Dict[str, Any], shared_base=None):
    """the service class of a definition, built with `type(...)` — optionally through a small hierarchy
    (`svc["layout"]`): actions split between a base class, a plain mixin and the concrete class body, an inherited
    action overridden in the subclass, the state-variable table inherited from the base, a base shared with another
    service.  What the definition (`svc["acts"]`, `svc["vars"]`) lists is the UNION Python's MRO gives."""
    from async_upnp_client.const import ServiceInfo
    from async_upnp_client.server import UpnpServerService, callable_action, create_event_var, create_state_var

    sdefs = {}
    for v in svc["vars"]:
        rng = {}
        if v.get("min") is not None:
            rng["min"] = v["min"]
        if v.get("max") is not None:
            rng["max"] = v["max"]
        mk = create_event_var if v.get("ev") else create_state_var
        sdefs[v["name"]] = mk(v["dtype"], allowed=v.get("allowed"), allowed_range=rng or None, default=v.get("default"))
    vtypes = {v["name"]: v["dtype"] for v in svc["vars"]}
    layout = svc.get("layout") or {}
    on_base, on_mixin, override = set(layout.get("base", [])), set(layout.get("mixin", [])), set(layout.get("override", []))
    base_ns: Dict[str, Any] = {}
    mixin_ns: Dict[str, Any] = {}
    ns: Dict[str, Any] = {
        "SERVICE_DEFINITION": ServiceInfo(service_id=svc["id"], service_type=svc["type"], control_url=svc["ctl"],
                                          event_sub_url=svc["evt"], scpd_url=svc["scpd"], xml=ET.Element("server_service")),
    }
    (base_ns if layout.get("vars_on_base") else ns)["STATE_VARIABLE_DEFINITIONS"] = sdefs
    for k, a in enumerate(svc["acts"]):
        if layout.get("shared") and shared_base is not None and a == SHARED_ACTION:
            continue   # inherited from the shared base
        attr = f"act_{k:03d}"
        method = _mk_handler(w, a, vtypes)
        if k in override:
            # the base defines another action under this attribute; the subclass overrides it with the real one
            async def decoy(self, **kwargs):
                raise RuntimeError("overridden action was called")
            base_ns[attr] = callable_action(f"Overridden{k}", {}, {})(decoy)
            ns[attr] = method
        elif k in on_base:
            base_ns[attr] = method
        elif k in on_mixin:
            mixin_ns[attr] = method
        else:
            ns[attr] = method
    if not layout:
        return type(f"GenService{idx}", (UpnpServerService,), ns)
    root = shared_base if (layout.get("shared") and shared_base is not None) else UpnpServerService
    base = type(f"GenServiceBase{idx}", (root,), base_ns)
    mixin = type(f"GenServiceMixin{idx}", (), mixin_ns)
    return type(f"GenService{idx}", (mixin, base), ns)


def mk_device_class(w: World, dev: Dict[str, Any], svc_classes: List[Any], path: str = "0"):
    from async_upnp_client.const import DeviceInfo
    from async_upnp_client.server import UpnpServerDevice

    f = dev["fields"]
    info = DeviceInfo(**{k: f[i] for i, k in enumerate(DEV_FIELDS)}, url="/device.xml", icons=[], xml=ET.Element("server_device"))
    ns = {
        "DEVICE_DEFINITION": info,
        "EMBEDDED_DEVICES": [mk_device_class(w, e, svc_classes, f"{path}_{j}") for j, e in enumerate(dev.get("embedded", []))],
        "SERVICES": [svc_classes[i] for i in dev["services"]],
    }
    return type(f"GenDevice{path}", (UpnpServerDevice,), ns)


class _RunnerMock:
    captured = None

    def __init__(self, app, *a, **k):
        _RunnerMock.captured = app

    async def setup(self):
        pass


class _SiteMock:
    def __init__(self, *a, **k):
        self.name = "mock"

    async def start(self):
        pass

    async def stop(self):
        pass


async def dispatch(app, method: str, path: str, headers: Dict[str, str], body: bytes):
    """resolve with the real router, await the real handler -> (status, body text, escaped exception)"""
    from aiohttp import web
    from aiohttp.streams import StreamReader
    from aiohttp.test_utils import make_mocked_request

    loop = asyncio.get_running_loop()
    payload = StreamReader(mock.Mock(), 2 ** 16, loop=loop)
    payload.feed_data(body)
    payload.feed_eof()
    req = make_mocked_request(method, path, headers=headers, payload=payload, app=app)
    match_info = await app.router.resolve(req)
    try:
        resp = await match_info.handler(req)
    except web.HTTPException as e:
        return e.status, e.text or "", None
    except Exception as e:  # noqa: BLE001 - the observation "unhandled server exception"
        return None, "", e
    b = resp.body
    text = b.decode("utf-8") if isinstance(b, (bytes, bytearray)) else (b or "")
    return resp.status, text, None


def make_requester(app):
    from async_upnp_client.client import UpnpRequester

    class Routed(UpnpRequester):
        def __init__(self):
            self.last = None

        async def async_http_request(self, method, url, headers=None, body=None):
            p = urlsplit(url)
            st, text, exc = await dispatch(app, method, p.path, dict(headers or {}), (body or "").encode("utf-8"))
            self.last = (st, text, exc)
            if exc is not None:  # what aiohttp's server answers when a handler raises
                return 500, {}, "500 Internal Server Error\n\nServer got itself in trouble"
            return st, {}, text

    return Routed()


def fault_of(text: str) -> str:
    """`~` no fault, `N` fault without code, else the code"""
    try:
        root = ET.fromstring(text)
    except ET.ParseError:
        return "~"
    fault = None
    for b in root.iter(f"{{{SOAP_NS}}}Body"):
        fault = b.find(f"{{{SOAP_NS}}}Fault")
        if fault is not None:
            break
    if fault is None or len(fault) == 0:
        return "~"
    code = fault.findtext(f".//{{{CTL_NS}}}errorCode")
    if not code:
        return "N"
    try:
        return str(int(code))
    except ValueError:
        return "N"


def dev_rose(dev: Dict[str, Any], svcs: List[Dict[str, Any]]) -> str:
    label = [opt_tok(x) for x in dev["fields"]] + [str(len(dev["services"]))]
    for i in dev["services"]:
        s = svcs[i]
        label += [tok_str(s["type"]), tok_str(s["id"]), tok_str(s["ctl"]), tok_str(s["evt"]), tok_str(s["scpd"])]
    return rose(label, [dev_rose(e, svcs) for e in dev.get("embedded", [])])


def client_dev_rose(d) -> str:
    info = d.device_info
    label = [opt_tok(getattr(info, k)) for k in DEV_FIELDS] + [str(len(d.services))]
    for s in d.services.values():
        si = s._service_info  # pylint: disable=protected-access
        label += [tok_str(si.service_type), tok_str(si.service_id), tok_str(si.control_url), tok_str(si.event_sub_url), tok_str(si.scpd_url)]
    return rose(label, [client_dev_rose(e) for e in d.embedded_devices.values()])


def _tv(fn) -> str:
    try:
        v = fn()
    except ValueError:
        return "!"
    return "N" if v is None else val_tok(v)


def cvar_line(i: int, sv) -> str:
    ti = sv._state_variable_info.type_info  # pylint: disable=protected-access
    rng = ti.allowed_value_range or {}
    al = ti.allowed_values
    al_tok = "~" if al is None else ("-" if not al else ",".join(tok_str(a) for a in sorted(al)))
    try:
        tal = sorted(val_tok(v) for v in sv.allowed_values)
        tal_tok = ";".join(tal) if tal else "~"
    except ValueError:
        tal_tok = "!"
    return (f"cvar {i} {sv.name} {sv.data_type} {1 if sv.send_events else 0} {opt_tok(rng.get('min'))} {opt_tok(rng.get('max'))} "
            f"{al_tok} {opt_tok(ti.default_value)} {_tv(lambda: sv.min_value)} {_tv(lambda: sv.max_value)} "
            f"{_tv(lambda: sv.default_value)} {tal_tok}")


def args_tok(args) -> str:
    return ",".join(f"{a.name}:{a.related_state_variable.name}" for a in args) if args else "~"


def script_tok(sc: Dict[str, Any]) -> str:
    if "err" in sc:
        return f"E:{'N' if sc['err'] is None else sc['err']}"
    if sc.get("retvar"):
        return f"V:{';'.join(sc['retvar'])}:{dict_tok(sc.get('ret', {}))}"
    return f"R:{dict_tok(sc.get('ret', {}))}"


def client_result_tok(fn_result: Any, exc: Optional[BaseException]) -> str:
    from async_upnp_client.exceptions import UpnpActionError, UpnpResponseError

    if exc is None:
        return f"ok:{dict_tok(dict(fn_result))}"
    if isinstance(exc, UpnpActionError):
        st = getattr(exc, "status", None)
        return f"ae:{'N' if exc.error_code is None else exc.error_code}:{'N' if st is None else st}"
    if isinstance(exc, UpnpResponseError):
        return f"re:{exc.status}"
    return f"ce:{exc_token(exc).replace('RAW:', '')}"


async def run_case(recipe: Dict[str, Any], loopback: bool = False) -> Tuple[List[str], List[str], bool]:
    import async_upnp_client.server as srv
    from async_upnp_client.client_factory import UpnpFactory

    w = World()
    defn = recipe["defn"]
    svcs = defn["svcs"]
    lines: List[str] = []
    tags = set()
    for i, s in enumerate(svcs):
        lines.append(f"svc {i} {tok_str(s['type'])} {tok_str(s['id'])} {tok_str(s['ctl'])} {tok_str(s['evt'])} {tok_str(s['scpd'])}")
    for i, s in enumerate(svcs):
        for v in s["vars"]:
            al = v.get("allowed")
            al_tok = "~" if al is None else ",".join(tok_str(a) for a in al)
            lines.append(f"var {i} {v['name']} {v['dtype']} {1 if v.get('ev') else 0} {opt_tok(v.get('min'))} {opt_tok(v.get('max'))} {al_tok} {opt_tok(v.get('default'))}")
            for x in [v.get("min"), v.get("max"), v.get("default"), *(al or [])]:
                add_fact(w, v["dtype"], x)
            tags.add(f"type:{v['dtype']}")
            if v.get("ev"):
                tags.add("var:evented")
            if al:
                tags.add("var:allowed")
            if v.get("default") is not None:
                tags.add("var:default")
            if al and (v.get("min") is not None or v.get("max") is not None):
                tags.add("var:list+range" + ("" if v.get("min") is not None and v.get("max") is not None else "-one-sided")
                         + (":str" if v["dtype"] in STR_TYPES else ":num"))
            if v.get("min") is not None and v.get("max") is not None:
                tags.add("var:range-both")
            elif v.get("min") is not None or v.get("max") is not None:
                tags.add("var:range-one-sided")
        for a in s["acts"]:
            fa = lambda l: ",".join(f"{x}:{y}" for x, y in l) if l else "~"  # noqa: E731
            lines.append(f"act {i} {a['name']} {fa(a['in'])} {fa(a['out'])}")
            tags.add(f"act:in{len(a['in'])}out{len(a['out'])}")
    lines.append(f"dev {dev_rose(defn['dev'], svcs)}")
    tags.add(f"svcs:{len(svcs)}")
    tags.add(f"embedded:{_count_devs(defn['dev']) - 1}")

    # -- build the real server (no sockets: AppRunner/TCPSite replaced, SSDP not started)
    try:
        shared_base = mk_shared_base(w) if any((s.get("layout") or {}).get("shared") for s in svcs) else None
        svc_classes = [mk_service_class(w, i, s, shared_base) for i, s in enumerate(svcs)]
        for s in svcs:
            lay = s.get("layout") or {}
            if lay:
                tags.add("class:hierarchy")
                for key in ("base", "mixin", "override"):
                    if lay.get(key):
                        tags.add("class:actions-on-" + key)
                if lay.get("vars_on_base"):
                    tags.add("class:vars-on-base")
                if lay.get("shared"):
                    tags.add("class:shared-base")
        dev_class = mk_device_class(w, defn["dev"], svc_classes)
        with mock.patch.object(srv, "AppRunner", _RunnerMock), mock.patch.object(srv, "TCPSite", _SiteMock):
            server = srv.UpnpServer(dev_class, ("127.0.0.1", 0), http_port=8000)
            server._create_device()  # pylint: disable=protected-access
            await server._async_start_http_server()  # pylint: disable=protected-access
        app = _RunnerMock.captured
        for _ in range(5):
            await asyncio.sleep(0)
    except Exception as e:  # noqa: BLE001
        lines.append(f"built fail:{exc_token(e).replace('RAW:', '')}")
        return _with_facts(w, lines), sorted(tags | {"built:fail"}), False
    lines.append("built ok")

    # -- transport: the real handlers on mocked requests, or (cross-check) a real HTTP server on loopback
    tserver = None
    base = BASE
    if loopback:
        import logging
        from aiohttp.test_utils import TestServer
        logging.getLogger("aiohttp.server").setLevel(logging.CRITICAL)  # escaping exceptions are expected observations
        logging.getLogger("aiohttp.web").setLevel(logging.CRITICAL)
        tserver = TestServer(app, host="127.0.0.1")
        await tserver.start_server()
        base = f"http://127.0.0.1:{tserver.port}"

    async def xfer(method: str, path: str, headers: Dict[str, str], body: bytes):
        if tserver is None:
            return await dispatch(app, method, path, headers, body)
        from aiohttp import ClientSession
        async with ClientSession() as sess:
            async with sess.request(method, base + path, headers=headers, data=body) as resp:
                return resp.status, await resp.text(), None

    try:
        return await _run_ops(recipe, w, lines, tags, svcs, app, xfer, base, loopback)
    finally:
        if tserver is not None:
            await tserver.close()


async def _run_ops(recipe, w, lines, tags, svcs, app, xfer, base, loopback):
    defn = recipe["defn"]
    from async_upnp_client.client_factory import UpnpFactory

    # -- served documents
    st, text, exc = await xfer("GET", "/device.xml", {}, b"")
    if exc is not None or st != 200:
        lines.append(f"sdoc !{st}:{exc_token(exc) if exc else ''}")
    else:
        lines.append(f"sdoc {xml_rose(ET.fromstring(text))}")
    for i, s in enumerate(svcs):
        st, text, exc = await xfer("GET", s["scpd"], {}, b"")
        if exc is not None or st != 200:
            lines.append(f"sscpd {i} !{st}:{exc_token(exc) if exc else ''}")
        else:
            lines.append(f"sscpd {i} {xml_rose(ET.fromstring(text))}")

    # -- the library's own client
    if loopback:
        from async_upnp_client.aiohttp import AiohttpRequester
        requester = AiohttpRequester()
    else:
        requester = make_requester(app)
    try:
        cdev = await UpnpFactory(requester).async_create_device(base + "/device.xml")
    except Exception as e:  # noqa: BLE001
        lines.append(f"cdevres fail:{exc_token(e).replace('RAW:', '')}")
        return _with_facts(w, lines), sorted(tags | {"client:fail"}), True
    lines.append("cdevres ok")
    lines.append(f"cdev {client_dev_rose(cdev)}")
    csvcs = []
    for i, s in enumerate(svcs):
        cs = cdev.find_service(s["type"])
        csvcs.append(cs)
        lines.append(f"cbegin {i}")
        if cs is not None:
            for sv in cs.state_variables.values():
                ti = sv._state_variable_info.type_info  # pylint: disable=protected-access
                rng = ti.allowed_value_range or {}
                for x in [rng.get("min"), rng.get("max"), ti.default_value, *(ti.allowed_values or [])]:
                    add_fact(w, sv.data_type, x)
                lines.append(cvar_line(i, sv))
            for ac in cs.actions.values():
                lines.append(f"cact {i} {ac.name} {args_tok(ac.in_arguments())} {args_tok(ac.out_arguments())}")
        lines.append(f"cend {i}")

    # -- operations
    nontrivial = False
    for op in recipe.get("ops", []):
        i = op["svc"]
        if i >= len(svcs) or csvcs[i] is None:
            continue
        s = svcs[i]
        adef = next((a for a in s["acts"] if a["name"] == op.get("act")), None)
        vtypes = {v["name"]: v["dtype"] for v in s["vars"]}
        sc = {}
        if "err" in op:
            sc["err"] = op["err"]
            sc["desc"] = op.get("desc")
            code = op["err"]
            tags.add("script:err-" + ("nocode" if code is None else "standard" if code in (401, 402, 501, 600, 601, 602, 603, 604, 605)
                                       else "vendor" if 606 <= code <= 899 else "other")
                     + ("-nodesc" if op.get("desc") is None else "-markupdesc" if any(c in op["desc"] for c in "<&]") else "-desc"))
        else:
            sc["ret"] = {k: val_from_json(v) for k, v in op.get("ret", {}).items()}
            if op.get("retvar") and adef is not None:
                omap = dict(map(tuple, adef["out"]))
                sc["retvar"] = [k for k in op["retvar"] if k in sc["ret"] and k in omap]
                if sc["retvar"]:
                    tags.add("script:returns-state-variable")
            if adef is not None:
                for k, v in sc["ret"].items():
                    var = dict(map(tuple, adef["out"])).get(k)
                    if var in vtypes and vtypes[var] in OPAQUE:
                        add_fact(w, vtypes[var], canon_of(v))
        w.script = sc
        w.seen = None
        if op["kind"] == "call":
            if adef is None or op["act"] not in csvcs[i].actions:
                continue
            args = {k: val_from_json(v) for k, v in op["args"].items()}
            for k, v in args.items():
                var = dict(map(tuple, adef["in"])).get(k)
                if var in vtypes and vtypes[var] in OPAQUE:
                    add_fact(w, vtypes[var], canon_of(v))
            lines.append(f"call {i} {op['act']} {dict_tok(args)} {script_tok(sc)}")
            res, exc = None, None
            try:
                res = await csvcs[i].actions[op["act"]].async_call(**args)
            except Exception as e:  # noqa: BLE001
                exc = e
            if any(isinstance(x, bool) and vtypes.get(dict(map(tuple, adef["in"])).get(k)) in INT_TYPES for k, x in args.items()):
                tags.add("call:bool-for-int")
            lines.append(f"cobs {dict_tok(w.seen)} {client_result_tok(res, exc)}")
            tags.add("call:" + client_result_tok(res, exc).split(":")[0] + ("-err" if "err" in sc else "")
                     + (":invalid-" + op["invalid"] if op.get("invalid") else ""))
            nontrivial = nontrivial or bool(args) or bool(sc.get("ret"))
        elif op["kind"] == "raw":
            sa = op.get("soapaction")
            body = op.get("body")
            if body is None:
                btok, btext = "X", op.get("text", "<a")
            else:
                btok, btext = tree_rose(body), '<?xml version="1.0"?>' + tree_text(body)
            # facts for the argument texts of the targeted action
            if adef is not None and body is not None:
                inmap = dict(map(tuple, adef["in"]))
                for name, text in _rpc_args(body):
                    var = inmap.get(name)
                    if var in vtypes:
                        add_fact(w, vtypes[var], text or "")
            lines.append(f"raw {i} {opt_tok(sa)} {btok} {script_tok(sc)}")
            headers = {"Content-Type": 'text/xml; charset="utf-8"'}
            if sa is not None:
                headers["SOAPAction"] = sa
            st, text, exc = await xfer("POST", s["ctl"], headers, btext.encode("utf-8"))
            if exc is not None:
                obs = f"unh:{exc_token(exc).replace('RAW:', '')}"
            else:
                rets = "!"
                if st == 200 and adef is not None and op["act"] in csvcs[i].actions:
                    try:
                        rets = dict_tok(dict(csvcs[i].actions[op["act"]].parse_response(s["type"], {}, text)))
                    except Exception:  # noqa: BLE001
                        rets = "!"
                obs = f"resp:{st}:{fault_of(text) if st != 200 else '~'}:{rets}"
            lines.append(f"robs {dict_tok(w.seen)} {obs}")
            tags.add("raw:" + op.get("class", "?") + ":" + (obs.split(":")[0] + obs.split(":")[1] if obs.startswith("resp") else "unhandled"))
            nontrivial = True
    for _ in range(3):
        await asyncio.sleep(0)
    return _with_facts(w, lines), sorted(tags), nontrivial


def _rpc_args(body) -> List[Tuple[str, Optional[str]]]:
    """(argument element name, text) of the first child of the Body child of the root, if any"""
    try:
        for k in body[4]:
            if k[0] == SOAP_NS and k[1] == "Body" and k[4]:
                return [(a[1], a[2]) for a in k[4][0][4]]
    except Exception:  # noqa: BLE001
        pass
    return []


def _count_devs(d) -> int:
    return 1 + sum(_count_devs(e) for e in d.get("embedded", []))


def _with_facts(w: World, lines: List[str]) -> List[str]:
    facts = [f"fact {dt} {tok_str(wire)} {tok}" for (dt, wire), tok in sorted(w.facts.items())]
    return facts + lines


def run_recipe(ctx: Ctx, recipe: Dict[str, Any], cid: str) -> Case:
    loop = asyncio.new_event_loop()
    try:
        asyncio.set_event_loop(loop)
        lines, tags, nontrivial = loop.run_until_complete(run_case(recipe))
        if recipe.get("xcheck"):
            # cross-check of the harness' mocked-request path against a real HTTP server on loopback driven
            # by the real AiohttpRequester: identical observations, except that an escaping exception is seen
            # as aiohttp's bare 500
            import re as _re
            try:
                l2, _, _ = loop.run_until_complete(run_case(recipe, loopback=True))
                want = [_re.sub(r"unh:\w+", "resp:500:~:!", x) for x in lines]
                diff = next((f"{a[:120]}<>{b[:120]}" for a, b in zip(want, l2) if a != b), None)
                if diff is None and len(want) != len(l2):
                    diff = f"length {len(want)}<>{len(l2)}"
                res = "ok" if diff is None else "diff:" + tok_str(diff)
            except Exception as e:  # noqa: BLE001
                res = "diff:" + tok_str(f"loopback run failed: {type(e).__name__}: {e}"[:200])
            lines = lines + [f"xcheck {res}"]
            tags = sorted(set(tags) | {"xcheck:" + res.split(":")[0]})
        pending = [t for t in asyncio.all_tasks(loop) if not t.done()]
        for t in pending:
            t.cancel()
        if pending:
            loop.run_until_complete(asyncio.gather(*pending, return_exceptions=True))
    finally:
        asyncio.set_event_loop(None)
        loop.close()
    return Case(cid, lines, recipe, nontrivial, tags)


# ---------------------------------------------------------------------------------------------
# generators

NASTY = ["<&>", "a<b", "]]>", "&amp;", "\"q'", "é", "日本", "\U0001F600", " lead", "trail ", "a\nb", "\t", "x" * 40, "--", "<!--", "&#13;"]


def g_string(rng) -> str:
    n = rng.randrange(0, 4)
    parts = [rng.choice(NASTY + ["a", "B", "0", "z9", " "]) for _ in range(n)]
    return "".join(parts)


def g_name(rng, pfx: str, k: int) -> str:
    return pfx + rng.choice(["", "_", "X", ".v", "-a", "Q9"]) + str(k)


INT_BOUNDS = {"ui1": (0, 255), "ui2": (0, 65535), "ui4": (0, 2 ** 32 - 1), "ui8": (0, 2 ** 64 - 1), "i1": (-128, 127),
              "i2": (-32768, 32767), "i4": (-2 ** 31, 2 ** 31 - 1), "i8": (-2 ** 63, 2 ** 63 - 1), "int": (-10 ** 6, 10 ** 6)}


def g_int_text(rng, n: int) -> str:
    c = rng.randrange(8)
    if c == 0:
        return f" {n} "
    if c == 1 and n >= 0:
        return f"+{n}"
    if c == 2:
        return ("-" if n < 0 else "") + "00" + str(abs(n))
    return str(n)


def g_float(rng) -> float:
    c = rng.randrange(6)
    if c == 0:
        return float(rng.randrange(-50, 50))
    if c == 1:
        return rng.choice([0.1, 1e-7, 1.5e300, -2.5, 3.14159, 1e16, 123456789.125])
    return round(rng.uniform(-1000, 1000), rng.randrange(0, 6))


def g_float_text(rng, x: float) -> str:
    c = rng.randrange(5)
    if c == 0 and x == int(x) and abs(x) < 1e15:
        return str(int(x))
    if c == 1:
        return f" {x!r}"
    return repr(x)


def _parse_num(dtype: str, t: str):
    return int(t) if dtype in INT_TYPES else float(t)


def def_accepts(v: Dict[str, Any], x: Any) -> bool:
    """the harness' own reading of a definition (generation only): x (int / float / str of the variable's type)
    is in the allowed list, if any, and inside the range, if any"""
    dtype = v["dtype"]
    conv = (lambda t: _parse_num(dtype, t)) if dtype in INT_TYPES + FLOAT_TYPES else (lambda t: t)
    if v.get("allowed") and x not in [conv(a) for a in v["allowed"]]:
        return False
    if v.get("min") is not None and not conv(v["min"]) <= x:
        return False
    if v.get("max") is not None and not x <= conv(v["max"]):
        return False
    return True


def g_var(rng, name: str) -> Dict[str, Any]:
    """every combination of the facets {allowed list, minimum, maximum, default} (also a list together with a
    one- or two-sided range) for the numeric and string types; booleans: list/default; date/time: default"""
    dtype = rng.choice(ALL_TYPES)
    v: Dict[str, Any] = {"name": name, "dtype": dtype, "ev": rng.random() < 0.3}
    rk = rng.choice(["none", "none", "both", "both", "min", "max"])
    want_list = rng.random() < 0.35
    want_default = rng.random() < 0.4
    if dtype in INT_TYPES or dtype in FLOAT_TYPES:
        is_int = dtype in INT_TYPES
        if is_int:
            lo, hi = INT_BOUNDS[dtype]
            a = rng.randrange(lo, min(hi, lo + 300))
            b = a + rng.randrange(0, 200)
            text = lambda x: g_int_text(rng, x)  # noqa: E731
            inside = lambda: rng.randrange(a, b + 1)  # noqa: E731
            outside = lambda: rng.choice([a - 1 - rng.randrange(5), b + 1 + rng.randrange(5)])  # noqa: E731
        else:
            a = g_float(rng)
            b = a + abs(g_float(rng))
            text = lambda x: g_float_text(rng, x)  # noqa: E731
            inside = lambda: rng.choice([a, b, a + (b - a) * rng.random()])  # noqa: E731
            outside = lambda: rng.choice([a - 1.0 - rng.random(), b + 1.0 + rng.random()])  # noqa: E731
        if rk in ("both", "min"):
            v["min"] = text(a)
        if rk in ("both", "max"):
            v["max"] = text(b)
        if want_list:
            vals = [inside()] + [inside() if rng.random() < 0.6 else outside() for _ in range(rng.randrange(0, 4))]
            rng.shuffle(vals)
            v["allowed"] = [text(x) for x in vals]
        if want_default:
            pool = [x for x in ([_parse_num(dtype, t) for t in v["allowed"]] if "allowed" in v else [inside(), a, b]) if def_accepts(v, x)]
            if pool:
                v["default"] = text(rng.choice(pool))
    elif dtype in STR_TYPES:
        lo_c, hi_c = rng.choice([("b", "p"), ("A", "z"), ("0", "m"), ("d", "f")])
        mid = chr((ord(lo_c) + ord(hi_c)) // 2)
        use_range = rk != "none" and rng.random() < 0.5
        if use_range and rk in ("both", "min"):
            v["min"] = lo_c
        if use_range and rk in ("both", "max"):
            v["max"] = hi_c
        inside_s = lambda: mid + rng.choice(["", "x", "<&>", "é", " 1"])  # noqa: E731
        if want_list or (not use_range and rng.random() < 0.2):
            # the empty string may be allowed (served as <allowedValue/>, read back as "" for string types)
            vals = [inside_s()] + [x for x in ((g_string(rng) if rng.random() < 0.9 else "") or rng.choice(["v", "", "v"])
                                                for _ in range(rng.randrange(0, 4)))]
            rng.shuffle(vals)
            v["allowed"] = vals
        if want_default:
            pool = [x for x in (v["allowed"] if "allowed" in v else [inside_s(), g_string(rng)]) if def_accepts(v, x)]
            if pool:
                v["default"] = rng.choice(pool)
    elif dtype == "boolean":
        if want_list:
            v["allowed"] = [rng.choice(["1", "true", "yes", "0", "no", "TRUE", "False"]) for _ in range(rng.randrange(1, 3))]
        if want_default:
            v["default"] = rng.choice(v["allowed"]) if "allowed" in v else rng.choice(["1", "0", "true", "no", "Yes"])
    else:
        # date / time families: a default in any of the spellings parse_date_time accepts for the type
        if want_default:
            v["default"] = g_date_text(rng, dtype)
    return v


def g_date_text(rng, dtype: str) -> str:
    y, mo, d = rng.randrange(1, 9999), rng.randrange(1, 13), rng.randrange(1, 29)
    h, mi, s = rng.randrange(24), rng.randrange(60), rng.randrange(60)
    off = rng.choice(["+00:00", "+01:00", "-05:30", "+1400", "-0045", " +0200"])
    date, tim = f"{y:04d}-{mo:02d}-{d:02d}", f"{h:02d}:{mi:02d}:{s:02d}"
    if dtype == "date":
        return date
    if dtype == "time":
        return tim + (off if rng.random() < 0.3 else "")
    if dtype == "time.tz":
        return tim + off
    sep = rng.choice(["T", "T", " "])
    if dtype == "dateTime":
        c = rng.randrange(4)
        return f"{date}{sep}{tim}" if c else f"{date}T{tim}" + rng.choice([off, "Z", "z"])
    return f"{date}T{tim}" + rng.choice([off, "Z", "z"])


def g_defn(rng, small: bool = False) -> Dict[str, Any]:
    nsvc = rng.randrange(1, 3 if small else 4)
    svcs = []
    for i in range(nsvc):
        nv = rng.randrange(0, 4 if small else 7)
        vars_ = [g_var(rng, g_name(rng, "Var", k)) for k in range(nv)]
        acts = []
        if vars_:
            for k in range(rng.randrange(0, 3 if small else 5)):
                ins = [[g_name(rng, "In", j), rng.choice(vars_)["name"]] for j in range(rng.randrange(0, 5))]
                outs = [[g_name(rng, "Out", j), rng.choice(vars_)["name"]] for j in range(rng.randrange(0, 5))]
                # an out-argument may carry the NAME of an in-argument (e.g. `Volume` in and out, possibly bound
                # to different variables): `UpnpAction.argument(name, direction)` tells them apart
                if ins and outs and rng.random() < 0.35:
                    for _ in range(rng.randrange(1, 3)):
                        name = rng.choice(ins)[0]
                        if all(o[0] != name for o in outs):  # names stay distinct per direction
                            outs[rng.randrange(len(outs))][0] = name
                acts.append({"name": g_name(rng, "Act", k), "in": ins, "out": outs})
        tname = rng.choice(["Svc", "AVTransport", "X_é", "S-T.x"])
        svc = {"type": f"urn:schemas-upnp-org:service:{tname}{i}:1", "id": f"urn:upnp-org:serviceId:{tname}{i}",
               "ctl": f"/ctl/{i}", "evt": f"/evt/{i}", "scpd": f"/scpd/{i}.xml", "vars": vars_, "acts": acts}
        if rng.random() < 0.5:
            # a small class hierarchy: every action lives on the base class, a mixin or the concrete class; some
            # inherited ones are overridden in the subclass; the variable table may be inherited too
            lay: Dict[str, Any] = {"base": [], "mixin": [], "override": [], "body": [], "vars_on_base": rng.random() < 0.5}
            for k in range(len(acts)):
                lay[rng.choice(["base", "mixin", "override", "body", "base"])].append(k)
            lay.pop("body")
            svc["layout"] = lay
        svcs.append(svc)
    if nsvc >= 2 and rng.random() < 0.4:
        # two (or all) services inherit one action from a common base class
        for svc in rng.sample(svcs, rng.randrange(2, nsvc + 1)):
            svc["acts"].append(dict(SHARED_ACTION))
            svc.setdefault("layout", {"base": [], "mixin": [], "override": []})["shared"] = True

    def fields(k: int) -> List[Optional[str]]:
        opt = lambda s: rng.choice([s, None, s])  # noqa: E731
        return [f"urn:schemas-upnp-org:device:Dev{k}:1", rng.choice(["Friendly", "F<&>é", " n "]), "Manu", opt("http://m/"),
                opt("descr <b>"), "Model", opt("1.0"), opt("http://model/"), opt("SN1"), f"uuid:0000-{k}", opt("123456"), opt("/pres")]

    order = list(range(nsvc))
    rng.shuffle(order)
    ndev = min(nsvc, rng.randrange(1, 4))
    groups: List[List[int]] = [[] for _ in range(ndev)]
    for j, i in enumerate(order):
        groups[j % ndev if j >= ndev else j].append(i)
    devs = [{"fields": fields(k), "services": sorted(groups[k]), "embedded": []} for k in range(ndev)]
    root = devs[0]
    if ndev == 2:
        root["embedded"] = [devs[1]]
    elif ndev == 3:
        if rng.random() < 0.5:
            root["embedded"] = [devs[1], devs[2]]
        else:
            devs[1]["embedded"] = [devs[2]]
            root["embedded"] = [devs[1]]
    return {"svcs": svcs, "dev": root}


def valid_value(rng, v: Dict[str, Any]) -> Any:
    """a recipe-encoded typed value valid for the variable"""
    dtype = v["dtype"]
    if dtype in INT_TYPES:
        if rng.random() < 0.08:  # a bool where an int is expected (F06a): it is the integer 1 / 0
            for b in (rng.random() < 0.5, True, False):
                if def_accepts(v, int(b)):
                    return b
        if v.get("allowed"):
            return rng.choice([x for x in (int(a) for a in v["allowed"]) if def_accepts(v, x)])
        lo = int(v["min"]) if v.get("min") is not None else None
        hi = int(v["max"]) if v.get("max") is not None else None
        if lo is None and hi is None:
            return rng.choice([0, 1, -1, 255, 2 ** 40, -7, rng.randrange(-1000, 1000)])
        if lo is None:
            lo = hi - 50
        if hi is None:
            hi = lo + 50
        return rng.choice([lo, hi, rng.randrange(lo, hi + 1)])
    if dtype in FLOAT_TYPES:
        if v.get("allowed"):
            return ["f", repr(rng.choice([x for x in (float(a) for a in v["allowed"]) if def_accepts(v, x)]))]
        lo = float(v["min"]) if v.get("min") is not None else None
        hi = float(v["max"]) if v.get("max") is not None else None
        if lo is None and hi is None:
            return ["f", repr(g_float(rng))]
        if lo is None:
            lo = hi - 10.0
        if hi is None:
            hi = lo + 10.0
        return ["f", repr(rng.choice([lo, hi, lo + (hi - lo) * rng.random()]))]
    if dtype in STR_TYPES:
        if v.get("allowed"):
            return rng.choice([x for x in v["allowed"] if def_accepts(v, x)])
        if v.get("min") is not None or v.get("max") is not None:
            lo_c = v.get("min") or "!"
            hi_c = v.get("max") or "~"
            return chr((ord(lo_c[0]) + ord(hi_c[0])) // 2) + rng.choice(["", "x", "<&>", "é"])
        return g_string(rng)
    if dtype == "boolean":
        if v.get("allowed"):
            return rng.choice(v["allowed"]).lower() in ["1", "true", "yes"]
        return rng.random() < 0.5
    y, mo, d = rng.randrange(1, 9999), rng.randrange(1, 13), rng.randrange(1, 29)
    h, mi, s = rng.randrange(24), rng.randrange(60), rng.randrange(60)
    off = rng.choice(["+00:00", "+01:00", "-05:30", "+14:00", "-00:45"])
    if dtype == "date":
        return ["d", f"{y:04d}-{mo:02d}-{d:02d}"]
    if dtype == "dateTime":
        return ["dt", f"{y:04d}-{mo:02d}-{d:02d}T{h:02d}:{mi:02d}:{s:02d}" + (off if rng.random() < 0.3 else "")]
    if dtype == "dateTime.tz":
        return ["dt", f"{y:04d}-{mo:02d}-{d:02d}T{h:02d}:{mi:02d}:{s:02d}{off}"]
    if dtype == "time":
        return ["t", f"{h:02d}:{mi:02d}:{s:02d}" + (off if rng.random() < 0.3 else "")]
    return ["t", f"{h:02d}:{mi:02d}:{s:02d}{off}"]


def wire_of(jv: Any) -> str:
    """UPnP text of a recipe-encoded typed value (harness' own rendering, for raw requests)"""
    if isinstance(jv, bool):
        return "1" if jv else "0"
    if isinstance(jv, int):
        return str(jv)
    if isinstance(jv, str):
        return jv
    k, s = jv
    if k == "f":
        return repr(float(s))
    if k == "dt":
        return dtm.datetime.fromisoformat(s).isoformat("T", "seconds")
    return s


def invalid_text(rng, v: Dict[str, Any]) -> Tuple[str, Optional[str]]:
    """(class, text) of an invalid argument text for the variable, class None if none exists"""
    dtype = v["dtype"]
    opts: List[Tuple[str, str]] = []
    if dtype in INT_TYPES:
        opts += [("unparseable", rng.choice(["abc", "", "1.5", "0x10", "1e3", "--1", "1_", "é", "1 2"]))]
        if v.get("allowed"):
            vals = {int(a) for a in v["allowed"]}
            opts.append(("notallowed", str(max(vals) + 1)))
        if v.get("min") is not None:
            opts.append(("outofrange", str(int(v["min"]) - 1)))
        if v.get("max") is not None:
            opts.append(("outofrange", str(int(v["max"]) + 1)))
        if v.get("allowed") and (v.get("min") is not None or v.get("max") is not None):
            vals = {int(a) for a in v["allowed"]}
            listed_out = [x for x in vals if not def_accepts(v, x)]        # the list admits it, the range rejects it
            lo = int(v["min"]) if v.get("min") is not None else min(vals) - 3
            hi = int(v["max"]) if v.get("max") is not None else max(vals) + 3
            unlisted_in = [x for x in range(lo, min(hi, lo + 40) + 1) if x not in vals]   # the range admits it, the list does not
            if listed_out:
                opts += [("outofrange-listed", str(rng.choice(listed_out)))] * 2
            if unlisted_in:
                opts += [("notallowed-inrange", str(rng.choice(unlisted_in)))] * 2
    elif dtype in FLOAT_TYPES:
        opts += [("unparseable", rng.choice(["abc", "", "1,5", "--1", "é"]))]
        if v.get("allowed"):
            vals = {float(a) for a in v["allowed"]}
            opts.append(("notallowed", repr(max(vals) + 1.0)))
        if v.get("min") is not None:
            opts.append(("outofrange", repr(float(v["min"]) - 1.0)))
        if v.get("max") is not None:
            opts.append(("outofrange", repr(float(v["max"]) + 1.0)))
        if v.get("allowed") and (v.get("min") is not None or v.get("max") is not None):
            listed_out = [x for x in {float(a) for a in v["allowed"]} if not def_accepts(v, x)]
            if listed_out:
                opts += [("outofrange-listed", repr(rng.choice(listed_out)))] * 2
    elif dtype in STR_TYPES:
        if v.get("allowed"):
            opts.append(("notallowed", "".join(v["allowed"]) + "#"))
        if v.get("min") is not None:
            opts.append(("outofrange", "!" ))
        if v.get("max") is not None:
            opts.append(("outofrange", "~~"))
        if v.get("allowed") and (v.get("min") is not None or v.get("max") is not None):
            listed_out = [x for x in v["allowed"] if not def_accepts(v, x)]
            if listed_out:
                opts += [("outofrange-listed", rng.choice(listed_out))] * 2
    elif dtype == "boolean":
        if v.get("allowed"):
            vals = {a.lower() in ["1", "true", "yes"] for a in v["allowed"]}
            if len(vals) == 1:
                opts.append(("notallowed", "0" if True in vals else "1"))
    else:
        opts += [("unparseable", rng.choice(["abc", "", "12:00", "2020-13-01", "2020-01-01T25:00:00", "99:99:99"]))]
        if dtype in ("dateTime.tz", "time.tz"):
            opts.append(("outofrange", "2020-01-01T10:00:00" if dtype == "dateTime.tz" else "10:00:00"))
    if not opts:
        return "none", None
    return rng.choice(opts)


def typed_of_text(dtype: str, text: str) -> Any:
    """recipe-encoded typed value of an (invalid-for-the-variable but well-typed) text, None if it has no typed form"""
    try:
        if dtype in INT_TYPES:
            return int(text)
        if dtype in FLOAT_TYPES:
            return ["f", repr(float(text))]
        if dtype in STR_TYPES:
            return text
    except ValueError:
        return None
    return None


def env_tree(stype: str, act: str, args: List[Tuple[str, Optional[str]]], rpc_ns: Optional[str] = None, rpc_name: Optional[str] = None):
    rpc = [stype if rpc_ns is None else rpc_ns, act if rpc_name is None else rpc_name, None, [],
           [["", n, t, [], []] for n, t in args]]
    return [SOAP_NS, "Envelope", None, [[SOAP_NS, "encodingStyle", "http://schemas.xmlsoap.org/soap/encoding/"]],
            [[SOAP_NS, "Body", None, [], [rpc]]]]


def g_script(rng, svc, act) -> Dict[str, Any]:
    vmap = {v["name"]: v for v in svc["vars"]}
    c = rng.randrange(10)
    if c < 2:
        # `None`: UpnpActionError() without a code (the server reports 501 Action Failed)
        # standard codes (UpnpActionErrorCode), vendor / action-specific codes (606..899) and a few other positive
        # ones; without a description, with a plain one, with one containing markup
        code = rng.choice([401, 402, 501, 600, 601, 602, 603, 604, 605,
                           606, 607, 612, 700, 701, 702, 714, 718, 800, 801, 899, rng.randrange(606, 900), 1, 42, None])
        desc = rng.choice([None, None, "Action Failed", "scripted", "no <such> object & \"more\"", "]]> é\n"])
        return {"err": code} if desc is None else {"err": code, "desc": desc}
    outs = [o for o in act["out"]]
    if c == 2 and outs:
        outs = rng.sample(outs, rng.randrange(0, len(outs) + 1))
    ret = {}
    for name, var in outs:
        ret[name] = valid_value(rng, vmap[var])
    if c == 3 and rng.random() < 0.5:
        # the handler breaks its contract: unknown key, wrong type, or a value its own variable rejects
        k = rng.randrange(3)
        if k == 0 or not outs:
            ret["Bogus"] = 1
        else:
            name, var = rng.choice(outs)
            bad = invalid_text(rng, vmap[var])[1] if k == 2 else None
            ret[name] = "wrong" if vmap[var]["dtype"] not in STR_TYPES else 7
            if vmap[var]["dtype"] in INT_TYPES and bad is not None:
                try:
                    ret[name] = int(bad)
                except ValueError:
                    pass
    sc: Dict[str, Any] = {"ret": ret}
    if rng.random() < 0.4:
        # return (some of) the results as the related UpnpStateVariable objects; one key per variable (two keys
        # sharing a variable would both report the last assignment - the handler's own doing)
        seen_vars, keys = set(), []
        for name, var in act["out"]:
            if name in ret and var not in seen_vars and rng.random() < 0.7:
                seen_vars.add(var)
                keys.append(name)
        if keys:
            sc["retvar"] = keys
    return sc


def g_ops(rng, defn, per_action: int, raw_per_action: int) -> List[Dict[str, Any]]:
    ops: List[Dict[str, Any]] = []
    for i, s in enumerate(defn["svcs"]):
        vmap = {v["name"]: v for v in s["vars"]}
        for a in s["acts"]:
            in_names = [n for n, _ in a["in"]]
            dup_names = len(set(in_names)) != len(in_names) or len({n for n, _ in a["out"]}) != len(a["out"])
            for _ in range(per_action):
                args = {n: valid_value(rng, vmap[var]) for n, var in a["in"]}
                ops.append({"kind": "call", "svc": i, "act": a["name"], "args": args, **g_script(rng, s, a)})
            # a call through the client with one argument the definition rejects (not in the list, out of range,
            # listed but out of range, in range but not listed): the client must refuse it, the handler is not reached
            if a["in"]:
                k = rng.randrange(len(a["in"]))
                n, var = a["in"][k]
                cls, text = invalid_text(rng, vmap[var])
                bad = typed_of_text(vmap[var]["dtype"], text) if cls.startswith(("notallowed", "outofrange")) and text is not None else None
                if bad is not None:
                    args = {m: valid_value(rng, vmap[w]) for m, w in a["in"]}
                    args[n] = bad
                    ops.append({"kind": "call", "svc": i, "act": a["name"], "args": args, "invalid": cls, **g_script(rng, s, a)})
            sa = f'"{s["type"]}#{a["name"]}"'
            for _ in range(raw_per_action):
                good = [(n, wire_of(valid_value(rng, vmap[var]))) for n, var in a["in"]]
                cls = rng.choice(["valid", "missing", "duplicate", "unknown", "badvalue", "badvalue", "unknownaction", "malformed", "header", "nsarg", "rpcname"])
                body = env_tree(s["type"], a["name"], good)
                op = {"kind": "raw", "svc": i, "act": a["name"], "soapaction": sa, "class": cls, **g_script(rng, s, a)}
                if cls == "missing":
                    if not good:
                        continue
                    k = rng.randrange(len(good))
                    body = env_tree(s["type"], a["name"], good[:k] + good[k + 1:])
                elif cls == "duplicate":
                    if not good:
                        continue
                    k = rng.randrange(len(good))
                    n, var = a["in"][k]
                    body = env_tree(s["type"], a["name"], good + [(n, wire_of(valid_value(rng, vmap[var])))])
                elif cls == "unknown":
                    extra = rng.choice([("Bogus", "1"), (a["out"][0][0], "1") if a["out"] else ("Nope", None)])
                    k = rng.randrange(len(good) + 1)
                    body = env_tree(s["type"], a["name"], good[:k] + [extra] + good[k:])
                elif cls == "badvalue":
                    if not good:
                        continue
                    k = rng.randrange(len(good))
                    n, var = a["in"][k]
                    c2, text = invalid_text(rng, vmap[var])
                    if text is None:
                        continue
                    op["class"] = c2
                    body = env_tree(s["type"], a["name"], good[:k] + [(n, text)] + good[k + 1:])
                elif cls == "unknownaction":
                    op["soapaction"] = f'"{s["type"]}#{a["name"]}Nope"'
                elif cls == "malformed":
                    m = rng.randrange(5)
                    if m == 0:
                        body, op["text"] = None, rng.choice(["<a", "", "not xml", "<a></b>", "<?xml version=\"1.0\"?>"])
                    elif m == 1:
                        body = [SOAP_NS, "Envelope", None, [], []]
                    elif m == 2:
                        body = [SOAP_NS, "Envelope", None, [], [[SOAP_NS, "Body", None, [], []]]]
                    elif m == 3:
                        body = [SOAP_NS, "Envelope", None, [], [["", "Body", None, [], [body[4][0][4][0]]]]]
                    else:
                        body = [SOAP_NS, "Envelope", None, [], [[SOAP_NS, "Header", None, [], []], [SOAP_NS, "Body", "x", [], []]]]
                elif cls == "header":
                    op["soapaction"] = rng.choice([None, "", a["name"], f'{s["type"]}#{a["name"]}#x', f'#{a["name"]}', f'""{s["type"]}#{a["name"]}""', f'{s["type"]}#{a["name"]}'])
                elif cls == "nsarg":
                    if not good:
                        continue
                    body = env_tree(s["type"], a["name"], good)
                    body[4][0][4][0][4][0][0] = s["type"]
                elif cls == "rpcname":
                    body = env_tree(s["type"], a["name"], good, rpc_ns=rng.choice([None, "", "urn:other"]), rpc_name=rng.choice([None, "Other"]))
                op["body"] = body
                if dup_names and cls == "valid":
                    op["class"] = "valid-dupnames"
                ops.append(op)
    return ops


def generate(ctx: Ctx) -> List[Case]:
    rng = ctx.rng
    cases: List[Case] = []
    i = 0
    for rec in CORPUS:
        cases.append(run_recipe(ctx, {**rec, "xcheck": True}, f"corpus{i}"))
        i += 1
    n = 3000 if ctx.thorough else 330
    for _ in range(n):
        defn = g_defn(rng)
        ops = g_ops(rng, defn, 2 if not ctx.thorough else 3, 4 if not ctx.thorough else 6)
        rec = {"defn": defn, "ops": ops}
        if i % (20 if ctx.thorough else 40) == 0:
            rec["xcheck"] = True
        cases.append(run_recipe(ctx, rec, f"r{i}"))
        i += 1
    return cases


def _svc(vars_, acts, i=0, stype=None):
    return {"type": stype or f"urn:schemas-upnp-org:service:S{i}:1", "id": f"urn:upnp-org:serviceId:S{i}", "ctl": f"/c/{i}",
            "evt": f"/e/{i}", "scpd": f"/s/{i}.xml", "vars": vars_, "acts": acts}


def _dev(services, embedded=(), k=0):
    return {"fields": [f"urn:schemas-upnp-org:device:D{k}:1", "F<&>", "M", None, None, "N", None, None, None, f"uuid:root{k}", None, None],
            "services": list(services), "embedded": list(embedded)}


_S0 = _svc(
    [{"name": "VarA", "dtype": "ui2", "min": "1", "max": "10"}, {"name": "VarM", "dtype": "ui2", "min": "1"},
     {"name": "VarX", "dtype": "i4", "max": "7"},
     {"name": "VarS", "dtype": "string", "allowed": ["a", "b<&>", "c"]}, {"name": "VarE", "dtype": "i4", "default": "5", "ev": True},
     {"name": "VarB", "dtype": "boolean", "default": "1", "allowed": ["1"]},
     {"name": "VarF", "dtype": "r4", "default": "1", "min": "0", "max": "10"}, {"name": "VarT", "dtype": "time.tz"}],
    [{"name": "Act", "in": [["A", "VarA"], ["S", "VarS"]], "out": [["R", "VarE"], ["S2", "VarS"]]},
     {"name": "Tz", "in": [["T", "VarT"]], "out": [["T2", "VarT"]]},
     {"name": "Nop", "in": [], "out": []}])
_SA = '"urn:schemas-upnp-org:service:S0:1#Act"'
CORPUS = [
    # F14a (evented), F14d (one-sided ranges): description only
    {"defn": {"svcs": [_S0], "dev": _dev([0])}, "ops": []},
    # F14b unparseable, F14c missing + the neighbouring classes, valid calls, handler error, time.tz (F08a)
    {"defn": {"svcs": [_S0], "dev": _dev([0])}, "ops": [
        {"kind": "call", "svc": 0, "act": "Act", "args": {"A": 5, "S": "b<&>"}, "ret": {"R": 7, "S2": "b<&>"}},
        {"kind": "call", "svc": 0, "act": "Act", "args": {"A": 1, "S": "a"}, "err": 714},
        {"kind": "call", "svc": 0, "act": "Tz", "args": {"T": ["t", "10:11:12+01:00"]}, "ret": {"T2": ["t", "23:59:59-05:30"]}},
        {"kind": "call", "svc": 0, "act": "Nop", "args": {}, "ret": {}},
        {"kind": "raw", "svc": 0, "act": "Act", "class": "unparseable", "soapaction": _SA, "ret": {}, "body": env_tree(_S0["type"], "Act", [("A", "abc"), ("S", "a")])},
        {"kind": "raw", "svc": 0, "act": "Act", "class": "missing", "soapaction": _SA, "ret": {}, "body": env_tree(_S0["type"], "Act", [("S", "a")])},
        {"kind": "raw", "svc": 0, "act": "Act", "class": "outofrange", "soapaction": _SA, "ret": {}, "body": env_tree(_S0["type"], "Act", [("A", "11"), ("S", "a")])},
        {"kind": "raw", "svc": 0, "act": "Act", "class": "notallowed", "soapaction": _SA, "ret": {}, "body": env_tree(_S0["type"], "Act", [("A", "5"), ("S", "zz")])},
        {"kind": "raw", "svc": 0, "act": "Act", "class": "unknown", "soapaction": _SA, "ret": {}, "body": env_tree(_S0["type"], "Act", [("A", "5"), ("S", "a"), ("Q", "1")])},
        {"kind": "raw", "svc": 0, "act": "Act", "class": "duplicate", "soapaction": _SA, "ret": {"R": 1}, "body": env_tree(_S0["type"], "Act", [("A", "5"), ("A", "6"), ("S", "a")])},
        {"kind": "raw", "svc": 0, "act": "Act", "class": "valid", "soapaction": _SA, "ret": {"R": 7, "S2": "c"}, "body": env_tree(_S0["type"], "Act", [("A", " 5 "), ("S", "a")])},
        {"kind": "raw", "svc": 0, "act": "Act", "class": "valid", "soapaction": _SA, "err": 602, "body": env_tree(_S0["type"], "Act", [("A", "5"), ("S", "a")])},
        {"kind": "raw", "svc": 0, "act": "Act", "class": "unknownaction", "soapaction": '"x#Nope"', "ret": {}, "body": env_tree(_S0["type"], "Nope", [])},
        {"kind": "raw", "svc": 0, "act": "Act", "class": "header", "soapaction": "xNope", "ret": {}, "body": env_tree(_S0["type"], "Act", [])},
        {"kind": "raw", "svc": 0, "act": "Act", "class": "malformed", "soapaction": _SA, "ret": {}, "body": None, "text": "<a"},
    ]},
    # embedded devices, several services
    {"defn": {"svcs": [_S0, _svc([{"name": "V", "dtype": "string"}], [{"name": "Get", "in": [], "out": [["V", "V"]]}], 1),
                       _svc([], [], 2)],
              "dev": _dev([0], [_dev([1], [_dev([2], k=2)], k=1)])},
     "ops": [{"kind": "call", "svc": 1, "act": "Get", "args": {}, "ret": {"V": "x<y>&amp;\U0001F600"}}]},
]


_S_SAME = _svc(
    [{"name": "Vol", "dtype": "ui2", "min": "0", "max": "100"}, {"name": "Txt", "dtype": "string"}],
    [{"name": "SetVolume", "in": [["Volume", "Vol"], ["Channel", "Txt"]], "out": [["Volume", "Txt"], ["Channel", "Vol"]]},
     {"name": "Echo", "in": [["Value", "Txt"]], "out": [["Other", "Vol"], ["Value", "Txt"]]}])
CORPUS.append(
    # one name used for an in- and an out-argument (gap found by the seeded regression batch 2: arguments looked up
    # by name only): last-wins breaks the server's request parsing, first-wins the client's response parsing
    {"defn": {"svcs": [_S_SAME], "dev": _dev([0])}, "ops": [
        {"kind": "call", "svc": 0, "act": "SetVolume", "args": {"Volume": 7, "Channel": "L<&>"}, "ret": {"Volume": "seven", "Channel": 7}},
        {"kind": "call", "svc": 0, "act": "Echo", "args": {"Value": "x"}, "ret": {"Value": "y", "Other": 100}},
        {"kind": "call", "svc": 0, "act": "Echo", "args": {"Value": "x"}, "err": 701},
        {"kind": "raw", "svc": 0, "act": "SetVolume", "class": "valid", "soapaction": '"urn:schemas-upnp-org:service:S0:1#SetVolume"',
         "ret": {"Volume": "v"}, "body": env_tree(_S_SAME["type"], "SetVolume", [("Volume", "100"), ("Channel", "")])},
    ]})


_S_VARS = _svc([{"name": "Uptime", "dtype": "ui4", "default": "7"}, {"name": "Mode", "dtype": "string", "allowed": ["a", "b"], "ev": True}],
               [{"name": "GetUptime", "in": [], "out": [["NewUptime", "Uptime"], ["NewMode", "Mode"]]}])
CORPUS.append(
    # audit C14-1: handlers returning their state variables (`return {"NewUptime": self.state_variable("Uptime")}`)
    {"defn": {"svcs": [_S_VARS], "dev": _dev([0])}, "ops": [
        {"kind": "call", "svc": 0, "act": "GetUptime", "args": {}, "ret": {"NewUptime": 7, "NewMode": "b"}, "retvar": ["NewUptime", "NewMode"]},
        {"kind": "call", "svc": 0, "act": "GetUptime", "args": {}, "ret": {"NewUptime": 9, "NewMode": "a"}, "retvar": ["NewUptime"]},
        {"kind": "call", "svc": 0, "act": "GetUptime", "args": {}, "ret": {"NewUptime": 1, "NewMode": "zz"}, "retvar": ["NewMode"]},
        {"kind": "call", "svc": 0, "act": "GetUptime", "args": {}, "err": None},
        {"kind": "raw", "svc": 0, "act": "GetUptime", "class": "valid", "soapaction": '"urn:schemas-upnp-org:service:S0:1#GetUptime"',
         "ret": {"NewUptime": 3}, "retvar": ["NewUptime"], "body": env_tree(_S_VARS["type"], "GetUptime", [])},
    ]})


_S_BOTH = _svc(
    [{"name": "Lvl", "dtype": "ui2", "allowed": ["1", "5", "50"], "min": "0", "max": "10", "default": "5"},
     {"name": "Half", "dtype": "i4", "allowed": ["-3", "2", "9"], "min": "0"},
     {"name": "Word", "dtype": "string", "allowed": ["cat", "dog", "zebra", ""], "max": "m"}],
    [{"name": "Set", "in": [["L", "Lvl"], ["H", "Half"], ["W", "Word"]], "out": [["L", "Lvl"]]}])
_SB = '"urn:schemas-upnp-org:service:S0:1#Set"'
CORPUS.append(
    # seeded batch 3: `allowedValueRange` serialised only when there is no `allowedValueList` — a variable with BOTH an
    # allowed list and a (two- or one-sided) range; values the list admits but the range rejects, and vice versa
    {"defn": {"svcs": [_S_BOTH], "dev": _dev([0])}, "ops": [
        {"kind": "call", "svc": 0, "act": "Set", "args": {"L": 5, "H": 2, "W": "dog"}, "ret": {"L": 1}},
        {"kind": "call", "svc": 0, "act": "Set", "args": {"L": 50, "H": 2, "W": "cat"}, "invalid": "outofrange-listed", "ret": {"L": 1}},
        {"kind": "call", "svc": 0, "act": "Set", "args": {"L": 3, "H": 2, "W": "cat"}, "invalid": "notallowed-inrange", "ret": {"L": 1}},
        {"kind": "call", "svc": 0, "act": "Set", "args": {"L": 1, "H": -3, "W": "cat"}, "invalid": "outofrange-listed", "ret": {"L": 1}},
        {"kind": "call", "svc": 0, "act": "Set", "args": {"L": 1, "H": 9, "W": "zebra"}, "invalid": "outofrange-listed", "ret": {"L": 1}},
        {"kind": "raw", "svc": 0, "act": "Set", "class": "outofrange-listed", "soapaction": _SB, "ret": {"L": 1}, "body": env_tree(_S_BOTH["type"], "Set", [("L", "50"), ("H", "2"), ("W", "")])},
        {"kind": "raw", "svc": 0, "act": "Set", "class": "notallowed-inrange", "soapaction": _SB, "ret": {"L": 1}, "body": env_tree(_S_BOTH["type"], "Set", [("L", "7"), ("H", "2"), ("W", "cat")])},
        {"kind": "raw", "svc": 0, "act": "Set", "class": "valid", "soapaction": _SB, "ret": {"L": 5}, "body": env_tree(_S_BOTH["type"], "Set", [("L", "1"), ("H", "9"), ("W", "")])},
    ]})


CORPUS.append(
    # seeded regression (errorDescription looked up in the UpnpActionErrorCode enum): a handler raising UpnpActionError with
    # a vendor / action-specific code and NO description is within its contract; the caller must get that code
    {"defn": {"svcs": [_S0], "dev": _dev([0])}, "ops": [
        {"kind": "call", "svc": 0, "act": "Act", "args": {"A": 5, "S": "a"}, "err": 701},
        {"kind": "call", "svc": 0, "act": "Act", "args": {"A": 5, "S": "a"}, "err": 800},
        {"kind": "call", "svc": 0, "act": "Act", "args": {"A": 5, "S": "a"}, "err": 606},
        {"kind": "call", "svc": 0, "act": "Act", "args": {"A": 5, "S": "a"}, "err": 601},
        {"kind": "call", "svc": 0, "act": "Act", "args": {"A": 5, "S": "a"}, "err": 718, "desc": "no <such> object & more"},
        {"kind": "call", "svc": 0, "act": "Nop", "args": {}, "err": 899, "desc": "Action Failed"},
        {"kind": "raw", "svc": 0, "act": "Act", "class": "valid", "soapaction": _SA, "err": 701,
         "body": env_tree(_S0["type"], "Act", [("A", "5"), ("S", "a")])},
        {"kind": "raw", "svc": 0, "act": "Act", "class": "valid", "soapaction": _SA, "err": 402, "desc": "]]> <x/>",
         "body": env_tree(_S0["type"], "Act", [("A", "5"), ("S", "a")])},
    ]})


def _svc_h(i: int, layout: Dict[str, Any], extra_acts=()):
    s = _svc([{"name": "V", "dtype": "ui2", "min": "0", "max": "9"}, {"name": "T", "dtype": "string"}],
             [{"name": "OnBase", "in": [["X", "V"]], "out": [["Y", "T"]]}, {"name": "OnMixin", "in": [], "out": [["Y", "V"]]},
              {"name": "Overridden", "in": [["X", "T"]], "out": []}, {"name": "InBody", "in": [], "out": []}, *extra_acts], i)
    s["layout"] = layout
    return s


CORPUS.append(
    # seeded batch 4 (`_init_actions` scanning `vars(type(self))` instead of `dir(self)`): actions inherited from a base
    # class and a mixin, an inherited action overridden in the subclass, the variable table inherited, two services
    # sharing one base; the definition is the union the MRO gives
    {"defn": {"svcs": [_svc_h(0, {"base": [0], "mixin": [1], "override": [2], "vars_on_base": True, "shared": True}, [dict(SHARED_ACTION)]),
                       _svc_h(1, {"base": [0, 1, 3], "mixin": [], "override": [], "shared": True}, [dict(SHARED_ACTION)])],
              "dev": _dev([0, 1])},
     "ops": [{"kind": "call", "svc": 0, "act": "OnBase", "args": {"X": 3}, "ret": {"Y": "b"}},
             {"kind": "call", "svc": 0, "act": "OnMixin", "args": {}, "ret": {"Y": 9}},
             {"kind": "call", "svc": 0, "act": "Overridden", "args": {"X": "o"}, "ret": {}},
             {"kind": "call", "svc": 0, "act": "InBody", "args": {}, "err": 701},
             {"kind": "call", "svc": 0, "act": "SharedPing", "args": {}, "ret": {}},
             {"kind": "call", "svc": 1, "act": "SharedPing", "args": {}, "ret": {}},
             {"kind": "call", "svc": 1, "act": "OnMixin", "args": {}, "ret": {"Y": 0}},
             {"kind": "raw", "svc": 1, "act": "OnBase", "class": "valid", "soapaction": '"urn:schemas-upnp-org:service:S1:1#OnBase"',
              "ret": {"Y": "z"}, "body": env_tree("urn:schemas-upnp-org:service:S1:1", "OnBase", [("X", "9")])}]})


def signature(case: Case, verdict) -> str:
    return f"C14 {verdict.notes[:300]}"
