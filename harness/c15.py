"""C15 correspondence harness: the real server eventing (`server.py`: subscribe_handler,
unsubscribe_handler, EventSubscriber, UpnpServerService.async_send_events, the eventable variable's
setter / trigger_event) on a virtual-time loop, against the Lean model `Upnp.C15.step` and the judge
monitor `Upnp.C15.ok`.  See DESIGN.md §5 C15 and design/C15.md.

Every operation of a history is applied to the real objects and the loop is run until nothing is ready
(all tasks blocked on a parked NOTIFY delivery or a timer).  Observed: the HTTP response of every
SUBSCRIBE / UNSUBSCRIBE (at the moment its headers are written), every NOTIFY request the service makes
(SID, SEQ, URL, body, virtual time; it stays parked until a `done` operation releases it), every call of
`trigger_event` (which variable, virtual time) and the return of a SUBSCRIBE handler."""
from __future__ import annotations

import asyncio
import datetime as _dt
import itertools
import os
import uuid
from unittest import mock
import warnings
import xml.etree.ElementTree as ET
from typing import Any, Dict, List, Optional

from harness.common import MicrosecondLoop, tok_str
from vk.core import Case, Ctx

GEN_MODULES: List[str] = ["C15"]
MANIFEST = {
    "design_ref": "§5 C15",
    "text": ("Lean theorem c15_history: for every configuration of state variables (any number, any moderation "
             "intervals, any defaults) and every history of SUBSCRIBE / renewal / UNSUBSCRIBE (known, unknown, absent "
             "SID; any CALLBACK / TIMEOUT text), assignments, clock advances and NOTIFY completions in any order, the "
             "trace of the executable model of server.py's eventing is accepted by the judge monitor C15.ok (fresh SID and "
             "granted timeout, initial event with key 0, per-SID keys +1 with 2^32-1 -> 1, bodies carry every evented "
             "variable's current value, no NOTIFY to unsubscribed / expired SIDs, one NOTIFY per trigger, triggers of a "
             "variable at least its interval apart, every live subscriber up to date whenever the server is idle, "
             "renewal moves the expiry, unknown SIDs refused); values are integers, booleans and strings with their wire text, "
             "deliveries may fail, several services of one device are independent (c15_device, service_frame); "
             "accepted_moderation and accepted_unsubscribed_silent state what acceptance implies for ANY trace. The model is tied to server.py by a per-operation "
             "differential check of all observations on a virtual-time loop, the key arithmetic and default timeout are "
             "regenerated from the source (Gen.C15), and the same monitor judges the implementation's traces."),
    "note": ("Trusted: Lean kernel + standard axioms; asyncio scheduling (FIFO ready queue, run-to-quiescence per "
             "operation) is modelled, not verified; the HTTP delivery layer (aiohttp client/server) is replaced by a parked "
             "requester and a mocked request; integer-valued variables only; ASCII header text; assignments are separated "
             "by a loop iteration (two assignments to one moderated variable without yielding are outside the alphabet)."),
    "technique": "Lean 4 proof (simulation invariant between model and monitor, by induction over histories) + model/implementation correspondence on a virtual-time loop",
}
RULE = ("histories of <= 25 (thorough <= 40) operations over {SUBSCRIBE new (good / malformed CALLBACK and TIMEOUT), renewal and "
        "UNSUBSCRIBE of known / unknown / empty / ended SIDs, set variable (same / new value), bursts of 2..6 assignments without "
        "yielding to the loop, advance virtual time (10 ms .. 2 h), "
        "complete or fail an outstanding NOTIFY (any order), preset event key near 2^32-1} on one or two services of one device, each "
        "with 1..4 variables of type i4 / boolean / string (moderation 0 / 0.2 s / 2 s, with / without default, one optionally "
        "not evented) and up to 4 subscribers; the NOTIFY body is parsed with xml.etree and compared per variable text; plus "
        "structured scenarios (bursts inside a moderation interval, change during an initial delivery, expiry, timer ties) "
        "with every completion order of <= 3 outstanding deliveries. non-trivial = at least one event after an initial "
        "event or one deferred trigger; distinct = distinct canonical driver text")
EXHAUSTIVE = {"quick": False, "thorough": False}
ASSUMPTIONS = [
    "variables are of UPnP type i4, boolean or string and are assigned values of their own type (validation is C08/C14's subject); "
    "string values consist of characters XML 1.0 can carry",
    "a CALLBACK header carries one URL",
    "header text is ASCII; TIMEOUT values have at most 9 digits (beyond that timedelta overflows: outside the alphabet)",
    "each operation is followed by running the loop until idle (a burst operation makes its assignments without yielding in between)",
    "a NOTIFY delivery completes, fails (UpnpConnectionError / TimeoutError) or stays outstanding; failed deliveries are not retried by the code",
]
TRUSTED = ["C15: asyncio run-to-quiescence semantics and the µs-snapped virtual-time loop; aiohttp Response.prepare on a mocked request",
           "C15: the attribution search (harness `attribute`) is complete w.r.t. the monitor's J4/J5 rules; whatever it emits is verified by the Lean monitor"]

BASE_US = 1704067200_000000  # 2024-01-01T00:00:00Z


C15Loop = MicrosecondLoop  # µs-snapped virtual-time loop (harness/common.py)


def _make_vdt(loop):
    class VDT(_dt.datetime):
        @classmethod
        def now(cls, tz=None):
            us = BASE_US + round(loop.time() * 1e6)
            d = _dt.datetime(1970, 1, 1) + _dt.timedelta(microseconds=us)
            if tz is not None:
                d = d.replace(tzinfo=_dt.timezone.utc).astimezone(tz)
            return cls(d.year, d.month, d.day, d.hour, d.minute, d.second, d.microsecond, d.tzinfo)
    return VDT


class _RunnerStub:
    """stands in for aiohttp's AppRunner: keeps the Application the server built"""
    captured = None

    def __init__(self, app, *a, **k):
        _RunnerStub.captured = app

    async def setup(self):
        _RunnerStub.captured.freeze()  # what AppRunner.setup does before serving (signals must be frozen)


class _SiteStub:
    def __init__(self, *a, **k):
        self.name = "stub"

    async def start(self):
        pass

    async def stop(self):
        pass


class _Writer:
    """payload writer of the mocked request: reports the moment the response headers are written"""

    def __init__(self, on_headers) -> None:
        self.on_headers = on_headers
        self.output_size = 0
        self.buffer_size = 0
        self.length = None

    async def write_headers(self, status_line, headers):
        self.on_headers(status_line, headers)

    async def write(self, chunk, **kw):
        return None

    async def write_eof(self, chunk=b""):
        return None

    async def drain(self):
        return None

    def enable_chunking(self):
        return None

    def enable_compression(self, *a, **kw):
        return None


async def _settle(loop) -> None:
    """run every ready callback / task step; no virtual time passes"""
    await asyncio.sleep(0)
    n = 0
    while loop._ready and n < 1000:  # noqa: SLF001 - the loop's ready queue is the definition of 'idle'
        await asyncio.sleep(0)
        n += 1


def _body_token(body: str, names: List[str]) -> str:
    """the property set as a real XML parser reads it: (variable index, element text), sorted by index"""
    root = ET.fromstring(body)
    out = []
    ok = root.tag == "{urn:schemas-upnp-org:event-1-0}propertyset"
    for prop in root:
        ok = ok and prop.tag == "{urn:schemas-upnp-org:event-1-0}property" and len(prop) == 1
        for el in prop:
            idx = names.index(el.tag) if el.tag in names else 99
            out.append((idx, el.text or ""))
    out.sort()
    if not ok:
        return "malformed-propertyset"
    return ",".join(f"{i}={tok_str(v)}" for i, v in out) if out else "~"


def granted_tok(to: Optional[str]) -> str:
    """the granted timeout of a SUBSCRIBE response in seconds: UDA's `Second-n` (any case) or a bare `n`;
    `Second-infinite` is a timeout that never runs out; anything else is no granted timeout at all (`~`)"""
    if to is None:
        return "~"
    t = to.strip()
    if t.lower().startswith("second-"):
        t = t[7:]
    if t.lower() == "infinite":
        return str(10 ** 12)
    if t.isascii() and t.isdigit() or (t[:1] == "-" and t[1:].isascii() and t[1:].isdigit()):
        return str(int(t))
    return "~"


def val_tok(v) -> str:
    if v is None:
        return "N"
    if isinstance(v, bool):
        return "b1" if v else "b0"
    if isinstance(v, int):
        return f"i{v}"
    return "s" + tok_str(v)


def attribute(lines: List[str], services) -> List[str]:
    """J4/J5 on HTTP-level observations: find, for every service, an attribution of the NOTIFYs after the initial
    ones to variables (one `h trig x t` line right before the first NOTIFY it pays for) that the Lean monitor
    accepts: x is evented, one of its changes is still unanswered, the previous event attributed to x is at least
    x's interval old, the attribution is made at the NOTIFY's own instant and pays for one NOTIFY per subscriber.
    The search is exhaustive (memoised backtracking); when no attribution exists none is emitted and the judge
    rejects the NOTIFY that cannot be explained."""
    import sys
    nsvc = len(services)
    out_hints: Dict[int, List[str]] = {}
    for k in range(nsvc):
        vs = services[k]
        nv = len(vs)
        evented = [bool(v[0]) for v in vs]
        rate = [int(v[1]) for v in vs]
        # items of this service: (line index, kind, payload)
        items = []
        for li, ln in enumerate(lines):
            t = ln.split()
            if not t:
                continue
            if t[0] == "adv":
                items.append((li, "adv", int(t[1])))
                continue
            if not t[0].startswith("@") or int(t[0][1:]) != k:
                continue
            r = t[1:]
            if r[0] == "set":
                items.append((li, "assign", [(int(r[1]), r[2])]))
            elif r[0] == "burst":
                items.append((li, "assign", [(int(a.split("=")[0]), a.split("=")[1]) for a in r[1].split(",")]))
            elif r[0] in ("sub", "renew", "unsub", "done", "fail", "setkey"):
                items.append((li, "op", r[0]))
            elif r[0] == "o" and r[1] == "resp":
                items.append((li, "resp", (r[2], r[3])))
            elif r[0] == "o" and r[1] == "notify":
                try:
                    items.append((li, "notify", (int(r[2]), int(r[4]))))
                except ValueError:
                    items.append((li, "skip", None))
        cur0 = tuple(val_tok(v[2]) for v in vs)
        memo = set()
        sys.setrecursionlimit(10000)

        best = [-1, []]

        def go(i, now, target, cur, pending, last, subs, last_op, acc=()):
            # subs: tuple of (got, credit)
            while i < len(items):
                li, kind, pl = items[i]
                if kind in ("adv", "assign", "op"):
                    now = target
                    subs = tuple((g, 0) for g, _ in subs)
                    if kind == "adv":
                        target = now + pl
                    elif kind == "assign":
                        cur = list(cur)
                        pending = list(pending)
                        for x, v in pl:
                            if x < nv and cur[x] != v:
                                cur[x] = v
                                pending[x] += 1
                        cur = tuple(cur)
                        pending = tuple(pending)
                    last_op = pl if kind == "op" else kind
                elif kind == "resp":
                    status, sid = pl
                    if last_op == "sub" and status == "200" and sid != "~" and int(sid) == len(subs):
                        subs = subs + ((False, 0),)
                    last_op = None
                elif kind == "notify":
                    sid, t = pl
                    if now < t:
                        subs = tuple((g, 0) for g, _ in subs)
                    now = max(now, t)
                    if sid < len(subs):
                        got, credit = subs[sid]
                        if not got:
                            subs = subs[:sid] + ((True, credit),) + subs[sid + 1:]
                        elif credit > 0:
                            subs = subs[:sid] + ((True, credit - 1),) + subs[sid + 1:]
                        else:
                            key = (i, now, target, cur, pending, last, subs)
                            if i > best[0]:
                                best[0], best[1] = i, list(acc)  # the longest explained prefix (for the judge's message)
                            if key in memo:
                                return None
                            for x in range(nv):
                                if evented[x] and pending[x] > 0 and (last[x] is None or last[x] + rate[x] <= t):
                                    p2 = pending[:x] + (pending[x] - 1,) + pending[x + 1:]
                                    l2 = last[:x] + (t,) + last[x + 1:]
                                    s2 = tuple((g, c + 1) for g, c in subs)
                                    s2 = s2[:sid] + ((True, s2[sid][1] - 1),) + s2[sid + 1:]
                                    rest = go(i + 1, now, target, cur, p2, l2, s2, last_op, acc + ((li, x, t),))
                                    if rest is not None:
                                        return [(li, x, t)] + rest
                            memo.add(key)
                            return None
                i += 1
            return []

        res = go(0, 0, 0, cur0, tuple(0 for _ in vs), tuple(None for _ in vs), tuple(), None)
        for li, x, t in (res if res is not None else best[1]):
            out_hints.setdefault(li, []).append(f"@{k} h trig {x} {t}")
    if not out_hints:
        return lines
    out = []
    for li, ln in enumerate(lines):
        out.extend(out_hints.get(li, []))
        out.append(ln)
    return out


def norm_services(recipe: Dict[str, Any]) -> List[List[List[Any]]]:
    """recipe["services"] = [[ [evented, rate µs, default, type], ... ], ...]; legacy recipe["vars"] = one service of i4"""
    svcs = recipe.get("services")
    if svcs is None:
        svcs = [recipe["vars"]]
    return [[(list(v) + ["i4"])[:4] for v in vs] for vs in svcs]


def run_recipe(ctx: Ctx, recipe: Dict[str, Any], cid: str) -> Case:
    import async_upnp_client.client as cli
    import async_upnp_client.server as srv
    from aiohttp.test_utils import make_mocked_request
    from async_upnp_client.const import DeviceInfo, ServiceInfo
    from async_upnp_client.exceptions import UpnpConnectionError

    services = norm_services(recipe)
    nsvc = len(services)
    names = [[f"V{i}" for i in range(len(vs))] for vs in services]
    lines: List[str] = [f"cfg {BASE_US}"]
    for k, vs in enumerate(services):
        for ev, rate, default, _ty in vs:
            lines.append(f"@{k} var {1 if ev else 0} {rate} {val_tok(default)}")
    lines.append("start")
    tags = set()
    stats = {"post": 0, "deferred": 0}
    if nsvc > 1:
        tags.add("two-services")
    for vs in services:
        for _ev, _r, _d, ty in vs:
            tags.add(f"type:{ty}")

    loop = C15Loop()
    loop.set_exception_handler(lambda _loop, _ctx: None)  # a failed fan-out ends a fire-and-forget task
    saved = (srv.datetime, cli.datetime, srv.UpnpEventableStateVariable.trigger_event)
    obs: List[str] = []
    sids: List[List[str]] = [[] for _ in range(nsvc)]
    sid_svc: Dict[str, int] = {}
    parked: List[Dict[int, asyncio.Future]] = [{} for _ in range(nsvc)]
    ndel = [0] * nsvc
    in_adv = [False]
    svc_objs: List[Any] = []
    app_box: List[Any] = []

    def now_us() -> int:
        return round(loop.time() * 1e6)

    def sid_idx(k: int, u: str) -> int:
        if u not in sids[k]:
            sids[k].append(u)
            sid_svc.setdefault(u, k)
        return sids[k].index(u)

    class Requester(cli.UpnpRequester):  # ONE requester for the whole device, as in a real server
        async def async_http_request(self, method, url, headers=None, body=None):
            hdr = dict(headers or {})
            sid = hdr.get("SID", "?")
            k = sid_svc.get(sid, 0)  # the service that issued this SID (an unissued SID is charged to service 0)
            n = ndel[k]
            ndel[k] += 1
            fut = loop.create_future()
            parked[k][n] = fut
            ok = method == "NOTIFY" and hdr.get("NT") == "upnp:event" and hdr.get("NTS") == "upnp:propchange"
            seq = hdr.get("SEQ", "x")
            try:
                btok = _body_token(body, names[k])
            except ET.ParseError:
                btok = "not-well-formed"
            obs.append(f"@{k} o notify {sid_idx(k, sid)} {seq if ok else 'bad-' + seq} {now_us()} {tok_str(url)} {btok}")
            if seq != "0":
                stats["post"] += 1
            status = await fut
            return status or 200, {}, ""  # the subscriber's answer (the server ignores it: 412 / 500 change nothing)

    orig_trigger = saved[2]

    async def trigger_event(self):  # observation point: which variable triggers an event, and when
        k = next((i for i, so in enumerate(svc_objs) if so is self.service), 0)
        x = names[k].index(self.name)
        obs.append(f"@{k} o trig {x} {now_us()}")
        if in_adv[0]:
            stats["deferred"] += 1
        await orig_trigger(self)

    def coerce_default(v, ty):
        if v is None:
            return None
        if ty == "boolean":
            return "1" if v else "0"
        return str(v)

    svc_classes = []
    for k, vs in enumerate(services):
        defs: Dict[str, Any] = {}
        for i, (ev, rate, default, ty) in enumerate(vs):
            d = coerce_default(default, ty)
            if ev:
                defs[names[k][i]] = srv.create_event_var(ty, default=d, max_rate=(rate / 1e6 if rate else None))
            else:
                defs[names[k][i]] = srv.create_state_var(ty, default=d)
        svc_classes.append(type(f"Svc{k}", (srv.UpnpServerService,), {
            "SERVICE_DEFINITION": ServiceInfo(service_id=f"urn:x:serviceId:S{k}", service_type=f"urn:x:service:S{k}:1",
                                              control_url=f"/c{k}", event_sub_url=f"/e{k}", scpd_url=f"/s{k}",
                                              xml=ET.Element("service")),
            "STATE_VARIABLE_DEFINITIONS": defs}))

    class Dev(srv.UpnpServerDevice):
        DEVICE_DEFINITION = DeviceInfo(device_type="urn:x:device:D:1", friendly_name="d", manufacturer="m", manufacturer_url=None,
                                       model_description=None, model_name="n", model_number=None, model_url=None, serial_number=None,
                                       udn="uuid:00000000-0000-0000-0000-00000000c015", upc=None, presentation_url=None,
                                       url="/device.xml", icons=[], xml=ET.Element("device"))
        EMBEDDED_DEVICES: List[Any] = []
        SERVICES = svc_classes

    def resp_line(k: int, status: int, headers) -> str:
        sid = headers.get("SID") if headers is not None else None
        to = headers.get("TIMEOUT") if headers is not None else None
        if status != 200:
            return f"@{k} o resp {status} ~ ~"
        return f"@{k} o resp {status} {'~' if sid is None else sid_idx(k, sid)} {granted_tok(to)}"

    async def call_handler(k, method, headers) -> None:
        st = {"logged": False, "sid": None}

        def on_headers(status_line, hdrs):
            if not st["logged"]:
                st["logged"] = True
                st["sid"] = hdrs.get("SID")
                obs.append(resp_line(k, int(status_line.split()[1]), hdrs))

        req = make_mocked_request(method, f"/e{k}", headers=headers, writer=_Writer(on_headers), loop=loop, app=app_box[0])

        async def wrapped():
            from aiohttp import web
            try:
                info = await app_box[0].router.resolve(req)  # the server's own route table decides which handler runs
                resp = await info.handler(req)
            except web.HTTPException as e:  # e.g. 405 when the method has no route
                if not st["logged"]:
                    st["logged"] = True
                    obs.append(f"@{k} o resp {e.status} ~ ~")
                return
            except Exception as e:  # noqa: BLE001 - reported as an observation
                if not st["logged"]:
                    st["logged"] = True
                    obs.append(f"@{k} o resp 500 ~ ~")
                    tags.add(f"handler-exc:{type(e).__name__}")
                    if os.environ.get("C15_DEBUG"):
                        import traceback
                        traceback.print_exc()
                elif st["sid"] in sids[k]:
                    obs.append(f"@{k} o exc {sid_idx(k, st['sid'])}")  # raised after the response: the initial NOTIFY failed
                    tags.add("initial-delivery-failed")
                return
            if not st["logged"]:
                st["logged"] = True
                obs.append(resp_line(k, resp.status, resp.headers))
            elif resp.status == 200 and resp.headers.get("SID") in sids[k]:
                obs.append(f"@{k} o ret {sid_idx(k, resp.headers['SID'])}")

        asyncio.ensure_future(wrapped())
        await _settle(loop)

    def is_known(k, ref) -> bool:
        return isinstance(ref, int) and not isinstance(ref, bool) and ref < len(sids[k])

    def sid_of(k, ref) -> Optional[str]:
        if ref is None:
            return None
        if ref == "e":
            return ""  # empty SID header: a SID that was never issued
        if ref == "x" and nsvc > 1 and sids[(k + 1) % nsvc]:
            return sids[(k + 1) % nsvc][0]  # a SID issued by the OTHER service: unknown here
        if not is_known(k, ref):
            return str(uuid.UUID(int=ctx.rng.getrandbits(128), version=4))
        return sids[k][ref]

    def sid_tok(k, ref) -> str:
        if ref is None:
            return "~"
        return str(ref) if is_known(k, ref) else "u"

    def opt_tok(s: Optional[str]) -> str:
        return "~" if s is None else tok_str(s)

    def flush(sort_ties: bool = False) -> None:
        # timers due at the same instant fire in heap order: within a run of consecutive same-time trigger lines
        # (of any service) the lines of each service are put in variable order, keeping their slots
        i = 0
        while i < len(obs):
            j = i
            t0 = obs[i].split()
            if sort_ties and t0[2] == "trig":
                while j < len(obs) and obs[j].split()[2] == "trig" and obs[j].split()[4] == t0[4]:
                    j += 1
                for svc in {ln.split()[0] for ln in obs[i:j]}:
                    slots = [q for q in range(i, j) if obs[q].split()[0] == svc]
                    if len(slots) > 1:
                        ordered = sorted((obs[q] for q in slots), key=lambda s_: int(s_.split()[3]))
                        for q, ln in zip(slots, ordered):
                            obs[q] = ln
                        tags.add("timer-tie")
            i = max(j, i + 1)
        lines.extend(obs)
        obs.clear()

    def typed(k: int, x: int, v):
        """a value of the variable's type (the recipe may carry any JSON scalar)"""
        ty = services[k][x][3]
        if ty == "boolean":
            return bool(v)
        if ty == "string":
            return v if isinstance(v, str) else str(v)
        if isinstance(v, bool) or not isinstance(v, int):
            return len(str(v))
        return v

    async def main() -> None:
        srv.datetime = cli.datetime = _make_vdt(loop)
        srv.UpnpEventableStateVariable.trigger_event = trigger_event
        # the real UpnpServer with its real aiohttp Application / route table (no socket, no SSDP); every SUBSCRIBE /
        # UNSUBSCRIBE below is resolved by that router, so the route table is part of every case
        shared_requester = Requester()
        with mock.patch.object(srv, "AppRunner", _RunnerStub), mock.patch.object(srv, "TCPSite", _SiteStub), \
                mock.patch.object(srv, "AiohttpRequester", lambda *a, **k: shared_requester):
            server = srv.UpnpServer(Dev, ("192.0.2.9", 0), http_port=8000)
            server._create_device()  # noqa: SLF001
            await server._async_start_http_server()  # noqa: SLF001
        app_box.append(_RunnerStub.captured)
        dev = server._device  # noqa: SLF001
        svc_objs.extend(dev.services[f"urn:x:service:S{k}:1"] for k in range(nsvc))
        await _settle(loop)
        obs.clear()  # construction-time triggers (default values) precede the history
        for op in recipe["ops"]:
            k = 0
            if isinstance(op[0], int):
                k, op = op[0], op[1:]
            if k >= nsvc:
                continue
            name = op[0]
            at = f"@{k} "
            if name == "sub":
                _, cb, to = op
                hdr = {"NT": "upnp:event"}
                if cb is not None:
                    hdr["CALLBACK"] = cb
                if to is not None:
                    hdr["TIMEOUT"] = to
                lines.append(f"{at}sub {opt_tok(cb)} {opt_tok(to)}")
                await call_handler(k, "SUBSCRIBE", hdr)
            elif name == "renew":
                _, ref, cb, to = op
                hdr = {"SID": sid_of(k, ref)}
                if cb is not None:
                    hdr["CALLBACK"] = cb
                if to is not None:
                    hdr["TIMEOUT"] = to
                if ref == "x":
                    tags.add("foreign-sid")
                lines.append(f"{at}renew {sid_tok(k, ref)} {opt_tok(cb)} {opt_tok(to)}")
                await call_handler(k, "SUBSCRIBE", hdr)
            elif name == "unsub":
                _, ref = op
                hdr = {} if ref is None else {"SID": sid_of(k, ref)}
                if ref == "x":
                    tags.add("foreign-sid")
                lines.append(f"{at}unsub {sid_tok(k, ref)}")
                await call_handler(k, "UNSUBSCRIBE", hdr)
            elif name == "set":
                _, x, v = op
                if x >= len(names[k]):
                    continue
                v = typed(k, x, v)
                lines.append(f"{at}set {x} {val_tok(v)}")
                svc_objs[k].state_variable(names[k][x]).value = v
                await _settle(loop)
            elif name == "burst":
                pairs = [(x, typed(k, x, v)) for x, v in op[1] if x < len(names[k])]
                if not pairs:
                    continue
                lines.append(at + "burst " + ",".join(f"{x}={val_tok(v)}" for x, v in pairs))
                for x, v in pairs:  # no yield to the loop between the assignments
                    svc_objs[k].state_variable(names[k][x]).value = v
                await _settle(loop)
            elif name == "adv":
                _, dt = op
                lines.append(f"adv {dt}")
                target = (now_us() + dt) / 1e6
                fut = loop.create_future()
                loop.call_at(target, fut.set_result, None)
                in_adv[0] = True
                await fut
                await _settle(loop)
                in_adv[0] = False
            elif name in ("done", "fail"):
                _, n = op
                if n not in parked[k] or parked[k][n].done():
                    continue
                lines.append(f"{at}{name} {n}")
                if name == "done":
                    st_code = ctx.rng.choice([200, 200, 200, 412, 500])
                    if st_code != 200:
                        tags.add(f"subscriber-answers:{st_code}")
                    parked[k][n].set_result(st_code)
                else:
                    parked[k][n].set_exception(ctx.rng.choice([UpnpConnectionError("refused"), asyncio.TimeoutError()]))
                await _settle(loop)
            elif name == "setkey":
                _, ref, key = op
                if not is_known(k, ref):
                    continue
                sub = svc_objs[k].get_subscriber(sids[k][ref])
                if sub is None:
                    continue
                lines.append(f"{at}setkey {ref} {key}")
                sub._event_key = key  # noqa: SLF001 - test hook to reach the wrap of the 32-bit key
            else:
                raise ValueError(name)
            tags.add(f"op:{name}")
            for ln in obs:
                t = ln.split()
                if t[2] == "resp":
                    tags.add(f"resp:{t[3]}")
                elif t[2] == "notify" and t[4] == "4294967295":
                    tags.add("key-wrap")
            flush(sort_ties=(name == "adv"))

    try:
        asyncio.set_event_loop(loop)
        with warnings.catch_warnings():
            warnings.simplefilter("ignore")
            loop.run_until_complete(main())
    finally:
        srv.datetime, cli.datetime, srv.UpnpEventableStateVariable.trigger_event = saved
        try:
            pend = [t for t in asyncio.all_tasks(loop) if not t.done()]
            for t in pend:
                t.cancel()
            if pend:
                loop.run_until_complete(asyncio.gather(*pend, return_exceptions=True))
        finally:
            asyncio.set_event_loop(None)
            loop.close()
    if stats["deferred"]:
        tags.add("deferred-trigger")
    if stats["post"]:
        tags.add("post-initial-event")
    lines = attribute(lines, services)
    if stats["post"] and not any(" o trig " in ln for ln in lines):
        tags.add("hook-saw-no-trigger")
    return Case(cid, lines, recipe, bool(stats["post"] or stats["deferred"]), sorted(tags))


# ---------------------------------------------------------------------------------------------
# generators

GOOD_CB = ["<http://192.0.2.1:8000/cb>", "<http://h/a>", "<http://h/b>", "<x>"]
ODD_CB = [None, "", "<", "<>", "http://no-brackets/cb", "<http://h/a"]
GOOD_TO = [None, "Second-1800", "Second-1", "Second-2", "Second-5", "Second-300", "Second-0"]
ODD_TO = ["second-30", "SECOND-7", "Second--5", "Second-infinite", "infinite", "", "Second-", "abc", "Second-1.5",
          " Second-7 ", "Second-1_0", "Second-+4", "12", "Second-Second-9", "Second-1__0", "Second-_1", "Second-3\t",
          "Second-0x10", "-", "Second- 8", "sec", "Second-007"]
RATES = [0, 200000, 2000000]
ADV = [10000, 50000, 100000, 150000, 200000, 250000, 500000, 1000000, 1800000, 2000000, 3000000, 5000000,
       60_000000, 300_000000, 1800_000000, 3600_000000, 7200_000000]


STRINGS = ["", "a", "x<y&z>", "  sp  ", "é漢", "None", "True", "1", "a'b\"c", "]]>", "line1\nline2", "tab\there", "-7", "cr\rlf\r\nend"]
TYPES = ["i4", "i4", "boolean", "string"]


def rand_value(rng, ty):
    if ty == "boolean":
        return rng.choice([True, False])
    if ty == "string":
        return rng.choice(STRINGS)
    return rng.choice([0, 1, 2, 7, -3, rng.randrange(-50, 1000), 2147483647, -2147483648])


def rand_vars(rng):
    n = rng.randrange(1, 4)
    vs = []
    for _ in range(n):
        ty = rng.choice(TYPES)
        vs.append([True, rng.choice(RATES), rng.choice([None, rand_value(rng, ty)]), ty])
    if rng.randrange(3) == 0:
        ty = rng.choice(TYPES)
        vs.insert(rng.randrange(0, n + 1), [False, 0, rng.choice([None, rand_value(rng, ty)]), ty])
    return vs


def rand_history(rng, max_ops: int):
    nsvc = 2 if rng.randrange(4) == 0 else 1
    svcs = [rand_vars(rng) for _ in range(nsvc)]
    n = rng.randrange(3, max_ops + 1)
    ops: List[Any] = []
    nsub = [0] * nsvc
    ndel = [0] * nsvc  # upper bound on deliveries made so far (a `done` / `fail` of one not made is skipped)
    style = rng.randrange(4)  # 0: short timeouts & long advances, 1: bursts, 2/3: mixed

    def emit(k, op):
        ops.append(([k] + op) if nsvc > 1 else op)

    for _ in range(n):
        k = rng.randrange(nsvc)
        vs = svcs[k]
        c = rng.randrange(100)
        if nsub[k] == 0 and c < 50 or c < 10 and nsub[k] < 4:
            cb = rng.choice(GOOD_CB) if rng.randrange(8) else rng.choice(ODD_CB)
            to = rng.choice(GOOD_TO) if rng.randrange(6) else rng.choice(ODD_TO)
            emit(k, ["sub", cb, to])
            nsub[k] += 1
            ndel[k] += 1
        elif c < 18:
            ref: Any = rng.randrange(0, max(nsub[k], 1)) if rng.randrange(5) else rng.choice(["u", "u", "e", "x"])
            to = rng.choice(GOOD_TO) if rng.randrange(4) else rng.choice(ODD_TO)
            cb = None if rng.randrange(6) else rng.choice(GOOD_CB)
            emit(k, ["renew", ref, cb, to])
        elif c < 24:
            r = rng.randrange(8)
            ref = None if r == 0 else rng.choice(["u", "e", "x"]) if r == 1 else rng.randrange(0, max(nsub[k], 1))
            emit(k, ["unsub", ref])
        elif c < 56:
            x = rng.randrange(0, len(vs))
            emit(k, ["set", x, rand_value(rng, vs[x][3])])
            ndel[k] += nsub[k]
        elif c < 62:
            m = rng.randrange(2, 5)
            pairs = []
            for _ in range(m):
                x = rng.randrange(0, len(vs))
                pairs.append([x, rand_value(rng, vs[x][3])])
            emit(k, ["burst", pairs])
            ndel[k] += nsub[k] * m
        elif c < 80:
            if style == 0:
                dt = rng.choice(ADV)
            elif style == 1:
                dt = rng.choice(ADV[:9])
            else:
                dt = rng.choice(ADV) if rng.randrange(4) else rng.randrange(1, 3_000_000)
            ops.append(["adv", dt])
            for q in range(nsvc):
                ndel[q] += nsub[q]
        elif c < 96:
            if ndel[k]:
                emit(k, [rng.choice(["done", "done", "fail"]), rng.randrange(0, ndel[k])])
        else:
            if nsub[k]:
                emit(k, ["setkey", rng.randrange(0, nsub[k]), rng.choice([4294967294, 4294967295, 4294967293, 5])])
    return {"services": svcs, "ops": ops}


def scenarios() -> List[Dict[str, Any]]:
    """structured histories; each is later expanded with every completion order of its deliveries"""
    sub = ["sub", "<http://h/a>", "Second-1800"]
    sub2 = ["sub", "<http://h/b>", None]
    out = []
    for r0, r1 in itertools.product(RATES, RATES):
        vs = [[True, r0, 0], [True, r1, None]]
        # burst inside the moderation interval, then silence
        out.append({"vars": vs, "ops": [sub, ["set", 0, 1], ["adv", 50000], ["set", 0, 2], ["set", 1, 5], ["adv", 100000],
                                        ["set", 0, 3], ["adv", 3000000]]})
        # change while the initial delivery of a second subscriber is in flight
        out.append({"vars": vs, "ops": [sub, ["adv", 2500000], sub2, ["set", 1, 5], ["set", 0, 4], ["adv", 2500000]]})
        # expiry between the change and the deferred trigger; renewal keeps the other alive
        out.append({"vars": vs, "ops": [["sub", "<http://h/a>", "Second-1"], ["sub", "<http://h/b>", "Second-2"], ["adv", 900000],
                                        ["set", 0, 1], ["set", 1, 1], ["adv", 50000], ["set", 0, 2], ["set", 1, 2],
                                        ["renew", 1, None, "Second-5"], ["adv", 2000000], ["set", 0, 3], ["adv", 5000000], ["set", 1, 9],
                                        ["renew", 0, None, None], ["unsub", 1], ["unsub", 1]]})
    # two timers due at the same instant
    out.append({"vars": [[True, 200000, 0], [True, 2000000, 0], [True, 0, None]],
                "ops": [sub, ["adv", 2000000], ["set", 1, 1], ["adv", 1800000], ["set", 0, 1], ["adv", 100000], ["set", 0, 2],
                        ["set", 1, 2], ["adv", 100000], ["set", 2, 1], ["adv", 1000000]]})
    # several assignments without yielding to the loop (same and different variables)
    for r0, r1 in itertools.product(RATES, RATES):
        out.append({"vars": [[True, r0, 0], [True, r1, None], [False, 0, None]],
                    "ops": [sub, ["burst", [[0, 1], [0, 2], [1, 1], [2, 4], [0, 3], [1, 1]]], ["adv", 100000],
                            ["burst", [[1, 2], [0, 3], [0, 4], [1, 3]]], ["adv", 3000000]]})
    # key wrap
    out.append({"vars": [[True, 0, 0]], "ops": [sub, ["setkey", 0, 4294967294], ["set", 0, 1], ["set", 0, 2], ["set", 0, 3], ["set", 0, 4]]})
    # typed variables: the wire text of booleans, strings (XML specials, blanks, non-ASCII, empty) and integers
    typed = [[True, 0, False, "boolean"], [True, 200000, "a<b", "string"], [True, 0, None, "string"], [False, 0, "hidden", "string"],
             [True, 0, -5, "i4"]]
    out.append({"services": [typed], "ops": [sub, ["set", 0, True], ["set", 1, "x<y&z>"], ["set", 2, ""], ["set", 3, "still hidden"],
                                             ["adv", 300000], ["set", 2, "  sp  "], ["set", 1, "\u00e9\u6f22"], ["set", 4, 2147483647],
                                             ["burst", [[0, False], [2, "None"], [4, -2147483648], [0, True]]], ["adv", 300000]]})
    # two services on one device: independent subscriber lists, one requester
    for r0 in RATES:
        two = [[[True, r0, 0, "i4"], [True, 0, "s", "string"]], [[True, 0, True, "boolean"], [True, r0, None, "i4"]]]
        out.append({"services": two, "ops": [[0, "sub", "<http://h/a>", "Second-5"], [1, "sub", "<http://h/b>", None], [0, "set", 0, 1],
                                             [1, "set", 0, False], ["adv", 100000], [0, "set", 0, 2], [1, "set", 1, 4], [1, "renew", "x", None, None],
                                             [0, "unsub", "x"], [1, "set", 1, 5], ["adv", 3000000], [0, "set", 1, "t"], ["adv", 3000000],
                                             [0, "set", 0, 3], [1, "set", 0, True], [1, "unsub", 0], [0, "renew", 0, None, None]]})
    # timers of two services (and two per service) due at the same instant
    out.append({"services": [[[True, 2000000, None, "boolean"], [True, 200000, None, "i4"]], [[True, 2000000, True, "boolean"], [True, 2000000, 1, "i4"]]],
                "ops": [[0, "sub", "<http://h/a>", None], [1, "sub", "<http://h/b>", None], [0, "burst", [[0, False], [1, 1], [1, 2]]],
                        [0, "burst", [[1, -3], [0, True], [1, 2147483647]]], [1, "burst", [[1, 7], [0, False], [1, 824]]], ["adv", 2000000]]})
    # delivery failures: the initial NOTIFY of one subscriber / one NOTIFY of a fan-out fails; the others go on
    for r0 in RATES:
        out.append({"vars": [[True, r0, 0], [True, 0, None]],
                    "ops": [sub, ["fail", 0], sub2, ["set", 1, 1], ["fail", 2], ["set", 1, 2], ["adv", 2500000], ["set", 0, 5], ["fail", 7],
                            ["set", 0, 6], ["adv", 2500000], ["done", 1]]})
    return out


def with_completions(rec: Dict[str, Any], rng, limit: int) -> List[Dict[str, Any]]:
    """insert `done` operations: every order of the first <= 3 deliveries at every position (bounded by `limit`)"""
    if "services" in rec and len(rec["services"]) > 1:
        return []
    ops = rec["ops"]
    outs = []
    # deliveries 0..2 exist once the operations that create them have run; a `done` placed too early is skipped
    perms = list(itertools.permutations([0, 1, 2]))
    places = list(itertools.combinations_with_replacement(range(1, len(ops) + 1), 3))
    rng.shuffle(places)
    for perm in perms:
        for pl in places[: max(1, limit // len(perms))]:
            new = list(ops)
            for d, p in sorted(zip(perm, pl), key=lambda z: -z[1]):
                new.insert(p, ["done", d])
            outs.append({**rec, "ops": new})
    return outs


CORPUS: List[Dict[str, Any]] = [
    # F15a: second change inside the moderation interval is deferred to a timer that never fires
    {"vars": [[True, 200000, None]], "ops": [["sub", "<http://h/a>", "Second-1800"], ["done", 0], ["set", 0, 5], ["adv", 50000],
                                             ["set", 0, 6], ["adv", 1000000], ["set", 0, 7], ["adv", 1000000]]},
    # F15b: change while the initial NOTIFY of a new subscriber is in flight
    {"vars": [[True, 0, 0]], "ops": [["sub", "<http://h/a>", None], ["set", 0, 5], ["done", 0], ["adv", 1000000]]},
    # F15c: SUBSCRIBE with an empty SID header and a CALLBACK was answered 200 + new SID without registering anybody
    {"vars": [[True, 0, 0]], "ops": [["renew", "e", "<http://h/a>", "Second-5"], ["set", 0, 1], ["unsub", "e"]]},
    # F15e: a carriage return in a string value reached the subscriber as a line feed
    {"services": [[[True, 0, None, "string"]]], "ops": [["sub", "<http://h/a>", None], ["set", 0, "a\rb"]]},
    # F15d: two assignments to a moderated variable without yielding to the loop gave two events at the same instant
    {"vars": [[True, 2000000, None]], "ops": [["sub", "<http://h/a>", None], ["burst", [[0, 1], [0, 2], [0, 3]]], ["adv", 3000000]]},
]


def _gen_chunk(args) -> List[Case]:
    prop, tier, seed, lo, hi, max_ops, activate = args
    if activate:
        from vk.core import activate_repo
        activate_repo()
    import random
    out = []
    ctx = Ctx(prop, tier, seed, None, 0.0)  # type: ignore[arg-type]
    for i in range(lo, hi):
        rng = random.Random((seed * 1000003 + 15) * 7919 + i)
        ctx.rng = rng
        out.append(run_recipe(ctx, rand_history(rng, max_ops), f"r{i}"))
    return out


def generate(ctx: Ctx) -> List[Case]:
    cases: List[Case] = []
    for i, rec in enumerate(CORPUS):
        cases.append(run_recipe(ctx, rec, f"corpus{i}"))
    i = 0
    for rec in scenarios():
        cases.append(run_recipe(ctx, rec, f"s{i}"))
        i += 1
        for r2 in with_completions(rec, ctx.rng, 60 if ctx.thorough else 6):
            cases.append(run_recipe(ctx, r2, f"s{i}"))
            i += 1
    n_random = 30000 if ctx.thorough else 500
    max_ops = 40 if ctx.thorough else 25
    if ctx.thorough:
        import multiprocessing as mp
        nproc = min(12, mp.cpu_count())
        step = 500
        jobs = [(ctx.prop, ctx.tier, ctx.seed, lo, min(lo + step, n_random), max_ops, True) for lo in range(0, n_random, step)]
        with mp.get_context("fork").Pool(nproc) as pool:
            for chunk in pool.imap(_gen_chunk, jobs):
                cases.extend(chunk)
    else:
        cases.extend(_gen_chunk((ctx.prop, ctx.tier, ctx.seed, 0, n_random, max_ops, False)))
    return cases


def signature(case: Case, verdict) -> str:
    ops = " ".join(sorted({ln.split()[0] for ln in case.lines if not ln.startswith(("o ", "cfg", "var", "start"))}))
    return f"C15 ops[{ops}] {verdict.notes[:300]}"
