"""C15 correspondence harness: the real server eventing (`server.py`: subscribe_handler,
unsubscribe_handler, EventSubscriber, UpnpServerService.async_send_events, the eventable variable's
setter / trigger_event) on a virtual-time loop, against the Lean model `Upnp.C15.step` and the judge
monitor `Upnp.C15.ok`.  See DESIGN.md §5 C15 and design/C15.md.

Every operation of a history is applied to the real objects and the loop is run until nothing is ready
(all tasks blocked on a parked NOTIFY delivery or a timer).  Observed: the HTTP response of every
SUBSCRIBE / UNSUBSCRIBE (at the moment its headers are written), every NOTIFY request the service makes
(SID, SEQ, URL, body, virtual time; it stays parked until a `done` operation releases it), every call of
`trigger_event` (which variable, virtual time) and the return of a SUBSCRIBE handler."""
from __future__ import annotations

import asyncio
import datetime as _dt
import itertools
import uuid
import warnings
import xml.etree.ElementTree as ET
from typing import Any, Dict, List, Optional

from harness.common import VirtualTimeLoop, tok_str
from vk.core import Case, Ctx

GEN_MODULES: List[str] = ["C15"]
MANIFEST = {
    "design_ref": "§5 C15",
    "text": ("Lean theorem c15_history: for every configuration of state variables (any number, any moderation "
             "intervals, any defaults) and every history of SUBSCRIBE / renewal / UNSUBSCRIBE (known, unknown, absent "
             "SID; any CALLBACK / TIMEOUT text), assignments, clock advances and NOTIFY completions in any order, the "
             "trace of the executable model of server.py's eventing is accepted by the judge monitor C15.ok (fresh SID and "
             "granted timeout, initial event with key 0, per-SID keys +1 with 2^32-1 -> 1, bodies carry every evented "
             "variable's current value, no NOTIFY to unsubscribed / expired SIDs, one NOTIFY per trigger, triggers of a "
             "variable at least its interval apart, every live subscriber up to date whenever the server is idle, "
             "renewal moves the expiry, unknown SIDs refused). The model is tied to server.py by a per-operation "
             "differential check of all observations on a virtual-time loop, the key arithmetic and default timeout are "
             "regenerated from the source (Gen.C15), and the same monitor judges the implementation's traces."),
    "note": ("Trusted: Lean kernel + standard axioms; asyncio scheduling (FIFO ready queue, run-to-quiescence per "
             "operation) is modelled, not verified; the HTTP delivery layer (aiohttp client/server) is replaced by a parked "
             "requester and a mocked request; integer-valued variables only; ASCII header text; assignments are separated "
             "by a loop iteration (two assignments to one moderated variable without yielding are outside the alphabet)."),
    "technique": "Lean 4 proof (simulation invariant between model and monitor, by induction over histories) + model/implementation correspondence on a virtual-time loop",
}
RULE = ("histories of <= 25 (thorough <= 40) operations over {SUBSCRIBE new (good / malformed CALLBACK and TIMEOUT), renewal and "
        "UNSUBSCRIBE of known / unknown / empty / ended SIDs, set variable (same / new value), bursts of 2..6 assignments without "
        "yielding to the loop, advance virtual time (10 ms .. 2 h), "
        "complete an outstanding NOTIFY (any order), preset event key near 2^32-1} on a service with 1..4 variables "
        "(moderation 0 / 0.2 s / 2 s, with / without default, one optionally not evented) and up to 4 subscribers; plus "
        "structured scenarios (bursts inside a moderation interval, change during an initial delivery, expiry, timer ties) "
        "with every completion order of <= 3 outstanding deliveries. non-trivial = at least one event after an initial "
        "event or one deferred trigger; distinct = distinct canonical driver text")
EXHAUSTIVE = {"quick": False, "thorough": False}
ASSUMPTIONS = [
    "variables hold Python ints of UPnP type i4 (value validation and other data types are C08/C14's subject)",
    "header text is ASCII; TIMEOUT values have at most 9 digits (beyond that timedelta overflows: outside the alphabet)",
    "each operation is followed by running the loop until idle (a burst operation makes its assignments without yielding in between)",
    "NOTIFY deliveries complete successfully (a failing delivery only raises out of the fire-and-forget task)",
]
TRUSTED = ["C15: asyncio run-to-quiescence semantics and the µs-snapped virtual-time loop; aiohttp Response.prepare on a mocked request"]

BASE_US = 1704067200_000000  # 2024-01-01T00:00:00Z


class C15Loop(VirtualTimeLoop):
    """virtual-time loop whose timer deadlines are snapped to whole microseconds, so that two timers
    computed by different float routes for the same instant coincide (and are popped together)."""

    def call_at(self, when, callback, *args, context=None):  # type: ignore[override]
        return super().call_at(round(when * 1e6) / 1e6, callback, *args, context=context)


def _make_vdt(loop):
    class VDT(_dt.datetime):
        @classmethod
        def now(cls, tz=None):
            us = BASE_US + round(loop.time() * 1e6)
            d = _dt.datetime(1970, 1, 1) + _dt.timedelta(microseconds=us)
            if tz is not None:
                d = d.replace(tzinfo=_dt.timezone.utc).astimezone(tz)
            return cls(d.year, d.month, d.day, d.hour, d.minute, d.second, d.microsecond, d.tzinfo)
    return VDT


class _Writer:
    """payload writer of the mocked request: reports the moment the response headers are written"""

    def __init__(self, on_headers) -> None:
        self.on_headers = on_headers
        self.output_size = 0
        self.buffer_size = 0
        self.length = None

    async def write_headers(self, status_line, headers):
        self.on_headers(status_line, headers)

    async def write(self, chunk, **kw):
        return None

    async def write_eof(self, chunk=b""):
        return None

    async def drain(self):
        return None

    def enable_chunking(self):
        return None

    def enable_compression(self, *a, **kw):
        return None


async def _settle(loop) -> None:
    """run every ready callback / task step; no virtual time passes"""
    await asyncio.sleep(0)
    n = 0
    while loop._ready and n < 1000:  # noqa: SLF001 - the loop's ready queue is the definition of 'idle'
        await asyncio.sleep(0)
        n += 1


def _body_token(body: str, names: List[str]) -> str:
    root = ET.fromstring(body)
    out = []
    for prop in root:
        for el in prop:
            idx = names.index(el.tag) if el.tag in names else 99
            txt = el.text or ""
            out.append((idx, "N" if txt == "None" else txt))
    out.sort()
    return ",".join(f"{i}={v}" for i, v in out) if out else "~"


def run_recipe(ctx: Ctx, recipe: Dict[str, Any], cid: str) -> Case:
    import async_upnp_client.client as cli
    import async_upnp_client.server as srv
    from aiohttp.test_utils import make_mocked_request
    from async_upnp_client.const import ServiceInfo

    varcfg = recipe["vars"]
    names = [f"V{i}" for i in range(len(varcfg))]
    lines: List[str] = [f"cfg {BASE_US}"]
    for ev, rate, default in varcfg:
        lines.append(f"var {1 if ev else 0} {rate} {'N' if default is None else default}")
    lines.append("start")
    tags = set()
    stats = {"post": 0, "deferred": 0}

    loop = C15Loop()
    saved = (srv.datetime, cli.datetime, srv.UpnpEventableStateVariable.trigger_event)
    obs: List[str] = []
    sids: List[str] = []
    parked: Dict[int, asyncio.Future] = {}
    ndel = [0]
    in_adv = [False]

    def now_us() -> int:
        return round(loop.time() * 1e6)

    def sid_idx(u: str) -> int:
        if u not in sids:
            sids.append(u)
        return sids.index(u)

    class Requester(cli.UpnpRequester):
        async def async_http_request(self, method, url, headers=None, body=None):
            k = ndel[0]
            ndel[0] += 1
            fut = loop.create_future()
            parked[k] = fut
            hdr = dict(headers or {})
            ok = method == "NOTIFY" and hdr.get("NT") == "upnp:event" and hdr.get("NTS") == "upnp:propchange"
            seq = hdr.get("SEQ", "x")
            obs.append(f"o notify {sid_idx(hdr.get('SID', '?'))} {seq if ok else 'bad-' + seq} {now_us()} {tok_str(url)} {_body_token(body, names)}")
            if seq != "0":
                stats["post"] += 1
            await fut
            return 200, {}, ""

    orig_trigger = saved[2]

    async def trigger_event(self):  # observation point: which variable triggers an event, and when
        x = names.index(self.name)
        obs.append(f"o trig {x} {now_us()}")
        if in_adv[0]:
            stats["deferred"] += 1
        await orig_trigger(self)

    defs: Dict[str, Any] = {}
    for i, (ev, rate, default) in enumerate(varcfg):
        d = None if default is None else str(default)
        if ev:
            defs[names[i]] = srv.create_event_var("i4", default=d, max_rate=(rate / 1e6 if rate else None))
        else:
            defs[names[i]] = srv.create_state_var("i4", default=d)

    class Svc(srv.UpnpServerService):
        SERVICE_DEFINITION = ServiceInfo(service_id="urn:x:serviceId:S", service_type="urn:x:service:S:1",
                                         control_url="/c", event_sub_url="/e", scpd_url="/s", xml=ET.Element("service"))
        STATE_VARIABLE_DEFINITIONS = defs

    handlers: List[Any] = []  # (task, state dict)

    def resp_line(status: int, headers) -> str:
        sid = headers.get("SID") if headers is not None else None
        to = headers.get("TIMEOUT") if headers is not None else None
        if status != 200:
            return f"o resp {status} ~ ~"
        return f"o resp {status} {'~' if sid is None else sid_idx(sid)} {'~' if to is None else to}"

    async def call_handler(fn, svc, method, headers) -> None:
        st = {"logged": False}

        def on_headers(status_line, hdrs):
            if not st["logged"]:
                st["logged"] = True
                obs.append(resp_line(int(status_line.split()[1]), hdrs))

        req = make_mocked_request(method, "/e", headers=headers, writer=_Writer(on_headers), loop=loop)

        async def wrapped():
            try:
                resp = await fn(svc, req)
            except Exception as e:  # noqa: BLE001 - reported as an observation
                if not st["logged"]:
                    st["logged"] = True
                    obs.append(f"o resp 500 ~ ~")
                tags.add(f"handler-exc:{type(e).__name__}")
                return
            if not st["logged"]:
                st["logged"] = True
                obs.append(resp_line(resp.status, resp.headers))
            elif resp.status == 200 and resp.headers.get("SID") in sids:
                obs.append(f"o ret {sid_idx(resp.headers['SID'])}")

        handlers.append(asyncio.ensure_future(wrapped()))
        await _settle(loop)

    def sid_of(ref) -> Optional[str]:
        if ref is None:
            return None
        if ref == "e":
            return ""  # empty SID header: a SID that was never issued
        if ref == "u" or not isinstance(ref, int) or ref >= len(sids):
            return str(uuid.UUID(int=ctx.rng.getrandbits(128), version=4))
        return sids[ref]

    def sid_tok(ref) -> str:
        if ref is None:
            return "~"
        if ref == "u" or not isinstance(ref, int) or ref >= len(sids):
            return "u"
        return str(ref)

    def opt_tok(s: Optional[str]) -> str:
        return "~" if s is None else tok_str(s)

    def flush(sort_ties: bool = False) -> None:
        # two timers due at the same instant fire in heap order: sort adjacent same-time trigger lines
        i = 0
        while i < len(obs):
            j = i
            if sort_ties and obs[i].startswith("o trig "):
                while j < len(obs) and obs[j].startswith("o trig ") and obs[j].split()[3] == obs[i].split()[3]:
                    j += 1
                if j - i > 1:
                    obs[i:j] = sorted(obs[i:j], key=lambda s: int(s.split()[2]))
                    tags.add("timer-tie")
            i = max(j, i + 1)
        lines.extend(obs)
        obs.clear()

    async def main() -> None:
        srv.datetime = cli.datetime = _make_vdt(loop)
        srv.UpnpEventableStateVariable.trigger_event = trigger_event
        svc = Svc(Requester())
        await _settle(loop)
        obs.clear()  # construction-time triggers (default values) precede the history
        for op in recipe["ops"]:
            name = op[0]
            if name == "sub":
                _, cb, to = op
                hdr = {"NT": "upnp:event"}
                if cb is not None:
                    hdr["CALLBACK"] = cb
                if to is not None:
                    hdr["TIMEOUT"] = to
                lines.append(f"sub {opt_tok(cb)} {opt_tok(to)}")
                await call_handler(srv.subscribe_handler, svc, "SUBSCRIBE", hdr)
            elif name == "renew":
                _, ref, cb, to = op
                hdr = {"SID": sid_of(ref)}
                if cb is not None:
                    hdr["CALLBACK"] = cb
                if to is not None:
                    hdr["TIMEOUT"] = to
                lines.append(f"renew {sid_tok(ref)} {opt_tok(cb)} {opt_tok(to)}")
                await call_handler(srv.subscribe_handler, svc, "SUBSCRIBE", hdr)
            elif name == "unsub":
                _, ref = op
                hdr = {} if ref is None else {"SID": sid_of(ref)}
                lines.append(f"unsub {sid_tok(ref)}")
                await call_handler(srv.unsubscribe_handler, svc, "UNSUBSCRIBE", hdr)
            elif name == "set":
                _, x, v = op
                if x >= len(names):
                    continue
                lines.append(f"set {x} {v}")
                svc.state_variable(names[x]).value = v
                await _settle(loop)
            elif name == "burst":
                pairs = [(x, v) for x, v in op[1] if x < len(names)]
                if not pairs:
                    continue
                lines.append("burst " + ",".join(f"{x}={v}" for x, v in pairs))
                for x, v in pairs:  # no yield to the loop between the assignments
                    svc.state_variable(names[x]).value = v
                await _settle(loop)
            elif name == "adv":
                _, dt = op
                lines.append(f"adv {dt}")
                target = (now_us() + dt) / 1e6
                fut = loop.create_future()
                loop.call_at(target, fut.set_result, None)
                in_adv[0] = True
                await fut
                await _settle(loop)
                in_adv[0] = False
            elif name == "done":
                _, k = op
                if k not in parked or parked[k].done():
                    continue
                lines.append(f"done {k}")
                parked[k].set_result(None)
                await _settle(loop)
            elif name == "setkey":
                _, ref, key = op
                if not isinstance(ref, int) or ref >= len(sids):
                    continue
                sub = svc.get_subscriber(sids[ref])
                if sub is None:
                    continue
                lines.append(f"setkey {ref} {key}")
                sub._event_key = key  # noqa: SLF001 - test hook to reach the wrap of the 32-bit key
            else:
                raise ValueError(name)
            tags.add(f"op:{name}")
            for ln in obs:
                t = ln.split()
                if t[1] == "resp":
                    tags.add(f"resp:{t[2]}")
                elif t[1] == "notify" and t[3] == "4294967295":
                    tags.add("key-wrap")
            flush(sort_ties=(name == "adv"))

    try:
        asyncio.set_event_loop(loop)
        with warnings.catch_warnings():
            warnings.simplefilter("ignore")
            loop.run_until_complete(main())
    finally:
        srv.datetime, cli.datetime, srv.UpnpEventableStateVariable.trigger_event = saved
        try:
            pend = [t for t in asyncio.all_tasks(loop) if not t.done()]
            for t in pend:
                t.cancel()
            if pend:
                loop.run_until_complete(asyncio.gather(*pend, return_exceptions=True))
        finally:
            asyncio.set_event_loop(None)
            loop.close()
    if stats["deferred"]:
        tags.add("deferred-trigger")
    if stats["post"]:
        tags.add("post-initial-event")
    return Case(cid, lines, recipe, bool(stats["post"] or stats["deferred"]), sorted(tags))


# ---------------------------------------------------------------------------------------------
# generators

GOOD_CB = ["<http://192.0.2.1:8000/cb>", "<http://h/a>", "<http://h/b>", "<x>"]
ODD_CB = [None, "", "<", "<>", "http://no-brackets/cb", "<http://h/a"]
GOOD_TO = [None, "Second-1800", "Second-1", "Second-2", "Second-5", "Second-300", "Second-0"]
ODD_TO = ["second-30", "SECOND-7", "Second--5", "Second-infinite", "infinite", "", "Second-", "abc", "Second-1.5",
          " Second-7 ", "Second-1_0", "Second-+4", "12", "Second-Second-9", "Second-1__0", "Second-_1", "Second-3\t",
          "Second-0x10", "-", "Second- 8", "sec", "Second-007"]
RATES = [0, 200000, 2000000]
ADV = [10000, 50000, 100000, 150000, 200000, 250000, 500000, 1000000, 1800000, 2000000, 3000000, 5000000,
       60_000000, 300_000000, 1800_000000, 3600_000000, 7200_000000]


def rand_vars(rng):
    n = rng.randrange(1, 4)
    vs = [[True, rng.choice(RATES), rng.choice([None, 0, 7])] for _ in range(n)]
    if rng.randrange(3) == 0:
        vs.insert(rng.randrange(0, n + 1), [False, 0, rng.choice([None, 3])])
    return vs


def rand_history(rng, max_ops: int):
    vs = rand_vars(rng)
    n = rng.randrange(3, max_ops + 1)
    ops: List[Any] = []
    nsub = 0
    ndel = 0          # upper bound on deliveries made so far (a `done` of one not made is skipped)
    style = rng.randrange(4)  # 0: short timeouts & long advances, 1: bursts, 2/3: mixed
    for _ in range(n):
        c = rng.randrange(100)
        if nsub == 0 and c < 50 or c < 10 and nsub < 4:
            cb = rng.choice(GOOD_CB) if rng.randrange(8) else rng.choice(ODD_CB)
            to = rng.choice(GOOD_TO) if rng.randrange(6) else rng.choice(ODD_TO)
            ops.append(["sub", cb, to])
            nsub += 1
            ndel += 1
        elif c < 18:
            ref: Any = rng.randrange(0, max(nsub, 1)) if rng.randrange(5) else rng.choice(["u", "u", "e"])
            to = rng.choice(GOOD_TO) if rng.randrange(4) else rng.choice(ODD_TO)
            cb = None if rng.randrange(6) else rng.choice(GOOD_CB)
            ops.append(["renew", ref, cb, to])
        elif c < 24:
            r = rng.randrange(8)
            ref = None if r == 0 else rng.choice(["u", "e"]) if r == 1 else rng.randrange(0, max(nsub, 1))
            ops.append(["unsub", ref])
        elif c < 56:
            x = rng.randrange(0, len(vs))
            ops.append(["set", x, rng.choice([0, 1, 2, 7, -3, rng.randrange(-50, 1000)])])
            ndel += nsub
        elif c < 62:
            k = rng.randrange(2, 5)
            ops.append(["burst", [[rng.randrange(0, len(vs)), rng.choice([0, 1, 2, 7, rng.randrange(-50, 1000)])] for _ in range(k)]])
            ndel += nsub * k
        elif c < 82:
            if style == 0:
                dt = rng.choice(ADV)
            elif style == 1:
                dt = rng.choice(ADV[:9])
            else:
                dt = rng.choice(ADV) if rng.randrange(4) else rng.randrange(1, 3_000_000)
            ops.append(["adv", dt])
            ndel += nsub
        elif c < 96:
            if ndel:
                ops.append(["done", rng.randrange(0, ndel)])
        else:
            if nsub:
                ops.append(["setkey", rng.randrange(0, nsub), rng.choice([4294967294, 4294967295, 4294967293, 5])])
    return {"vars": vs, "ops": ops}


def scenarios() -> List[Dict[str, Any]]:
    """structured histories; each is later expanded with every completion order of its deliveries"""
    sub = ["sub", "<http://h/a>", "Second-1800"]
    sub2 = ["sub", "<http://h/b>", None]
    out = []
    for r0, r1 in itertools.product(RATES, RATES):
        vs = [[True, r0, 0], [True, r1, None]]
        # burst inside the moderation interval, then silence
        out.append({"vars": vs, "ops": [sub, ["set", 0, 1], ["adv", 50000], ["set", 0, 2], ["set", 1, 5], ["adv", 100000],
                                        ["set", 0, 3], ["adv", 3000000]]})
        # change while the initial delivery of a second subscriber is in flight
        out.append({"vars": vs, "ops": [sub, ["adv", 2500000], sub2, ["set", 1, 5], ["set", 0, 4], ["adv", 2500000]]})
        # expiry between the change and the deferred trigger; renewal keeps the other alive
        out.append({"vars": vs, "ops": [["sub", "<http://h/a>", "Second-1"], ["sub", "<http://h/b>", "Second-2"], ["adv", 900000],
                                        ["set", 0, 1], ["set", 1, 1], ["adv", 50000], ["set", 0, 2], ["set", 1, 2],
                                        ["renew", 1, None, "Second-5"], ["adv", 2000000], ["set", 0, 3], ["adv", 5000000], ["set", 1, 9],
                                        ["renew", 0, None, None], ["unsub", 1], ["unsub", 1]]})
    # two timers due at the same instant
    out.append({"vars": [[True, 200000, 0], [True, 2000000, 0], [True, 0, None]],
                "ops": [sub, ["adv", 2000000], ["set", 1, 1], ["adv", 1800000], ["set", 0, 1], ["adv", 100000], ["set", 0, 2],
                        ["set", 1, 2], ["adv", 100000], ["set", 2, 1], ["adv", 1000000]]})
    # several assignments without yielding to the loop (same and different variables)
    for r0, r1 in itertools.product(RATES, RATES):
        out.append({"vars": [[True, r0, 0], [True, r1, None], [False, 0, None]],
                    "ops": [sub, ["burst", [[0, 1], [0, 2], [1, 1], [2, 4], [0, 3], [1, 1]]], ["adv", 100000],
                            ["burst", [[1, 2], [0, 3], [0, 4], [1, 3]]], ["adv", 3000000]]})
    # key wrap
    out.append({"vars": [[True, 0, 0]], "ops": [sub, ["setkey", 0, 4294967294], ["set", 0, 1], ["set", 0, 2], ["set", 0, 3], ["set", 0, 4]]})
    return out


def with_completions(rec: Dict[str, Any], rng, limit: int) -> List[Dict[str, Any]]:
    """insert `done` operations: every order of the first <= 3 deliveries at every position (bounded by `limit`)"""
    ops = rec["ops"]
    outs = []
    # deliveries 0..2 exist once the operations that create them have run; a `done` placed too early is skipped
    perms = list(itertools.permutations([0, 1, 2]))
    places = list(itertools.combinations_with_replacement(range(1, len(ops) + 1), 3))
    rng.shuffle(places)
    for perm in perms:
        for pl in places[: max(1, limit // len(perms))]:
            new = list(ops)
            for d, p in sorted(zip(perm, pl), key=lambda z: -z[1]):
                new.insert(p, ["done", d])
            outs.append({"vars": rec["vars"], "ops": new})
    return outs


CORPUS: List[Dict[str, Any]] = [
    # F15a: second change inside the moderation interval is deferred to a timer that never fires
    {"vars": [[True, 200000, None]], "ops": [["sub", "<http://h/a>", "Second-1800"], ["done", 0], ["set", 0, 5], ["adv", 50000],
                                             ["set", 0, 6], ["adv", 1000000], ["set", 0, 7], ["adv", 1000000]]},
    # F15b: change while the initial NOTIFY of a new subscriber is in flight
    {"vars": [[True, 0, 0]], "ops": [["sub", "<http://h/a>", None], ["set", 0, 5], ["done", 0], ["adv", 1000000]]},
    # F15c: SUBSCRIBE with an empty SID header and a CALLBACK was answered 200 + new SID without registering anybody
    {"vars": [[True, 0, 0]], "ops": [["renew", "e", "<http://h/a>", "Second-5"], ["set", 0, 1], ["unsub", "e"]]},
    # F15d: two assignments to a moderated variable without yielding to the loop gave two events at the same instant
    {"vars": [[True, 2000000, None]], "ops": [["sub", "<http://h/a>", None], ["burst", [[0, 1], [0, 2], [0, 3]]], ["adv", 3000000]]},
]


def _gen_chunk(args) -> List[Case]:
    prop, tier, seed, lo, hi, max_ops, activate = args
    if activate:
        from vk.core import activate_repo
        activate_repo()
    import random
    out = []
    ctx = Ctx(prop, tier, seed, None, 0.0)  # type: ignore[arg-type]
    for i in range(lo, hi):
        rng = random.Random((seed * 1000003 + 15) * 7919 + i)
        ctx.rng = rng
        out.append(run_recipe(ctx, rand_history(rng, max_ops), f"r{i}"))
    return out


def generate(ctx: Ctx) -> List[Case]:
    cases: List[Case] = []
    for i, rec in enumerate(CORPUS):
        cases.append(run_recipe(ctx, rec, f"corpus{i}"))
    i = 0
    for rec in scenarios():
        cases.append(run_recipe(ctx, rec, f"s{i}"))
        i += 1
        for r2 in with_completions(rec, ctx.rng, 60 if ctx.thorough else 6):
            cases.append(run_recipe(ctx, r2, f"s{i}"))
            i += 1
    n_random = 30000 if ctx.thorough else 500
    max_ops = 40 if ctx.thorough else 25
    if ctx.thorough:
        import multiprocessing as mp
        nproc = min(12, mp.cpu_count())
        step = 500
        jobs = [(ctx.prop, ctx.tier, ctx.seed, lo, min(lo + step, n_random), max_ops, True) for lo in range(0, n_random, step)]
        with mp.get_context("fork").Pool(nproc) as pool:
            for chunk in pool.imap(_gen_chunk, jobs):
                cases.extend(chunk)
    else:
        cases.extend(_gen_chunk((ctx.prop, ctx.tier, ctx.seed, 0, n_random, max_ops, False)))
    return cases


def signature(case: Case, verdict) -> str:
    ops = " ".join(sorted({ln.split()[0] for ln in case.lines if not ln.startswith(("o ", "cfg", "var", "start"))}))
    return f"C15 ops[{ops}] {verdict.notes[:300]}"
