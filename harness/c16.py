"""C16 correspondence harness: real `CaseInsensitiveDict` vs the Lean `CIDict` model and the
abstract-map judge (`Upnp.C16.obsOk`).  See DESIGN.md §5 C16."""
from __future__ import annotations

import itertools
from typing import Any, Dict, List

from vk.core import Case, Ctx

GEN_MODULES: List[str] = []
MANIFEST = {
    "design_ref": "§5 C16",
    "text": ("Lean theorem c16_history: for every operation sequence over any number of header maps (all constructor "
             "forms, combine, combine_lower_dict, replace, assignment, deletion) the two-dict representation keeps its "
             "invariant and is in simulation with the abstract map keyed by folded name in which the last write wins and "
             "keeps its spelling; lookup/len/iteration/KeyError/== corollaries (lookup_spec, len_spec, iter_spec, raises_spec, "
             "eq_spec, eq_dict_spec, eq_history, last_write_wins, pop_spec, setdefault_spec, update_spec), c16_object_history / "
             "copy_independent / source_independent / replace_shares on the object-level machine (variables are handles to "
             "cells; replace(other) shares) and c16_judge_accepts_model: the run-time judge obsOk accepts the model's "
             "observation of every register after every operation sequence. The model is tied to utils.CaseInsensitiveDict by a per-operation differential check of the "
             "full observation vector of every live map, and the Lean judge obsOk is evaluated on the implementation's "
             "observations."),
    "note": ("Trusted: Lean kernel + propext/Classical.choice/Quot.sound; CPython dict semantics modelled as an association "
             "list; ASCII keys only; object identity (replace(other) shares both dicts by design) is handled by the driver "
             "(variables are handles to model objects), the theorems are about operation sequences on objects; that copies and "
             "combinations are fresh objects is observed by the correspondence runs; correspondence is sampled (exhaustive to a small depth over a reduced alphabet)."),
    "technique": "Lean 4 proof (simulation by induction over operation sequences) + model/implementation correspondence",
}
RULE = ("operation sequences over 4 registers of header maps: every constructor form (dict, kwargs, dict+kwargs, "
        "lowerstr keys, another header map, CIMultiDict with repeated names) then set/del/del_lower/copy/combine/"
        "combine_lower_dict/replace/==/!= and the inherited MutableMapping API (pop, popitem, setdefault, update, clear; "
        "get/keys/items/values are observed after every operation); exhaustive to a fixed depth over a reduced alphabet, random beyond; after every "
        "operation the full observation vector of every live register is compared. non-trivial = the sequence touches "
        "two spellings of one folded name; distinct = distinct canonical driver text")
EXHAUSTIVE = {"quick": False, "thorough": False}
ASSUMPTIONS = [
    "keys are ASCII (Python str.lower on non-ASCII is outside the model)",
    "lowerstr keys are already lower-case (the type(k) is lowerstr shortcut is then unobservable)",
    "replace(other_header_map) shares the other map's dicts by design; the driver models that sharing by object identity (variables are handles to objects)",
]
TRUSTED = ["C16: CPython dict semantics ({**a, **b}, insertion order, del) are modelled by PyDict (assoc list)"]

KEYS = ["Key", "KEY", "key", "kEy", "other", "Other", "_x", "ab"]
PROBES = ["Key", "KEY", "key", "kEy", "other", "OTHER", "_x", "ab", "zz"]


def fv(v) -> str:
    """values are ints or None (token N)"""
    return "N" if v is None else str(v)


def fmt_pairs(pairs) -> str:
    return ",".join(f"{k}={fv(v)}" for k, v in pairs) if pairs else "~"


def o_pairs(items) -> str:
    items = list(items)
    return ",".join(f"{k}:{fv(v)}" for k, v in items) if items else "~"


_ABSENT = object()


def observe(d, probes) -> str:
    """Every observation is taken on its own: an exception escaping one of them is itself an
    observation (`EXC:<class>`), which the model never produces and the judge rejects."""

    def safe(fn):
        try:
            return fn()
        except Exception as e:  # noqa: BLE001
            return f"EXC:{type(e).__name__}"

    lows = list(dict.fromkeys(p.lower() for p in probes))

    def gets():
        out = []
        for k in probes:
            try:
                out.append(f"{k}:{fv(d[k])}")
            except KeyError:
                out.append(f"{k}:!")
        return ",".join(out)

    def getl():
        out = []
        for lk in lows:
            v = d.get_lower(lk, _ABSENT)  # a default that cannot be a stored value: None is a legal value
            out.append(f"{lk}:{'!' if v is _ABSENT else fv(v)}")
        return ",".join(out)

    def mget():
        out = []
        for k in probes:
            v = d.get(k, _ABSENT)
            out.append(f"{k}:{'!' if v is _ABSENT else fv(v)}")
        return ",".join(out)

    def lst(fn):
        items = list(fn())
        return ",".join(items) if items else "~"

    fields = [
        ("len", lambda: str(len(d))),
        ("iter", lambda: lst(lambda: iter(d))),
        ("get", gets),
        ("getl", getl),
        ("in", lambda: ",".join(f"{k}:{'T' if k in d else 'F'}" for k in probes)),
        ("lower", lambda: o_pairs(d.as_lower_dict().items())),
        ("data", lambda: o_pairs(d.as_dict().items())),
        ("cmap", lambda: o_pairs(d.case_map().items())),
        # the inherited Mapping API (collections.abc mixins today; any override must still agree)
        ("mget", mget),
        ("keys", lambda: lst(d.keys)),
        ("items", lambda: o_pairs(d.items())),
        ("values", lambda: lst(lambda: (fv(v) for v in d.values()))),
        # membership in the views (KeysView / ItemsView go through the mapping, so any spelling must work)
        ("kin", lambda: ",".join(f"{k}:{'T' if k in d.keys() else 'F'}" for k in probes)),
        ("iin", lambda: ",".join(f"{k}:{'T' if (k, d.get(k, _ABSENT)) in d.items() else 'F'}" for k in probes)),
    ]
    return " ".join(f"{name}={safe(fn)}" for name, fn in fields)


def run_recipe(ctx: Ctx, recipe: Dict[str, Any], cid: str) -> Case:
    from multidict import CIMultiDict

    from async_upnp_client.utils import CaseInsensitiveDict, lowerstr

    probes = recipe.get("probes", PROBES)
    regs: Dict[int, Any] = {}
    srcs: Dict[int, List[Any]] = {}

    def keep(r, obj):
        srcs.setdefault(r, []).append((obj, list(obj.items())))
        return obj

    lines = [f"probe {','.join(probes)}"]
    tags = set()
    folded_seen: Dict[str, set] = {}
    nontrivial = False

    def touch(keys):
        nonlocal nontrivial
        for k in keys:
            s = folded_seen.setdefault(k.lower(), set())
            s.add(k)
            if len(s) > 1:
                nontrivial = True

    for op in recipe["ops"]:
        name = op[0]
        res = "ok"
        line = None
        try:
            if name == "new":
                _, r, form, arg = op
                if form == "ci":
                    if arg not in regs:
                        continue
                    line = f"new {r} ci {arg}"
                    regs[r] = CaseInsensitiveDict(regs[arg])
                elif form == "cikw":
                    # CaseInsensitiveDict(other_map, **kwargs): by the constructor's contract the same as
                    # the plain mapping {**other_map, **kwargs} (the entries of other_map, as just observed
                    # and judged, then the keyword arguments)
                    a, kw = arg
                    if a not in regs:
                        continue
                    kwd = dict(tuple(p) for p in kw)
                    touch(kwd)
                    eff = {**dict(regs[a].items()), **kwd}
                    line = f"new {r} dict {fmt_pairs(eff.items())}"
                    regs[r] = CaseInsensitiveDict(regs[a], **kwd)
                else:
                    pairs = [tuple(p) for p in arg]
                    touch(k for k, _ in pairs)
                    h = len(pairs) // 2
                    md = CIMultiDict(pairs)
                    eff = {
                        "dict": lambda: dict(pairs),
                        "kwargs": lambda: dict(pairs),
                        "mixed": lambda: {**dict(pairs[:h]), **dict(pairs[h:])},
                        "lowerstr": lambda: {k.lower(): v for k, v in pairs},
                        "multidict": lambda: {str(k): v for k, v in {**md}.items()},
                    }[form]()
                    line = f"new {r} dict {fmt_pairs(eff.items())}"
                    if form == "dict":
                        regs[r] = CaseInsensitiveDict(keep(r, dict(pairs)))
                    elif form == "kwargs":
                        regs[r] = CaseInsensitiveDict(**dict(pairs))
                    elif form == "mixed":
                        regs[r] = CaseInsensitiveDict(keep(r, dict(pairs[:h])), **dict(pairs[h:]))
                    elif form == "lowerstr":
                        regs[r] = CaseInsensitiveDict(keep(r, {lowerstr(k.lower()): v for k, v in pairs}))
                    else:
                        regs[r] = CaseInsensitiveDict(keep(r, md))
                tags.add(f"ctor:{form}")
            elif name == "set":
                _, r, k, v = op
                if r not in regs:
                    continue
                touch([k])
                line = f"set {r} {k} {fv(v)}"
                regs[r][k] = v
            elif name == "del":
                _, r, k = op
                if r not in regs:
                    continue
                line = f"del {r} {k}"
                del regs[r][k]
            elif name == "dell":
                _, r, lk = op
                if r not in regs:
                    continue
                line = f"dell {r} {lk}"
                regs[r].del_lower(lk)
            elif name == "copy":
                _, r, a = op
                if a not in regs:
                    continue
                line = f"copy {r} {a}"
                regs[r] = regs[a].copy()
            elif name == "combine":
                _, r, a, b = op
                if a not in regs or b not in regs:
                    continue
                line = f"combine {r} {a} {b}"
                regs[r] = regs[a].combine(regs[b])
            elif name == "combl":
                _, r, a, arg = op
                if a not in regs:
                    continue
                pairs = [(k.lower(), v) for k, v in arg]
                touch(k for k, _ in pairs)
                line = f"combl {r} {a} {fmt_pairs(dict(pairs).items())}"
                regs[r] = regs[a].combine_lower_dict(keep(r, {lowerstr(k): v for k, v in pairs}))
            elif name == "repl":
                _, r, arg = op
                if r not in regs:
                    continue
                pairs = [tuple(p) for p in arg]
                touch(k for k, _ in pairs)
                line = f"repl {r} {fmt_pairs(dict(pairs).items())}"
                regs[r].replace(keep(r, dict(pairs)))
            elif name == "replci":
                _, r, a = op
                if r not in regs or a not in regs:
                    continue
                line = f"replci {r} {a}"
                regs[r].replace(regs[a])  # shares a's dicts by design: the driver models the sharing
            elif name == "pop":
                _, r, k = op
                if r not in regs:
                    continue
                line = f"pop {r} {k}"
                res = fv(regs[r].pop(k))
            elif name == "popitem":
                _, r = op
                if r not in regs:
                    continue
                line = f"popitem {r}"
                pk, pv = regs[r].popitem()
                res = f"{pk}:{fv(pv)}"
            elif name == "setdefault":
                _, r, k, v = op
                if r not in regs:
                    continue
                touch([k])
                line = f"setdefault {r} {k} {fv(v)}"
                res = fv(regs[r].setdefault(k, v))
            elif name == "update":
                _, r, arg = op
                if r not in regs:
                    continue
                pairs = [tuple(p) for p in arg]
                touch(k for k, _ in pairs)
                line = f"update {r} {fmt_pairs(dict(pairs).items())}"
                regs[r].update(keep(r, dict(pairs)))
            elif name == "clear":
                _, r = op
                if r not in regs:
                    continue
                line = f"clear {r}"
                regs[r].clear()
            elif name == "srcchk":
                # the plain mappings handed to constructors / replace / update / combine_lower_dict so far
                # are the caller's: no operation on a header map may have written to them
                line = "src"
                res = "same" if all(list(o.items()) == snap for lst_ in srcs.values() for o, snap in lst_) else "changed"
            elif name == "srcset":
                # the caller goes on using its mapping: no header map built from it may notice
                _, r, k, v = op
                if not srcs.get(r):
                    continue
                line = "nop"
                o, _snap = srcs[r][-1]
                o[lowerstr(k.lower()) if any(type(x) is lowerstr for x in o) else k] = v
                srcs[r][-1] = (o, list(o.items()))
            elif name == "srcclear":
                _, r = op
                if not srcs.get(r):
                    continue
                line = "nop"
                o, _snap = srcs[r][-1]
                o.clear()
                srcs[r][-1] = (o, [])
            elif name == "ne":
                _, a, b = op
                if a not in regs or b not in regs:
                    continue
                line = f"ne {a} {b}"
                res = "T" if regs[a] != regs[b] else "F"
            elif name == "eq":
                _, a, b = op
                if a not in regs or b not in regs:
                    continue
                line = f"eq {a} {b}"
                res = "T" if regs[a] == regs[b] else "F"
            elif name == "eqd":
                _, a, arg = op
                if a not in regs:
                    continue
                pairs = [tuple(p) for p in arg]
                line = f"eqd {a} {fmt_pairs(dict(pairs).items())}"
                res = "T" if regs[a] == dict(pairs) else "F"
            else:
                raise ValueError(name)
        except KeyError:
            res = "KeyError"
        except Exception as e:  # noqa: BLE001 - anything else is reported as an observation
            res = f"EXC:{type(e).__name__}"
        if line is None:  # the operation failed before it could be described: its result token is judged against "ok"
            line = "nop"
        tags.add(f"op:{name}")
        if res != "ok":
            tags.add(f"res:{res}")
        lines.append(line)
        lines.append(f"res {res}")
        for r in sorted(regs):
            lines.append(f"obs {r} {observe(regs[r], probes)}")
    return Case(cid, lines, recipe, nontrivial, sorted(tags))


# ---------------------------------------------------------------------------------------------
# generators

CTOR_SEEDS = [
    ["new", 0, "dict", []],
    ["new", 0, "dict", [["Key", 1], ["other", 2]]],
    ["new", 0, "dict", [["Key", 1], ["KEY", 2], ["other", 3]]],
    ["new", 0, "kwargs", [["key", 1], ["KEY", 4]]],
    ["new", 0, "mixed", [["Key", 1], ["b", 2], ["KEY", 3], ["B", 4]]],
    ["new", 0, "lowerstr", [["key", 1], ["other", 2]]],
    ["new", 0, "multidict", [["Key", 1], ["KEY", 2], ["Key", 3]]],
]

EXH_OPS = [
    ["set", 0, "Key", 1], ["set", 0, "KEY", 2], ["set", 0, "other", None], ["set", 0, "key", 1],
    ["del", 0, "kEy"], ["del", 0, "OTHER"], ["dell", 0, "key"],
    ["copy", 1, 0], ["set", 1, "kEy", 9], ["del", 1, "key"],
    ["combine", 2, 0, 1], ["combine", 0, 1, 0], ["combl", 2, 0, [["key", 5], ["zz", 6]]],
    ["repl", 0, [["KEY", 7], ["Key", 8], ["x", 1]]], ["replci", 0, 1], ["new", 3, "ci", 0],
    ["eq", 0, 1], ["eqd", 0, [["KEY", 1], ["OTHER", 3]]],
    ["pop", 0, "KEY"], ["popitem", 0], ["setdefault", 0, "kEY", 7], ["update", 0, [["OTHER", 8], ["Key", 9]]], ["clear", 1], ["ne", 0, 1],
    ["srcset", 0, "kEy", 6], ["srcchk"], ["new", 2, "cikw", [0, [["KEY", 5], ["zz", 6]]]],
]


def rand_val(rng):
    return None if rng.random() < 0.12 else rng.randrange(0, 4)


def rand_pairs(rng, n):
    return [[rng.choice(KEYS), rand_val(rng)] for _ in range(n)]


def rand_op(rng):
    r = rng.randrange(0, 4)
    a = rng.randrange(0, 4)
    b = rng.randrange(0, 4)
    k = rng.choice(KEYS + ["zz"])
    c = rng.randrange(0, 25)
    if c == 21:
        return ["srcchk"]
    if c == 22:
        return rng.choice([["srcset", r, k, rand_val(rng)], ["srcset", r, k, rand_val(rng)], ["srcclear", r]])
    if c in (23, 24):
        return ["new", r, "cikw", [a, rand_pairs(rng, rng.randrange(0, 4))]]
    if c < 4:
        return ["set", r, k, rand_val(rng)]
    if c < 6:
        return ["del", r, k]
    if c == 6:
        return ["dell", r, rng.choice([k.lower(), k])]
    if c == 7:
        return ["copy", r, a]
    if c == 8:
        return ["combine", r, a, b]
    if c == 9:
        return ["combl", r, a, rand_pairs(rng, rng.randrange(0, 4))]
    if c == 10:
        return ["repl", r, rand_pairs(rng, rng.randrange(0, 5))]
    if c == 11:
        return ["replci", r, a]
    if c == 12:
        return ["new", r, rng.choice(["dict", "kwargs", "mixed", "lowerstr", "multidict"]), rand_pairs(rng, rng.randrange(0, 6))]
    if c == 13:
        return ["new", r, "ci", a]
    if c == 14:
        return rng.choice([["eq", a, b], ["ne", a, b]])
    if c == 15:
        pairs = rand_pairs(rng, rng.randrange(0, 4))
        if pairs and rng.random() < 0.5:  # a second spelling of a name already in the mapping, same or other value
            k, v = rng.choice(pairs)
            pairs.append([rng.choice([k.upper(), k.lower(), k.title()]), v if rng.random() < 0.6 else rand_val(rng)])
        return ["eqd", a, pairs]
    if c == 16:
        return ["pop", r, k]
    if c == 17:
        return ["popitem", r]
    if c == 18:
        return ["setdefault", r, k, rand_val(rng)]
    if c == 19:
        return ["update", r, rand_pairs(rng, rng.randrange(0, 4))]
    return ["clear", r]


def generate(ctx: Ctx) -> List[Case]:
    depth = 3 if ctx.thorough else 2
    n_random = 6000 if ctx.thorough else 1200
    cases: List[Case] = []
    i = 0
    # corpus first: design-time probes (F16a) and minimised past failures
    for rec in CORPUS:
        cases.append(run_recipe(ctx, rec, f"corpus{i}"))
        i += 1
    for ctor in CTOR_SEEDS:
        for seq in itertools.product(EXH_OPS, repeat=depth):
            cases.append(run_recipe(ctx, {"ops": [ctor, *seq]}, f"e{i}"))
            i += 1
    EXHAUSTIVE[ctx.tier] = False  # exhaustive only over the reduced alphabet; random part is a sample
    # equality between two independently built maps of similar size whose values are often None
    # (absent name vs stored None; same names in other spellings; same size, different names)
    for _ in range(1500 if ctx.thorough else 300):
        rng = ctx.rng
        val = lambda: None if rng.random() < 0.45 else rng.randrange(0, 3)  # noqa: E731
        n = rng.randrange(0, 4)
        pa = [[rng.choice(KEYS + ["zz"]), val()] for _ in range(n)]
        pb = [[rng.choice(KEYS + ["zz"]), val()] for _ in range(max(0, n + rng.choice([0, 0, 0, 1, -1])))]
        ka, kb = (rng.choice(["dict", "kwargs", "mixed", "lowerstr", "multidict"]) for _ in range(2))
        ops = [["new", 0, ka, pa], ["new", 1, kb, pb], ["eq", 0, 1], ["ne", 0, 1], ["eq", 1, 0], ["eqd", 0, pb], ["eqd", 1, pa]]
        cases.append(run_recipe(ctx, {"ops": ops}, f"q{i}"))
        i += 1
    for _ in range(n_random):
        n = ctx.rng.randrange(1, 40 if ctx.thorough else 25)
        ops = [["new", 0, ctx.rng.choice(["dict", "kwargs", "mixed", "lowerstr", "multidict"]), rand_pairs(ctx.rng, ctx.rng.randrange(0, 6))]]
        for _ in range(n):
            op = rand_op(ctx.rng)
            ops.append(op)
            if op[0] == "replci":  # write through both variables right after the rebinding
                ops.append(["set", op[2], ctx.rng.choice(KEYS), rand_val(ctx.rng)])
                ops.append(["set", op[1], ctx.rng.choice(KEYS), rand_val(ctx.rng)])
        cases.append(run_recipe(ctx, {"ops": ops}, f"r{i}"))
        i += 1
    return cases


CORPUS = [
    # == / != against a plain mapping whose keys differ only by case (equal and unequal values)
    {"ops": [["new", 0, "dict", [["Key", 1]]], ["eqd", 0, [["Key", 1], ["KEY", 1]]], ["eqd", 0, [["key", 1], ["KEY", 2]]], ["eqd", 0, [["KEY", 2], ["key", 1]]]]},
    {"ops": [["new", 0, "dict", [["Key", 1], ["b", 2]]], ["eqd", 0, [["KEY", 1], ["key", 1], ["B", 2]]], ["eqd", 0, [["KEY", 1], ["B", 2], ["b", 2]]]]},
    # replace(other) followed by every kind of mutation through either variable, observed through both
    {"ops": [["new", 0, "dict", [["a", 1]]], ["new", 1, "dict", [["b", 2]]], ["replci", 0, 1], ["set", 1, "New", 3], ["set", 0, "B", 4], ["del", 1, "NEW"], ["pop", 0, "b"], ["setdefault", 1, "c", 5], ["update", 0, [["C", 6]]], ["clear", 1]]},
    {"ops": [["new", 0, "dict", [["a", 1]]], ["copy", 1, 0], ["replci", 0, 1], ["set", 1, "kEy", 9], ["del", 0, "key"], ["set", 0, "A", 2]]},
    {"ops": [["new", 0, "dict", [["a", 1]]], ["new", 1, "ci", 0], ["replci", 1, 0], ["set", 0, "x", 1], ["set", 1, "X", 2], ["dell", 0, "x"]]},
    {"ops": [["new", 0, "dict", [["Key", None]]]]},                                  # a stored None is present (in / len / iteration)
    {"ops": [["new", 0, "dict", [["Key", None]]], ["new", 1, "dict", [["other", 1]]], ["eq", 0, 1], ["eq", 1, 0], ["ne", 0, 1], ["eqd", 0, [["other", 1]]], ["eqd", 1, [["Key", None]]]]},  # a stored None is not an absent name (seeded C16-m14)
    {"ops": [["new", 0, "dict", [["a", 1]]], ["new", 1, "dict", [["b", 2]]], ["replci", 0, 1], ["set", 1, "New", 3], ["del", 0, "b"], ["set", 0, "B", 4]]},  # sharing after replace(other)
    {"ops": [["new", 0, "dict", [["a", 1]]], ["new", 1, "dict", [["b", 2]]], ["replci", 0, 1], ["repl", 1, [["c", 5]]], ["set", 0, "x", 1]]},  # sharing ends when the other is rebound
    # the caller's mapping stays the caller's: writes through the map do not reach it, later writes to it do not reach the map
    {"ops": [["new", 0, "dict", [["Key", 1]]], ["set", 0, "KEY", 2], ["srcchk"], ["srcset", 0, "other", 3], ["srcclear", 0], ["repl", 0, [["a", 1]]], ["set", 0, "A", 2], ["srcchk"], ["srcset", 0, "b", 1], ["update", 0, [["c", 1]]], ["del", 0, "C"], ["srcchk"]]},
    # another header map plus keyword arguments that respell one of its names
    {"ops": [["new", 0, "dict", [["Key", 1], ["other", 2]]], ["new", 1, "cikw", [0, [["KEY", 5]]]], ["new", 2, "cikw", [0, []]], ["set", 1, "OTHER", 3]]},
    {"ops": [["new", 0, "dict", [["Key", 1], ["KEY", 2]]]]},                       # F16a
    {"ops": [["new", 0, "kwargs", [["Key", 1], ["KEY", 2]]]]},                     # F16a (kwargs)
    {"ops": [["new", 0, "dict", [["Key", 1]]], ["new", 1, "dict", [["KEY", 2]]], ["combine", 2, 0, 1]]},  # F16a (combine)
    {"ops": [["new", 0, "dict", [["Key", 1]]], ["combl", 1, 0, [["key", 2]]]]},     # F16a (combine_lower_dict)
    {"ops": [["new", 0, "dict", []], ["repl", 0, [["A", 1], ["a", 2]]]]},           # F16a (replace)
]


def signature(case: Case, verdict) -> str:
    ops = " ".join(sorted({ln.split()[0] for ln in case.lines if not ln.startswith(("obs", "res", "probe"))}))
    return f"C16 ops[{ops}] {verdict.notes[:300]}"
