"""C17 correspondence harness: the real `AiohttpRequester` / `AiohttpSessionRequester` over a scripted
fake `ClientSession`, against the Lean ladder model (tables regenerated from the source) and the
judge `Upnp.C17.resultOk` / `hostOk`.  See DESIGN.md §5 C17 and design/C17.md."""
from __future__ import annotations

import asyncio
import itertools
import logging
from typing import Any, Dict, List, Optional

from harness.common import tok_str
from vk.core import Case, Ctx

GEN_MODULES: List[str] = ["C17Ladders"]
MANIFEST = {
    "design_ref": "§5 C17",
    "text": ("Lean theorems c17_result_ok / never_raw / class_mapping / attempts_bounded / "
             "retry_only_after_connection_failure: for every outcome script of any length over the exception classes a "
             "session can raise, both requesters return the response of the first successful exchange or raise a library "
             "communication error (connection error for timeouts and connection failures, status kept for response "
             "errors), the session requester makes at most three attempts and repeats only after connection-level "
             "failures; host_zone_stripped: for every zoned URL of the grammar and all header maps exactly one Host header "
             "without zone is sent; fixed_host_text: the text-level transcription of _fixed_host_header equals the grammar-level "
             "function assuming only urlparse's hostname/port; logging_transparent: result and attempts do not depend on the traffic "
             "logger being at DEBUG, whatever the response bodies (log blocks extracted and pinned by the translator); it also covers "
             "urlparse's hostname/port (assumption compared with the real urlparse on every case). The ladders, the retry count and the issubclass matrix are regenerated from aiohttp.py / "
             "exceptions.py on every run (tools/gen_c17.py) and the finite facts are re-decided; the interpreter of the "
             "tables is validated against the real requesters over a scripted fake ClientSession."),
    "note": ("Trusted: Lean kernel + standard axioms; the translator (ast shapes it accepts; refuses others); the fake "
             "ClientSession (raises real aiohttp exception instances at call/connect/read/decode time); the class set "
             "'a session can raise' = aiohttp.client_exceptions.__all__ + asyncio.TimeoutError + UnicodeDecodeError "
             "(CancelledError passes through by design; RuntimeError('Session is closed') is a usage error, excluded); "
             "URL grammar scheme://host[:port]/path with host in {IPv4, name, [IPv6], [IPv6%zone]}, ASCII."),
    "technique": "Lean 4 proof over generated tables (decide + induction over scripts) + translator validation by correspondence",
}
RULE = ("one case = one request: requester kind x URL form x default/caller header maps x outcome script (padded by "
        "repeating its last outcome); every sequence up to the tier's depth (quick 2, thorough 4 = the property's "
        "quantifier) over {success} + the 20 transport classes, each "
        "raised at a rotating stage (request call / connect / read / decode), plus a random sample of longer scripts; "
        "compared: result class, isinstance facts, status, number of session.request calls, URL and headers of every call. "
        "non-trivial = a failure is mapped, retried or a zoned Host is rewritten; distinct = distinct canonical driver text")
EXHAUSTIVE = {"quick": False, "thorough": False}
ASSUMPTIONS = [
    "transport outcomes are instances of aiohttp.client_exceptions.__all__, asyncio.TimeoutError or UnicodeDecodeError",
    "asyncio.CancelledError is passed through by design and is not an outcome",
    "URLs are ASCII and inside the grammar scheme://host[:port]/path (port 1..65535 without leading zeros; zone without '%')",
]
TRUSTED = ["C17: the scripted fake ClientSession stands for aiohttp's client (context-manager protocol, status/headers/read()/text())"]

STAGES = ["call", "enter", "read", "text"]
PAD = 8


# ---------------------------------------------------------------------------------------------
# fakes

def make_exc(name: str, status: Optional[int]):
    """a real instance of the named transport exception class"""
    import ssl

    from aiohttp import client_exceptions as ce
    from aiohttp.client_reqrep import ConnectionKey

    key = ConnectionKey("h", 80, False, None, None, None, None)
    if name == "TimeoutError":
        return asyncio.TimeoutError()
    if name == "UnicodeDecodeError":
        return UnicodeDecodeError("utf-8", b"\xff", 0, 1, "invalid start byte")
    cls = getattr(ce, name)
    if name in ("ClientResponseError", "ClientHttpProxyError", "WSServerHandshakeError", "ContentTypeError"):
        return cls(None, (), status=status, message="msg", headers=None)
    if name in ("ClientConnectorError", "ClientProxyConnectionError", "ClientSSLError"):
        return cls(key, OSError(111, "refused"))
    if name == "ClientConnectorSSLError":
        return cls(key, ssl.SSLError(1, "ssl"))
    if name == "ClientConnectorCertificateError":
        return cls(key, ssl.CertificateError("cert"))
    if name == "ClientOSError":
        return cls(104, "reset")
    if name == "ServerFingerprintMismatch":
        return cls(b"a", b"b", "h", 80)
    if name == "InvalidURL":
        return cls("http://x")
    if name == "ServerDisconnectedError":
        return cls()
    return cls("x")


class FakeResponse:
    def __init__(self, out: Dict[str, Any]) -> None:
        from harness.common import make_headers

        self._out = out
        self.status = out.get("status", 200)
        self.headers = make_headers(out.get("headers", {}))

    def _raw(self) -> bytes:
        if self._out.get("stage") == "text" and self._out.get("exc") == "UnicodeDecodeError":
            return b"\xe9t\xe9 <root/>"          # undeclared charset, not UTF-8: a genuinely undecodable body
        return raw_body(self._out)

    def _encoding(self) -> str:
        """aiohttp's ClientResponse.get_encoding: declared charset if known, else utf-8"""
        import codecs
        import re

        m = re.search(r"charset=\"?([\w-]+)", self.headers.get("Content-Type", ""), re.I)
        if m:
            try:
                return codecs.lookup(m.group(1)).name
            except LookupError:
                pass
        return "utf-8"

    async def read(self) -> bytes:
        if self._out.get("stage") == "read":
            raise make_exc(self._out["exc"], self._out.get("st"))
        return self._raw()

    async def text(self) -> str:
        if self._out.get("stage") == "text" and self._out["exc"] != "UnicodeDecodeError":
            raise make_exc(self._out["exc"], self._out.get("st"))
        return self._raw().decode(self._encoding())


class FakeCM:
    def __init__(self, out: Dict[str, Any]) -> None:
        self._out = out

    async def __aenter__(self) -> FakeResponse:
        if self._out.get("stage") == "enter":
            raise make_exc(self._out["exc"], self._out.get("st"))
        return FakeResponse(self._out)

    async def __aexit__(self, *a: Any) -> bool:
        return False


class FakeSession:
    """scripted stand-in for aiohttp.ClientSession; also usable as `async with ClientSession() as s`"""

    def __init__(self, script: List[Dict[str, Any]]) -> None:
        self.script = script
        self.calls: List[Any] = []

    def request(self, method: str, url: str, **kw: Any) -> FakeCM:
        i = len(self.calls)
        self.calls.append((method, url, dict(kw.get("headers") or {}), kw.get("data")))
        out = self.script[min(i, len(self.script) - 1)]
        if out.get("stage") == "call":
            raise make_exc(out["exc"], out.get("st"))
        return FakeCM(out)

    async def __aenter__(self) -> "FakeSession":
        return self

    async def __aexit__(self, *a: Any) -> bool:
        return False


def raw_body(out: Dict[str, Any]) -> bytes:
    """wire bytes of a successful outcome: its text in the charset declared by its Content-Type"""
    import re

    m = re.search(r"charset=\"?([\w-]+)", out.get("headers", {}).get("Content-Type", ""), re.I)
    return out.get("body", "").encode(m.group(1) if m else "utf-8")


def is_utf8(b: bytes) -> bool:
    try:
        b.decode("utf-8")
        return True
    except UnicodeDecodeError:
        return False


class _FormatAll(logging.Handler):
    """forces the lazy %-formatting of every record (what any real handler does) and discards it"""

    def emit(self, record: logging.LogRecord) -> None:
        try:
            record.getMessage()
        except Exception:  # noqa: BLE001 - formatting errors are swallowed by logging itself
            pass


_HANDLER = _FormatAll()
LOGGERS = {"traffic": "async_upnp_client.traffic.upnp", "module": "async_upnp_client.aiohttp"}


def set_logging(mode: str) -> None:
    """mode in {"off", "traffic", "module", "both"}: which of the two loggers is at DEBUG"""
    for key, name in LOGGERS.items():
        lg = logging.getLogger(name)
        lg.propagate = False
        if _HANDLER not in lg.handlers:
            lg.addHandler(_HANDLER)
        lg.setLevel(logging.DEBUG if mode in (key, "both") else logging.WARNING)


# ---------------------------------------------------------------------------------------------
# one case

def render_url(u: Dict[str, Any]) -> str:
    host = {"plain": u["a"], "ipv6": f"[{u['a']}]", "zoned": f"[{u['a']}{u.get('d', '')}{u.get('z', '')}]"}[u["kind"]]
    return f"{u['scheme']}://{host}" + (f":{u['port']}" if u.get("port") else "") + u["path"]


def fmt_headers(h: Optional[Dict[str, str]]) -> str:
    if h is None:
        return "none"
    return ",".join(f"{tok_str(k)}={tok_str(v)}" for k, v in h.items()) if h else "~"


_LOOP: Optional[asyncio.AbstractEventLoop] = None


def _loop() -> asyncio.AbstractEventLoop:
    global _LOOP
    if _LOOP is None or _LOOP.is_closed():
        _LOOP = asyncio.new_event_loop()
    return _LOOP


def run_recipe(ctx: Ctx, recipe: Dict[str, Any], cid: str) -> Case:
    import async_upnp_client.aiohttp as A
    from async_upnp_client.exceptions import UpnpCommunicationError, UpnpConnectionError

    kind = recipe["kind"]
    u = recipe["url"]
    own = recipe.get("own")
    caller = recipe.get("caller")
    ops = list(recipe["ops"])
    script = (ops + [ops[-1]] * PAD)[:PAD]
    url = render_url(u)
    method = recipe.get("method", "GET")
    reqbody = recipe.get("body")
    lines = [f"req {kind.split('+')[0]} {method} {'none' if reqbody is None else tok_str(reqbody)}",
             f"url {u['kind']} {u['scheme']} {tok_str(u['a'])} {tok_str(u.get('d', ''))} {tok_str(u.get('z', ''))} "
             f"{u.get('port') or '-'} {tok_str(u['path'])}",
             f"own {fmt_headers(own or {})}", f"caller {fmt_headers(caller)}"]
    logmode = recipe.get("log", "off")
    lines.append(f"log {'T' if logmode in ('traffic', 'both') else 'F'}")
    tags = {f"kind:{kind}", f"url:{u['kind']}{'+port' if u.get('port') else ''}",
            "caller:" + ("none" if caller is None else "host" if any(k.lower() == "host" for k in caller) else "other"),
            f"len:{len(ops)}", f"log:{logmode}"}
    from urllib.parse import urlparse

    pu = urlparse(url)
    lines.append(f"parse {'none' if pu.hostname is None else tok_str(pu.hostname)} {pu.port if pu.port else '-'}")
    for out in script:
        if "exc" in out:
            lines.append(f"out exc {out['exc']} {out['st'] if out.get('st') is not None else '-'}")
        else:
            lines.append(f"out ok {out.get('status', 200)} {fmt_headers(dict(sorted(out.get('headers', {}).items())))} "
                         f"{tok_str(out.get('body', ''))} {'T' if is_utf8(raw_body(out)) else 'F'}")
            cs = out.get("headers", {}).get("Content-Type", "")
            tags.add("charset:" + (cs.split("charset=")[1] if "charset=" in cs else "undeclared"))
    for out in ops:
        tags.add(f"out:{out.get('exc', 'ok')}")
        if "exc" in out:
            tags.add(f"stage:{out['stage']}")
    session = FakeSession(script)
    orig = A.ClientSession
    set_logging(logmode)
    try:
        if kind == "plain":
            A.ClientSession = lambda *a, **k: session  # type: ignore[assignment,misc]
            req: Any = A.AiohttpRequester(http_headers=own) if own is not None else A.AiohttpRequester()
        else:
            kw = {"http_headers": own} if own is not None else {}
            req = A.AiohttpSessionRequester(session, with_sleep=(kind == "session+sleep"), **kw)  # type: ignore[arg-type]
        try:
            res = _loop().run_until_complete(req.async_http_request(method, url, caller, reqbody))
            if isinstance(res, tuple) and len(res) == 3 and isinstance(res[0], int) and isinstance(res[2], str):
                hd = {str(k): str(v) for k, v in sorted(dict(res[1]).items())}
                rl = f"res ret {res[0]} {fmt_headers(hd)} {tok_str(res[2])}"
                tags.add("res:ret")
            else:
                rl = f"res other {tok_str(repr(res)[:60])}"
                tags.add("res:other")
        except Exception as e:  # noqa: BLE001 - every exception class is an observation
            st = getattr(e, "status", None)
            rl = (f"res err {type(e).__name__} {'T' if isinstance(e, UpnpCommunicationError) else 'F'} "
                  f"{'T' if isinstance(e, UpnpConnectionError) else 'F'} {st if isinstance(st, int) else '-'}")
            tags.add(f"res:{type(e).__name__}")
    finally:
        A.ClientSession = orig  # type: ignore[misc]
        set_logging("off")
    for (cm, cu, ch, cd) in session.calls:
        lines.append(f"call {tok_str(cu)} {fmt_headers(ch)} {cm} {'none' if cd is None else tok_str(cd) if isinstance(cd, str) else '?' + type(cd).__name__}")
    tags.add(f"method:{method}")
    lines.append(rl)
    tags.add(f"attempts:{len(session.calls)}")
    nontrivial = any("exc" in o for o in ops[:1]) or u["kind"] == "zoned"
    return Case(cid, lines, recipe, nontrivial, sorted(tags))


# ---------------------------------------------------------------------------------------------
# generators

TRANSPORT = ["TimeoutError", "UnicodeDecodeError", "ClientError", "ClientConnectionError", "ClientOSError",
             "ClientConnectorError", "ClientProxyConnectionError", "ClientSSLError", "ClientConnectorSSLError",
             "ClientConnectorCertificateError", "ServerConnectionError", "ServerTimeoutError", "ServerDisconnectedError",
             "ServerFingerprintMismatch", "ClientResponseError", "ClientHttpProxyError", "WSServerHandshakeError",
             "ContentTypeError", "ClientPayloadError", "InvalidURL"]
STATUSED = {"ClientResponseError", "ClientHttpProxyError", "WSServerHandshakeError", "ContentTypeError"}

URLS = [
    {"kind": "plain", "scheme": "http", "a": "192.168.1.1", "port": "8000", "path": "/desc.xml"},
    {"kind": "plain", "scheme": "http", "a": "192.168.1.1", "path": "/root%20desc"},
    {"kind": "plain", "scheme": "http", "a": "router.local", "port": "49152", "path": "/ctl/x"},
    {"kind": "plain", "scheme": "https", "a": "Router.Local", "path": "/"},
    {"kind": "ipv6", "scheme": "http", "a": "fe80::1", "port": "8000", "path": "/root%desc"},
    {"kind": "ipv6", "scheme": "http", "a": "2001:DB8::2", "path": "/d"},
    {"kind": "zoned", "scheme": "http", "a": "fe80::1", "d": "%25", "z": "eth0", "port": "80", "path": "/ctl"},
    {"kind": "zoned", "scheme": "http", "a": "FE80::AB:1", "d": "%25", "z": "wlan0", "path": "/evt%20sub"},
    {"kind": "zoned", "scheme": "http", "a": "fe80::1", "d": "%", "z": "10", "port": "8000", "path": "/desc"},
    {"kind": "zoned", "scheme": "https", "a": "fe80::2", "d": "%", "z": "3", "path": "/desc"},
]


ZONE_CHARS = "abcdefghijklmnopqrstuvwxyzABCDEFGHIJKLMNOPQRSTUVWXYZ0123456789._~-"
ADDRS = ["fe80::1", "fe80::1", "FE80::AB:1", "fe80::21c:42ff:fe00:8", "fe80::", "FE80:0:0:0:202:B3FF:FE1E:8329", "::1", "fd00::7"]
ZONES = ["eth0", "eth0.100", "br-lan", "wlan0_1", "en0.2", "1", "10", "Ethernet_2", "tun~0", "a"]


def rand_url(rng) -> Dict[str, Any]:
    """a URL of the grammar; zones over [A-Za-z0-9._~-]+ (interface names such as eth0.100, br-lan), both
    delimiters, random addresses / ports / paths"""
    r = rng.random()
    u: Dict[str, Any] = {"scheme": rng.choice(["http", "http", "https"])}
    if r < 0.6:
        zone = rng.choice(ZONES) if rng.random() < 0.5 else "".join(rng.choice(ZONE_CHARS) for _ in range(rng.randrange(1, 9)))
        u.update(kind="zoned", a=rng.choice(ADDRS), d=rng.choice(["%25", "%25", "%"]), z=zone)
    elif r < 0.75:
        u.update(kind="ipv6", a=rng.choice(ADDRS))
    else:
        u.update(kind="plain", a=rng.choice(["192.168.1.1", "10.0.0.138", "router.local", "Router.Local", "nas-1.lan"]))
    if rng.random() < 0.6:
        u["port"] = str(rng.choice([80, 8000, 8080, 49152, 1900, 5000, 65535, rng.randrange(1, 65536)]))
    u["path"] = rng.choice(["/", "/desc.xml", "/ctl/x", "/root%20desc", "/evt%sub", "/a/b?q=1%25", "/upnp/control/WANIPConn1"])
    return u


def pick_url(rng) -> Dict[str, Any]:
    return URLS[rng.randrange(len(URLS))] if rng.random() < 0.4 else rand_url(rng)


def netloc(u: Dict[str, Any]) -> str:
    from urllib.parse import urlparse

    return urlparse(render_url(u)).netloc


def caller_variants(u: Dict[str, Any]) -> List[Optional[Dict[str, str]]]:
    n = netloc(u)
    return [None, {},
            {"Host": n, "SOAPAction": '"urn:x#Y"', "Content-Type": 'text/xml; charset="utf-8"'},  # client.py create_request
            {"NT": "upnp:event", "TIMEOUT": "Second-1800", "HOST": n, "CALLBACK": "<http://192.168.1.2:8090/notify>"},  # event_handler
            {"hOsT": n + "%25x", "X": "1"}]


OWN_VARIANTS: List[Optional[Dict[str, str]]] = [None, {"User-Agent": "ua/1"}, {"host": "own%zone", "Accept": "*/*"}]


def mk_out(rng, name: str, i: int, stage: Optional[str] = None) -> Dict[str, Any]:
    if name == "ok":
        ctype = rng.choice(["text/xml", "text/xml", 'text/xml; charset="utf-8"', "text/xml; charset=ISO-8859-1",
                            "text/xml; charset=utf-16", "text/xml; charset=windows-1252"])
        hdrs = {"Content-Type": ctype, "X-N": str(rng.randrange(100))}
        if rng.random() < 0.3:
            hdrs["X-Friendly-Name"] = rng.choice(["Größe", "客厅", "é"])
        core = f"<b n='{i}-{rng.randrange(1000)}'>é ü ß</b>"
        # white space, CR LF and a BOM at the edges: what is returned must be the decoded body, unaltered
        body = rng.choice(["", "", "", "\n", "\r\n  ", " ", "\ufeff", "\t"]) + core + rng.choice(["", "", "\n", "\r\n\r\n", "  ", "\n\n"])
        if rng.random() < 0.03:
            body = rng.choice(["", " ", "\r\n"])
        if "utf-8" not in ctype and ctype != "text/xml":
            body = body.replace("\ufeff", "")
        return {"status": [200, 200, 404, 500, 204][(i + rng.randrange(5)) % 5], "headers": hdrs, "body": body}
    st = stage or STAGES[rng.randrange(4)]
    if name == "UnicodeDecodeError" and stage is None and rng.random() < 0.7:
        st = "text"
    out: Dict[str, Any] = {"exc": name, "stage": st}
    if name in STATUSED:
        out["st"] = [404, 412, 500, 503, 301][rng.randrange(5)]
    return out


def _work(args):
    from vk.core import activate_repo

    activate_repo()
    ctx, chunk = args
    return [run_recipe(ctx, rec, cid) for cid, rec in chunk]


SOAP = '<?xml version="1.0"?><s:Envelope xmlns:s="http://schemas.xmlsoap.org/soap/envelope/"><s:Body><u:SetVolume>é</u:SetVolume></s:Body></s:Envelope>'
REQUESTS = [("GET", None), ("GET", None), ("POST", SOAP), ("POST", ""), ("SUBSCRIBE", None), ("UNSUBSCRIBE", None),
            ("NOTIFY", "<e:propertyset/>"), ("HEAD", None)]
LOGMODES = ["off", "traffic", "traffic", "module", "both"]


def generate(ctx: Ctx) -> List[Case]:
    rng = ctx.rng
    search = getattr(ctx, "search", False)
    cases: List[Case] = []
    i = 0

    def add(kind, u, own, caller, ops, prefix="g"):
        nonlocal i
        m, b = rng.choice(REQUESTS)
        cases.append(run_recipe(ctx, {"kind": kind, "url": u, "own": own, "caller": caller, "ops": ops,
                                      "log": rng.choice(LOGMODES), "method": m, "body": b}, f"{prefix}{i}"))
        i += 1

    # corpus: design-time probes
    for rec in CORPUS:
        cases.append(run_recipe(ctx, rec, f"corpus{i}"))
        i += 1
    # every URL form x header variants (host part), short scripts
    for u in URLS:
        for own in OWN_VARIANTS:
            for caller in caller_variants(u):
                for kind in ("plain", "session", "session+sleep"):
                    first = rng.choice(["ok", "ok", "ServerDisconnectedError", "ClientResponseError"])
                    add(kind, u, own, caller, [mk_out(rng, first, 0), mk_out(rng, "ok", 1)], "h")
    # generated zoned / plain URLs x header variants, both requesters (Host part)
    for _ in range(1500 if (ctx.thorough or search) else 250):
        u = rand_url(rng)
        kind = rng.choice(["plain", "session", "session+sleep"])
        first = rng.choice(["ok", "ok", "ServerDisconnectedError"])
        add(kind, u, rng.choice(OWN_VARIANTS), rng.choice(caller_variants(u)), [mk_out(rng, first, 0), mk_out(rng, "ok", 1)], "z")
    # logging x charset: every logger configuration x declared/undeclared charsets x requester kind
    for logmode in ["off", "traffic", "module", "both"]:
        for ctype in ["text/xml", 'text/xml; charset="utf-8"', "text/xml; charset=ISO-8859-1", "text/xml; charset=utf-16",
                      "text/xml; charset=windows-1252"]:
            for kind in ("plain", "session", "session+sleep"):
                ok = {"status": 200, "headers": {"Content-Type": ctype, "X-Friendly-Name": "Größe 客厅"}, "body": "<r>é ü ß</r>"}
                for ops in ([ok], [mk_out(rng, "ServerDisconnectedError", 0), ok], [mk_out(rng, "UnicodeDecodeError", 0, "text")]):
                    cases.append(run_recipe(ctx, {"kind": kind, "url": rng.choice(URLS), "own": None, "caller": None, "ops": ops,
                                                  "log": logmode}, f"l{i}"))
                    i += 1
    # plain requester: every class at every stage
    alpha = ["ok"] + TRANSPORT
    for name in alpha:
        for stage in (STAGES if name != "ok" else [None]):
            add("plain", rng.choice(URLS), rng.choice(OWN_VARIANTS), None, [mk_out(rng, name, 0, stage)], "p")
            add("session", rng.choice(URLS), None, None, [mk_out(rng, name, 0, stage)], "p")
    # session requester: all sequences up to the tier's depth
    depth = 3 if (ctx.thorough or search) else 2
    for n in range(1, depth + 1):
        for seq in itertools.product(alpha, repeat=n):
            u = pick_url(rng)
            caller = rng.choice(caller_variants(u))
            kind = "session+sleep" if rng.random() < 0.2 else "session"
            add(kind, u, rng.choice(OWN_VARIANTS), caller, [mk_out(rng, nm, j) for j, nm in enumerate(seq)], f"e{n}_")
    # thorough: ALL scripts of length 4 as well (the property's quantifier is 1..4), in worker processes
    if ctx.thorough and not search:
        import multiprocessing as mp

        jobs = []
        for seq in itertools.product(alpha, repeat=4):
            u = pick_url(rng)
            jobs.append((f"e4_{i}", {"kind": "session", "url": u, "own": None, "caller": rng.choice(caller_variants(u)),
                                     "ops": [mk_out(rng, nm, j) for j, nm in enumerate(seq)], "log": rng.choice(LOGMODES),
                                     "method": rng.choice(REQUESTS)[0], "body": rng.choice([None, SOAP])}))
            i += 1
        n = 12
        lite = Ctx(ctx.prop, ctx.tier, ctx.seed, ctx.work, ctx.deadline)
        with mp.get_context("fork").Pool(n) as pool:
            parts = pool.map(_work, [(lite, jobs[k::n]) for k in range(n)])
        by_id = {c.cid: c for part in parts for c in part}
        cases.extend(by_id[cid] for cid, _ in jobs)
        EXHAUSTIVE["thorough"] = False  # exhaustive over classes, the raising stage per outcome is drawn at random
    # sample of longer scripts (length 3..4 quick, 4..6 thorough), biased to connection-level prefixes
    conn = ["TimeoutError", "ClientConnectionError", "ClientOSError", "ServerDisconnectedError", "ServerTimeoutError",
            "ClientConnectorError", "ServerConnectionError"]
    n_random = 6000 if (ctx.thorough or search) else 1200
    for _ in range(n_random):
        n = rng.randrange(4, 7) if ctx.thorough else rng.randrange(3, 5)
        seq = [rng.choice(conn) if rng.random() < 0.6 else rng.choice(alpha) for _ in range(n)]
        u = pick_url(rng)
        kind = rng.choice(["session", "session", "session+sleep", "plain"])
        add(kind, u, rng.choice(OWN_VARIANTS), rng.choice(caller_variants(u)), [mk_out(rng, nm, j) for j, nm in enumerate(seq)], "r")
    return cases


_Z = {"kind": "zoned", "scheme": "http", "a": "fe80::1", "d": "%25", "z": "eth0", "port": "80", "path": "/ctl"}
CORPUS: List[Dict[str, Any]] = [
    # F17a: SOAP request (client.py supplies Host: netloc) to a zoned URL
    {"kind": "session", "url": _Z, "own": None, "caller": {"Host": "[fe80::1%25eth0]:80", "SOAPAction": '"a#b"'},
     "ops": [{"status": 200, "headers": {}, "body": "ok"}]},
    # F17a: GENA SUBSCRIBE (event_handler.py supplies HOST: netloc), plain requester
    {"kind": "plain", "url": _Z, "own": None, "caller": {"HOST": "[fe80::1%25eth0]:80", "NT": "upnp:event"},
     "ops": [{"status": 200, "headers": {}, "body": "ok"}]},
    # zone ids that are ordinary interface names (VLAN, bridge): eth0.100, br-lan, wlan0_1, en0.2 (audit C17-1)
    *[{"kind": k, "url": {"kind": "zoned", "scheme": "http", "a": "fe80::1", "d": d, "z": z, "port": prt, "path": "/ctl"},
       "own": None, "caller": {"Host": f"[fe80::1{d}{z}]" + (f":{prt}" if prt else "")},
       "ops": [{"status": 200, "headers": {}, "body": "ok"}]}
      for k, d, z, prt in [("session", "%25", "eth0.100", "80"), ("plain", "%25", "br-lan", None),
                           ("session", "%25", "wlan0_1", "8000"), ("plain", "%", "en0.2", "8000")]],
    # the decoded body is returned unaltered: leading/trailing white space, CR LF, BOM (audit C17-2)
    {"kind": "session", "url": URLS[0], "own": None, "caller": None,
     "ops": [{"status": 200, "headers": {"Content-Type": "text/xml"}, "body": "\n<root/>\r\n\n"}]},
    {"kind": "plain", "url": URLS[0], "own": None, "caller": None,
     "ops": [{"status": 200, "headers": {"Content-Type": 'text/xml; charset="utf-8"'}, "body": "\ufeff <root/> "}]},
    # three disconnects then success: the success is never reached
    {"kind": "session", "url": URLS[0], "own": None, "caller": None,
     "ops": [{"exc": "ServerDisconnectedError", "stage": "enter"}] * 3 + [{"status": 200, "headers": {}, "body": "late"}]},
    # timeout at read time, then a 404 response error
    {"kind": "session", "url": URLS[0], "own": None, "caller": None,
     "ops": [{"exc": "TimeoutError", "stage": "read"}, {"exc": "ClientResponseError", "stage": "enter", "st": 404}]},
    # undecodable body
    {"kind": "plain", "url": URLS[0], "own": None, "caller": None, "ops": [{"exc": "UnicodeDecodeError", "stage": "text"}]},
    # successful exchange, body in a declared non-UTF-8 charset, traffic logger at DEBUG (logging must be transparent)
    {"kind": "session", "url": URLS[0], "own": None, "caller": None, "log": "traffic",
     "ops": [{"status": 200, "headers": {"Content-Type": "text/xml; charset=ISO-8859-1", "X-Name": "Größe"}, "body": "<n>café</n>"}]},
    {"kind": "plain", "url": URLS[0], "own": None, "caller": None, "log": "both",
     "ops": [{"status": 200, "headers": {"Content-Type": "text/xml; charset=utf-16"}, "body": "<n>ü</n>"}]},
]


def signature(case: Case, verdict) -> str:
    kind = next((ln.split()[1] for ln in case.lines if ln.startswith("req ")), "?")
    return f"C17 {kind} {verdict.notes[:300]}"
