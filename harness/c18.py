"""C18 correspondence harness: the real `DescriptionCache` on a hand-stepped asyncio event loop (one ready
handle per `step`), a fake requester whose responses the harness releases, against the Lean cache model
(`Upnp.C18.St.apply`) and the monitor/judge `Upnp.C18.feed`.  See DESIGN.md §5 C18 and design/C18.md."""
from __future__ import annotations

import asyncio
import json
import logging
from typing import Any, Dict, List, Optional, Tuple

from harness.common import tok_str
from vk.core import Case, Ctx

GEN_MODULES: List[str] = []
MANIFEST = {
    "design_ref": "§5 C18",
    "text": ("Lean theorem c18_history: judge (run ops) = true (+ clause theorems single_flight, failure_cached, shared_outcome, "
             "cancelled_only_if_requested, never_raises, no_deadlock, no_orphan_marker, snapshots_ok; etree_characterised / etree_total / "
             "description_never_asserts for the XML-tree -> dict conversion): for EVERY sequence of environment operations (lookups of any locations, "
             "responses released with any outcome, cancellation of any lookup at any point, uncache, single scheduler "
             "steps in any interleaving) the trace of the cache model is accepted by the monitor: a request is issued only "
             "when every earlier download of the location since its last uncache was abandoned by cancellation; a lookup "
             "returns only the released outcome of a download of its location from its own uncache epoch or later; no "
             "lookup raises; whenever nothing is runnable and no download is outstanding no lookup is unfinished. The model "
             "is tied to description_cache.py by stepping the real coroutines one event-loop handle at a time and "
             "comparing events and snapshots after every operation; the same monitor judges the implementation's trace."),
    "note": ("Trusted: Lean kernel + standard axioms; the hand-stepped event loop (asyncio FIFO ready queue, Task.cancel "
             "semantics of CPython 3.12 are what is being modelled); the fake requester has exactly one await point; XML "
             "text -> element tree is the real parser's (the tree it built is sent to the driver); tree -> dict is modelled "
             "in Lean and compared on every released document."),
    "technique": "Lean 4 proof (invariant over all operation sequences of an event-loop model) + model/implementation correspondence",
}
RULE = ("one case = one schedule: macro-operations {lookup loc0, lookup loc1, step, run-to-quiescence, release first "
        "outstanding response (8 outcome kinds), cancel task t, uncache loc0} enumerated exhaustively to the tier's depth "
        "with enabledness pruning, each followed by a closing phase (release everything, run); random longer schedules; "
        "every handle boundary of every lookup is a cancellation point. Compared after every primitive operation: events "
        "(request by task, return value, cancelled, raised) and snapshot (ready handles, outstanding downloads, unfinished "
        "lookups, status of every task, requests per location, peek per location). non-trivial = schedule contains a "
        "cancel or uncache or a failing outcome; distinct = distinct canonical driver text")
EXHAUSTIVE = {"quick": False, "thorough": False}
ASSUMPTIONS = [
    "the requester awaits exactly once per request (cancellation points inside a real HTTP client are not distinguished)",
    "lookups run as separate asyncio tasks on one event loop (CPython 3.12 Task/Future/Event semantics)",
    "parsed value of a released response is taken from the generator's dictionary, not re-derived in Lean",
]
TRUSTED = ["C18: hand-stepped asyncio loop (loop._ready popped one handle at a time with the loop marked running)"]

NLOCS = 3


def loc_url(loc: int) -> str:
    return f"http://192.168.1.{loc + 1}:8000/desc.xml"


# ---- documents: rendered from known dictionaries (generator-side oracle) ---------------------------

def _render(tag: str, val: Any, ns: str = "") -> str:
    if isinstance(val, dict):
        return f"<{ns}{tag}>" + "".join(_render(k, v, ns) for k, v in val.items()) + f"</{ns}{tag}>"
    if isinstance(val, list):
        return "".join(_render(tag, v, ns) for v in val)
    return f"<{ns}{tag}>{val}</{ns}{tag}>"


DEV1 = {"deviceType": "urn:schemas-upnp-org:device:TestDevice:1", "UDN": "uuid:dev1", "friendlyName": "One"}
DEV2 = {"deviceType": "urn:schemas-upnp-org:device:MediaRenderer:1", "UDN": "uuid:dev2",
        "iconList": {"icon": [{"width": "48", "url": "/a.png"}, {"width": "120", "url": "/b.png"}]},
        "deviceList": {"device": {"UDN": "uuid:emb", "serviceList": {"service": {"serviceId": "urn:x:1"}}}}}
NS = 'xmlns="urn:schemas-upnp-org:device-1-0"'
# kind -> (how the fake requester answers, expected parsed value)
KINDS: Dict[str, Tuple[Any, Any]] = {
    "ok1": ((200, f"<root {NS}><specVersion><major>1</major></specVersion>{_render('device', DEV1)}</root>"), DEV1),
    "ok2": ((200, '<?xml version="1.0" encoding="utf-8"?>\n<!-- c -->\n<u:root xmlns:u="urn:schemas-upnp-org:device-1-0">\n  '
             + _render("device", DEV2, "u:").replace("><", ">\n<") + "\n</u:root>\n"), DEV2),
    "http404": ((404, "not found"), None),
    "http500": ((500, f"<root {NS}>{_render('device', DEV1)}</root>"), None),
    "client_error": ("ClientError", None),
    "timeout": ("TimeoutError", None),
    "conn_error": ("UpnpConnectionError", None),
    "bug": ("RuntimeError", None),
    "malformed": ((200, f"<root {NS}><device><UDN>x</UDN>"), None),
    "empty": ((200, ""), None),
    "noroot": ((200, "<other><device><UDN>x</UDN></device></other>"), None),
    "nodevice": ((200, f"<root {NS}><specVersion><major>1</major></specVersion></root>"), None),
    "entity": ((200, f'<?xml version="1.0"?><!DOCTYPE r [<!ENTITY a "b">]><root {NS}><device><UDN>&a;</UDN></device></root>'), None),
    "textroot": ((200, f"<root {NS}>hello</root>"), None),
}
FAIL_KINDS = [k for k, v in KINDS.items() if v[1] is None]


def render_py(v: Any) -> str:
    """canonical text of a Python value, mirror of `renderVal` in lean/Upnp/Drv/C18.lean (dict order kept)"""
    if v is None:
        return "N"
    if isinstance(v, str):
        return "S" + tok_str(v)
    if isinstance(v, dict):
        return "D[" + ",".join(f"{tok_str(str(k))}:{render_py(x)}" for k, x in v.items()) + "]"
    if isinstance(v, list):
        return "L[" + ",".join(render_py(x) for x in v) + "]"
    return f"?{type(v).__name__}"


def tree_tokens(el) -> List[str]:
    """the element tree as `xml.etree` built it, in the prefix form `parseElem` reads"""
    out = ["(", tok_str(el.tag), str(len(el.attrib))]
    for k, v in el.attrib.items():
        out += [tok_str(k), tok_str(v)]
    out.append("~" if el.text is None else tok_str(el.text))
    kids = list(el)
    out.append(str(len(kids)))
    for c in kids:
        out += tree_tokens(c)
    out.append(")")
    return out


# ---- hand-stepped event loop -----------------------------------------------------------------------

class Sched:
    """hand-stepped loop with a virtual clock: `step` runs one ready handle, `advance` lets (a lot of) time pass,
    i.e. moves every timer the code under test registered (`call_later`, `wait_for`, `sleep`) to the ready queue"""

    def __init__(self) -> None:
        self.loop = asyncio.new_event_loop()
        self.vt = 1000.0
        self.loop.time = lambda: self.vt  # type: ignore[method-assign]
        self.timers_fired = 0

    def ntimers(self) -> int:
        return sum(1 for h in self.loop._scheduled if not h._cancelled)  # type: ignore[attr-defined]

    def advance(self, seconds: float = 86400.0) -> int:
        import heapq

        self.vt += seconds
        sched = self.loop._scheduled  # type: ignore[attr-defined]
        n = 0
        while sched and sched[0]._when <= self.vt:
            h = heapq.heappop(sched)
            h._scheduled = False
            if not h._cancelled:
                self.loop._ready.append(h)  # type: ignore[attr-defined]
                n += 1
        self.timers_fired += n
        return n

    def nready(self) -> int:
        return sum(1 for h in self.loop._ready if not h._cancelled)  # type: ignore[attr-defined]

    def step(self) -> bool:
        ready = self.loop._ready  # type: ignore[attr-defined]
        while ready:
            h = ready.popleft()
            if h._cancelled:
                continue
            asyncio.events._set_running_loop(self.loop)
            try:
                h._run()
            finally:
                asyncio.events._set_running_loop(None)
            return True
        return False

    def close(self) -> None:
        self.loop.close()


class FakeRequester:
    def __init__(self, sched: Sched) -> None:
        self.sched = sched
        self.dls: List[Dict[str, Any]] = []

    async def async_http_request(self, method: str, url: str, headers=None, body=None):
        fut = self.sched.loop.create_future()
        self.dls.append({"url": url, "fut": fut, "task": asyncio.current_task(), "method": method})
        return await fut


def make_exception(name: str) -> BaseException:
    import aiohttp

    from async_upnp_client.exceptions import UpnpConnectionError

    return {"ClientError": aiohttp.ClientError("boom"), "TimeoutError": asyncio.TimeoutError(),
            "UpnpConnectionError": UpnpConnectionError("conn"), "RuntimeError": RuntimeError("bug")}[name]


def run_recipe(ctx: Ctx, recipe: Dict[str, Any], cid: str) -> Case:
    from async_upnp_client.description_cache import DescriptionCache

    logging.getLogger("async_upnp_client.description_cache").disabled = True
    sched = Sched()
    req = FakeRequester(sched)
    cache = DescriptionCache(req)  # type: ignore[arg-type]
    tasks: List[asyncio.Task] = []
    tlocs: List[int] = []
    reported: List[bool] = []
    seen_dls = 0
    lines: List[str] = []
    tags = set()
    nontrivial = False
    docs: List[str] = recipe.get("docs", [])
    vids: Dict[str, int] = {}      # canonical text of a converted description -> value id
    seen_docs: Dict[str, str] = {}  # response body -> expected value token

    def value_id(v: Any) -> str:
        if v is None:
            return "-"
        return str(vids.get(render_py(v), 999))

    def expected_of(body: str) -> str:
        """value token expected for a released 200 response; emits the `doc` line (tree + what the real
        `_description_xml_to_dict` makes of it) the first time a body is seen"""
        if body in seen_docs:
            return seen_docs[body]
        import defusedxml.ElementTree as DET

        from async_upnp_client.description_cache import _description_xml_to_dict

        tok = "-"
        try:
            val = _description_xml_to_dict(body) if body else None
            res = render_py(val)
            if val is not None:
                tok = str(vids.setdefault(res, len(vids) + 1))
        except Exception as e:  # noqa: BLE001 - reported to the driver, judged there
            res = f"RAISES:{type(e).__name__}"
            tags.add(f"conversion-raises:{type(e).__name__}")
        try:
            tree = DET.fromstring(body) if body else None
        except Exception:  # noqa: BLE001 - not a tree: nothing for the tree-level model to say
            tree = None
        if tree is not None:
            lines.append(f"doc {len(seen_docs)} {res} " + " ".join(tree_tokens(tree)))
            tags.add("doc:" + res[:1])
        seen_docs[body] = tok
        return tok

    def outstanding() -> List[int]:
        return [i for i, d in enumerate(req.dls) if not d["fut"].done()]

    def observe() -> None:
        nonlocal seen_dls
        while seen_dls < len(req.dls):
            d = req.dls[seen_dls]
            t = tasks.index(d["task"]) if d["task"] in tasks else 99
            loc = next((l for l in range(NLOCS) if loc_url(l) == d["url"]), 99)
            lines.append(f"ev requested {t} {loc}")
            seen_dls += 1
        sts = []
        for i, t in enumerate(tasks):
            if not t.done():
                sts.append("P")
                continue
            if t.cancelled():
                tok, ev = "C", f"ev cancelled {i}"
            elif t.exception() is not None:
                tok, ev = "X", f"ev raised {i} {type(t.exception()).__name__}"
                tags.add(f"raised:{type(t.exception()).__name__}")
            else:
                tok, ev = f"R{value_id(t.result())}", f"ev returned {i} {value_id(t.result())}"
            if not reported[i]:
                reported[i] = True
                lines.append(ev)
            sts.append(tok)
        reqc = ",".join(f"{l}:{sum(1 for d in req.dls if d['url'] == loc_url(l))}" for l in range(NLOCS))
        peeks = []
        for l in range(NLOCS):
            found, val = cache.peek_description_dict(loc_url(l))
            peeks.append(f"{l}:{'T' + value_id(val) if found else 'F'}")
        lines.append(f"obs ready={sched.nready()} out={len(outstanding())} pend={sum(1 for t in tasks if not t.done())} "
                     f"st={','.join(sts) if sts else '~'} req={reqc} peek={','.join(peeks)}")

    def prim(op: List[Any]) -> None:
        """one primitive operation on the real objects + its line + observation"""
        name = op[0]
        if name == "lookup":
            lines.append(f"op lookup {op[1]}")
            tasks.append(sched.loop.create_task(cache.async_get_description_dict(loc_url(op[1]))))
            tlocs.append(op[1])
            reported.append(False)
        elif name == "step":
            lines.append("op step")
            sched.step()
        elif name == "complete":
            _, d, kind = op
            how = (200, docs[int(kind[3:])]) if kind.startswith("gen") else KINDS[kind][0]
            exp = expected_of(how[1]) if isinstance(how, tuple) and how[0] == 200 else "-"
            lines.append(f"op complete {d} {exp}")
            fut = req.dls[d]["fut"]
            if isinstance(how, tuple):
                fut.set_result((how[0], {}, how[1]))
            else:
                fut.set_exception(make_exception(how))
            tags.add(f"outcome:{'gen' if kind.startswith('gen') else kind}")
        elif name == "cancel":
            lines.append(f"op cancel {op[1]}")
            tasks[op[1]].cancel()
        elif name == "uncache":
            lines.append(f"op uncache {op[1]}")
            cache.uncache_description(loc_url(op[1]))
        tags.add(f"op:{name}")
        observe()

    def run_all(cap: int = 60) -> None:
        n = 0
        while sched.nready() and n < cap:
            prim(["step"])
            n += 1

    try:
        for op in recipe["ops"]:
            name = op[0]
            if name == "lookup":
                if len(tasks) < 8 and 0 <= op[1] < NLOCS:
                    prim(op)
            elif name == "step":
                if sched.nready():
                    prim(op)
            elif name == "run":
                run_all()
            elif name == "advance":
                # a day passes with whatever is outstanding still outstanding; the model has no timers, so this is
                # invisible to it — any handle that becomes ready here was put on a timer by the code under test
                if sched.advance():
                    tags.add("timers-fired")
                run_all()
            elif name == "complete":
                # ["complete", k, kind]: the k-th outstanding download (skipped when there is none)
                out = outstanding()
                ok_kind = op[2] in KINDS or (op[2].startswith("gen") and op[2][3:].isdigit() and int(op[2][3:]) < len(docs))
                if out and ok_kind:
                    prim(["complete", out[min(op[1], len(out) - 1)], op[2]])
                    nontrivial = nontrivial or op[2].startswith("gen") or KINDS[op[2]][1] is None
            elif name == "cancel":
                if op[1] < len(tasks):
                    prim(op)
                    nontrivial = True
            elif name == "uncache":
                prim(op)
                nontrivial = True
        # closing phase: let a day pass while the downloads are still outstanding (slow device), then release
        # everything and run to quiescence (bounded)
        run_all()
        if sched.advance():
            tags.add("timers-fired")
        for _ in range(12):
            run_all()
            out = outstanding()
            if not out:
                break
            prim(["complete", out[0], "ok1"])
        run_all()
        if sched.advance():
            tags.add("timers-fired")
            run_all()
        tags.add("end:" + ("deadlock" if any(not t.done() for t in tasks) else "all-done"))
        tags.add(f"tasks:{len(tasks)}")
        tags.add(f"requests:{len(req.dls)}")
    finally:
        for t in tasks:
            if not t.done():
                t.cancel()
        for _ in range(200):
            if not sched.step():
                break
        for t in tasks:
            if t.done() and not t.cancelled():
                t.exception()
        sched.close()
    return Case(cid, lines, recipe, nontrivial, sorted(tags))


# ---------------------------------------------------------------------------------------------
# generators

def alphabet(kinds: List[str]) -> List[List[Any]]:
    ops: List[List[Any]] = [["lookup", 0], ["lookup", 1], ["step"], ["run"], ["uncache", 0]]
    ops += [["complete", 0, k] for k in kinds]
    ops += [["cancel", t] for t in range(3)]
    return ops


def enumerate_schedules(depth: int, kinds: List[str], max_lookups: int = 3):
    """all macro-op sequences of the given depth that are enabled on an abstract state (tasks created,
    something possibly ready, something possibly outstanding); over-approximates enabledness — the
    harness skips what turns out to be disabled, and duplicates collapse in `distinct`."""
    ops = alphabet(kinds)

    def rec(prefix: List[List[Any]], ntasks: int, nl1: int, unc: int, cancels: frozenset):
        if len(prefix) == depth:
            yield prefix
            return
        for op in ops:
            n = op[0]
            if n == "lookup":
                if ntasks >= max_lookups or (op[1] == 1 and nl1 >= 1):
                    continue
                yield from rec(prefix + [op], ntasks + 1, nl1 + (op[1] == 1), unc, cancels)
            elif n in ("step", "run"):
                if not prefix or prefix[-1][0] == "run":
                    continue
                yield from rec(prefix + [op], ntasks, nl1, unc, cancels)
            elif n == "complete":
                if ntasks == 0 or not any(p[0] in ("step", "run") for p in prefix):
                    continue
                yield from rec(prefix + [op], ntasks, nl1, unc, cancels)
            elif n == "cancel":
                if op[1] >= ntasks or op[1] in cancels:
                    continue
                yield from rec(prefix + [op], ntasks, nl1, unc, cancels | {op[1]})
            elif n == "uncache":
                if unc >= 2 or ntasks == 0:
                    continue
                yield from rec(prefix + [op], ntasks, nl1, unc + 1, cancels)

    yield from rec([], 0, 0, 0, frozenset())


def rand_schedule(rng, n: int) -> List[List[Any]]:
    ops: List[List[Any]] = [["lookup", 0]]
    for _ in range(n):
        c = rng.randrange(20)
        if c < 4:
            ops.append(["lookup", rng.choice([0, 0, 0, 1, 2])])
        elif c < 9:
            ops.append(["step"])
        elif c < 10:
            ops.append(["run"])
        elif c < 11:
            ops.append(["advance"])
        elif c < 15:
            kind = rng.choice(["ok1", "ok2", "ok1", "ok2"] + list(KINDS))
            ops.append(["complete", rng.randrange(2), kind])
        elif c < 18:
            ops.append(["cancel", rng.randrange(6)])
        else:
            ops.append(["uncache", rng.choice([0, 0, 1])])
    return ops


# ---- description documents for the conversion model (mixed content, attributes, repeated tags, namespaces) ----

DNS = "urn:schemas-upnp-org:device-1-0"
TAGS = ["deviceType", "UDN", "friendlyName", "icon", "service", "serviceList", "iconList", "X_vendor", "url", "a"]
TEXTS = [None, None, "", " ", "\n   ", "text", "  padded value\n", "é ü", "1", "a&b <c>"]


def rand_elem(rng, depth: int, ns: str):
    import xml.etree.ElementTree as ET

    tag = rng.choice(TAGS)
    r = rng.random()
    q = f"{{{ns}}}{tag}" if ns and r < 0.85 else (f"{{urn:other}}{tag}" if r < 0.92 else tag)
    el = ET.Element(q)
    for _ in range(rng.choice([0, 0, 0, 1, 2])):
        k = rng.choice(["id", "type", "{urn:attr}q", "text", "#x"]) if rng.random() < 0.9 else tag
        if k != "#x":
            el.set(k, rng.choice(["1", "", " v ", "é"]))
    el.text = rng.choice(TEXTS)
    if depth > 0:
        n = rng.choice([0, 0, 1, 2, 3, 4])
        for _ in range(n):
            c = rand_elem(rng, depth - 1, ns)
            c.tail = rng.choice([None, "\n  ", " tail "])
            el.append(c)
    return el


def rand_document(rng) -> str:
    """a description document: usually <root><device>…</device></root>, sometimes degenerate"""
    import xml.etree.ElementTree as ET

    ns = DNS if rng.random() < 0.8 else ""
    q = (lambda t: f"{{{ns}}}{t}") if ns else (lambda t: t)
    c = rng.random()
    root = ET.Element(q("root") if c < 0.9 else q("other"))
    root.text = rng.choice([None, "\n", "stray text", " "])
    if rng.random() < 0.15:
        root.set("configId", "7")
    if c < 0.8:
        sv = ET.SubElement(root, q("specVersion"))
        ET.SubElement(sv, q("major")).text = "1"
        for _ in range(rng.choice([1, 1, 1, 2])):
            dev = ET.SubElement(root, q("device"))
            dev.text = rng.choice([None, "\n    ", "mixed before children", ""])
            if rng.random() < 0.2:
                dev.set("kind", "x")
            for _ in range(rng.randrange(0, 5)):
                ch = rand_elem(rng, 2, ns)
                ch.tail = rng.choice([None, "\n", "tail text"])
                dev.append(ch)
    elif c < 0.9:
        for _ in range(rng.randrange(0, 3)):
            root.append(rand_elem(rng, 1, ns))
    text = ET.tostring(root, encoding="unicode")
    if rng.random() < 0.3:
        text = '<?xml version="1.0"?>\n<!-- generated -->\n' + text
    return text


def doc_schedule(rng) -> Dict[str, Any]:
    docs = [rand_document(rng), rand_document(rng)]
    ops = [["lookup", 0], ["lookup", 0], ["run"], ["complete", 0, "gen0"], ["run"], ["lookup", 0], ["run"],
           ["uncache", 0], ["lookup", 0], ["run"], ["complete", 0, "gen1"], ["run"], ["lookup", 0], ["run"]]
    return {"ops": ops, "docs": docs}


def _work(args):
    from vk.core import activate_repo

    activate_repo()
    ctx, chunk = args
    return [run_recipe(ctx, ops if isinstance(ops, dict) else {"ops": ops}, cid) for cid, ops in chunk]


def generate(ctx: Ctx) -> List[Case]:
    rng = ctx.rng
    search = getattr(ctx, "search", False)
    jobs: List[Tuple[str, List[List[Any]]]] = []
    i = 0
    for rec in CORPUS:
        jobs.append((f"corpus{i}", rec["ops"]))
        i += 1
    big = ctx.thorough or search
    # exhaustive: two outcome kinds to depth D, every outcome kind at a smaller depth
    d_main = 7 if big else 6
    for sched in enumerate_schedules(d_main, ["ok1", "http404"]):
        jobs.append((f"e{i}", sched))
        i += 1
    for sched in enumerate_schedules(5 if big else 4, list(KINDS)):
        jobs.append((f"k{i}", sched))
        i += 1
    for _ in range(20000 if big else 2500):
        jobs.append((f"r{i}", rand_schedule(rng, rng.randrange(4, 30))))
        i += 1
    # description-conversion stream: random documents through the cache (and the tree-level model)
    for _ in range(12000 if big else 1000):
        jobs.append((f"d{i}", doc_schedule(rng)))  # type: ignore[arg-type]
        i += 1
    if len(jobs) > 20000:
        import multiprocessing as mp

        n = 12
        chunks = [jobs[k::n] for k in range(n)]
        lite = Ctx(ctx.prop, ctx.tier, ctx.seed, ctx.work, ctx.deadline)
        with mp.get_context("fork").Pool(n) as pool:
            parts = pool.map(_work, [(lite, c) for c in chunks])
        by_id = {c.cid: c for part in parts for c in part}
        return [by_id[cid] for cid, _ in jobs]
    return [run_recipe(ctx, ops if isinstance(ops, dict) else {"ops": ops}, cid) for cid, ops in jobs]


CORPUS: List[Dict[str, Any]] = [
    # F18a: lookup A, lookup B, cancel A (A owns the marker and is downloading)
    {"ops": [["lookup", 0], ["lookup", 0], ["run"], ["cancel", 0], ["run"]]},
    # F18a variant: A cancelled after its response was released but before it resumed
    {"ops": [["lookup", 0], ["lookup", 0], ["run"], ["complete", 0, "ok1"], ["cancel", 0], ["run"]]},
    # F18b: uncache between the owner's evt.set() and the waiter's resumption
    {"ops": [["lookup", 0], ["lookup", 0], ["run"], ["complete", 0, "ok1"], ["step"], ["uncache", 0], ["run"]]},
    # F18c: a download from before uncache completes after a new lookup installed its marker
    {"ops": [["lookup", 0], ["run"], ["uncache", 0], ["lookup", 0], ["run"], ["complete", 0, "ok1"], ["run"],
             ["lookup", 0], ["run"], ["complete", 0, "ok2"], ["run"], ["lookup", 0], ["run"]]},
    # F18d: response that the XML parser refuses / text-only root
    {"ops": [["lookup", 0], ["lookup", 0], ["run"], ["complete", 0, "entity"], ["run"], ["lookup", 0], ["run"]]},
    {"ops": [["lookup", 0], ["run"], ["complete", 0, "textroot"], ["run"], ["lookup", 0], ["run"]]},
    # failure is cached; uncache allows a new download
    {"ops": [["lookup", 0], ["run"], ["complete", 0, "http404"], ["run"], ["lookup", 0], ["run"], ["uncache", 0],
             ["lookup", 0], ["run"], ["complete", 0, "ok2"], ["run"]]},
    # etree_to_dict: attribute-less element with non-whitespace text BEFORE its children (a stale `dict_meta` asserts here)
    {"ops": [["lookup", 0], ["lookup", 0], ["run"], ["complete", 0, "gen0"], ["run"], ["lookup", 0], ["run"]],
     "docs": ['<root xmlns="urn:schemas-upnp-org:device-1-0"><device>mixed<UDN>uuid:x</UDN><icon a="1">t</icon>'
              '<icon/><icon> </icon></device></root>']},
    # a slow device: time passes while A downloads and B waits (a waiter that gives up on a timer returns absence here)
    {"ops": [["lookup", 0], ["lookup", 0], ["run"], ["advance"], ["complete", 0, "ok1"], ["run"], ["lookup", 0], ["run"]]},
    # two locations are independent
    {"ops": [["lookup", 0], ["lookup", 1], ["lookup", 0], ["lookup", 1], ["run"], ["complete", 1, "ok2"],
             ["complete", 0, "timeout"], ["run"]]},
]


def signature(case: Case, verdict) -> str:
    return f"C18 {verdict.notes[:300]}"
