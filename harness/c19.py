"""C19 correspondence harness: real `_parse_last_change_event` / `dlna_handle_notify_last_change` /
`DmrDevice._on_event` on a generated MediaRenderer, against the Lean model `Upnp.C19` (SAX-event fold) and
the judge `C19.ok` / `okAny`.  A tee content handler records the SAX events expat really delivered.
See DESIGN.md §5 C19 and design/C19.md."""
from __future__ import annotations

import asyncio
import multiprocessing
import os
import random
from typing import Any, Dict, List, Optional, Tuple

from harness.common import exc_token, tok_str
from vk.core import Case, Ctx

GEN_MODULES: List[str] = []
MANIFEST = {
    "design_ref": "§5 C19",
    "text": ("Lean theorems over the executable model of the LastChange expansion: handler_total (the content handler, with "
             "its dict-indexing KeyError made explicit, never raises on ANY SAX event list, well nested or not), "
             "instance0_master (for every well-formed abstract document — any number of instances and entries, any "
             "prefixes, channels, values — the handler's mapping for instance 0 is exactly the master-channel entries of "
             "instance 0 by local name, last one wins, and is absent iff instance 0 has no entry; other instances and "
             "channels do not influence it), expand_effect / ok_model (the judge C19.ok holds on the model's expansion: "
             "the service's variables named there take the values through one further callback carrying exactly them; "
             "no instance 0 or empty value changes nothing). The model is tied to the code by a differential run of the "
             "real DmrDevice event path; a tee handler feeds the model the SAX events expat delivered, and for rendered "
             "documents the delivered events are compared with the model's `events d`."),
    "note": ("Trusted: Lean kernel + standard axioms; expat/defusedxml (text -> SAX events, error reporting and recovery) is "
             "outside the proof: 'never raises on any DTD-free text' is carried by the byte-level mutation stream; variables "
             "are string/ui2/boolean typed and get valid values (invalid values are C10's subject); the entry name LastChange "
             "is not generated (re-entrant expansion); CurrentTrackMetaData / AVTransportURIMetaData carry valid, empty, "
             "NOT_IMPLEMENTED and damaged DIDL-Lite (the DIDL parsing itself is outside the model, only 'does not raise' and the "
             "variable update are judged); an entry outside any InstanceID element counts for instance 0 in the code (not expressible as an "
             "abstract document; kept as a text corpus case); lone surrogates cannot occur in text that came out of an XML parser."),
    "technique": "Lean 4 proof (fold invariant, induction over documents) + model/implementation correspondence with recorded SAX events",
}
RULE = ("LastChange documents rendered from an abstract document (0..3 instances, 0..8 entries, channels {absent, Master, LF, "
        "RF, '', master}, prefixed and unprefixed names, attribute order, quoting, character references, comments, "
        "whitespace, XML declaration naming utf-8/iso-8859-1/utf-16/us-ascii/windows-1252/unknown encodings) plus byte-level mutations of rendered documents (truncation, deleted/duplicated "
        "characters, swapped tags, bad entities and character references, control characters, junk before/after), each "
        "delivered through service.notify_changed_state_variables -> DmrDevice._on_event (every rendered document and the empty value as a GENA "
        "NOTIFY through UpnpEventHandler.handle_notify after a real async_subscribe_services; damaged text, which cannot "
        "be embedded in a NOTIFY body, directly). non-trivial = instance 0 has a "
        "master entry naming a service variable (documents) / expat delivered at least one element before failing "
        "(mutations); distinct = distinct canonical driver text")
EXHAUSTIVE = {"quick": False, "thorough": False}
ASSUMPTIONS = [
    "local names and prefixes contain no colon; the root element carries no val attribute; an unprefixed entry is not named InstanceID (WF in Props/C19.lean)",
    "service variables are string (any value), ui2 and boolean (valid canonical values only)",
    "entries are not named LastChange (re-entrant expansion) or InstanceID",
    "event values are str without lone surrogates and without DTD declarations",
]
TRUSTED = ["C19: expat/defusedxml SAX delivery and error recovery (observed through a tee handler, not modelled); generated MediaRenderer description"]

BASE = "http://dmr:1"
RC_VARS = [("Volume", "ui2"), ("Mute", "boolean"), ("PresetNameList", "string"), ("Brightness", "string"),
           ("X_Vendor.Mode", "string"), ("Loudness", "string")]
AVT_VARS = [("TransportState", "string"), ("CurrentTrackURI", "string"), ("TransportStatus", "string"),
            ("CurrentTransportActions", "string"), ("NumberOfTracks", "string"), ("Volume", "string"),
            ("CurrentTrackMetaData", "didl"), ("AVTransportURIMetaData", "didl")]
SERVICES = {
    "RC": ("urn:schemas-upnp-org:service:RenderingControl:1", "urn:upnp-org:serviceId:RenderingControl", RC_VARS),
    "AVT": ("urn:schemas-upnp-org:service:AVTransport:1", "urn:upnp-org:serviceId:AVTransport", AVT_VARS),
    "CM": ("urn:schemas-upnp-org:service:ConnectionManager:1", "urn:upnp-org:serviceId:ConnectionManager",
           [("SourceProtocolInfo", "string")]),
}


def scpd(vars_: List[Tuple[str, str]]) -> str:
    sv = "".join(f'<stateVariable sendEvents="no"><name>{n}</name><dataType>{"string" if t == "didl" else t}</dataType></stateVariable>'
                 for n, t in vars_)
    return ('<?xml version="1.0"?><scpd xmlns="urn:schemas-upnp-org:service-1-0"><specVersion><major>1</major><minor>0</minor>'
            '</specVersion><actionList></actionList><serviceStateTable><stateVariable sendEvents="yes"><name>LastChange</name>'
            f"<dataType>string</dataType></stateVariable>{sv}</serviceStateTable></scpd>")


# how a renderer spells its serviceId values (services are located by service TYPE; the serviceId is the device's business)
SID_STYLES = {
    "std": lambda sid: sid,
    "suffix": lambda sid: sid + "ServiceID",
    "version": lambda sid: sid + "_1",
    "domain": lambda sid: sid.replace("urn:upnp-org:", "urn:vendor-example-com:"),
    "case": lambda sid: sid.replace("serviceId", "serviceid").lower(),
    "prefix": lambda sid: sid.replace("serviceId:", "serviceId:X_"),
}


class DmrRequester:
    def __init__(self, sid_style: str = "std") -> None:
        svcs = "".join(
            f"<service><serviceType>{ty}</serviceType><serviceId>{SID_STYLES[sid_style](sid)}</serviceId><SCPDURL>/{k}.xml</SCPDURL>"
            f"<controlURL>/c/{k}</controlURL><eventSubURL>/e/{k}</eventSubURL></service>" for k, (ty, sid, _) in SERVICES.items())
        self.files = {BASE + "/d.xml": (
            '<?xml version="1.0"?><root xmlns="urn:schemas-upnp-org:device-1-0"><specVersion><major>1</major><minor>0</minor>'
            "</specVersion><device><deviceType>urn:schemas-upnp-org:device:MediaRenderer:1</deviceType><friendlyName>R</friendlyName>"
            f"<manufacturer>M</manufacturer><modelName>X</modelName><UDN>uuid:dmr-1</UDN><serviceList>{svcs}</serviceList>"
            "</device></root>")}
        for k, (_, _, vs) in SERVICES.items():
            self.files[f"{BASE}/{k}.xml"] = scpd(vs)

    async def async_http_request(self, method, url, headers=None, body=None):
        await asyncio.sleep(0)
        if method == "SUBSCRIBE":
            return 200, {"sid": "uuid:sid-" + url.rsplit("/", 1)[-1], "timeout": "Second-1800"}, ""
        if method == "UNSUBSCRIBE":
            return 200, {}, ""
        return 200, {}, self.files[url]


class FakeNotifyServer:
    callback_url = "http://192.0.2.1:8000/notify"

    async def async_start_server(self) -> None:
        pass

    async def async_stop_server(self) -> None:
        pass


_ENVS: Dict[str, Dict[str, Any]] = {}
_TEE: Dict[str, Any] = {}


def env(sid_style: str = "std") -> Dict[str, Any]:
    """the MediaRenderer profile (one per serviceId style and process), the tee handler and the callback log"""
    if sid_style in _ENVS:
        return _ENVS[sid_style]
    import logging

    from async_upnp_client.client_factory import UpnpFactory
    from async_upnp_client.profiles import dlna

    logging.getLogger("async_upnp_client").setLevel(logging.CRITICAL)
    from async_upnp_client.event_handler import UpnpEventHandler

    loop = asyncio.new_event_loop()
    req = DmrRequester(sid_style)
    device = loop.run_until_complete(UpnpFactory(req).async_create_device(BASE + "/d.xml"))
    handler = UpnpEventHandler(FakeNotifyServer(), req)  # type: ignore[arg-type]
    prof = dlna.DmrDevice(device, handler)
    log: List[List[str]] = []
    prof.on_event = lambda service, svars: log.append([sv.name for sv in svars])
    # the normal event path: subscribing installs DmrDevice._on_event on every service and registers the SIDs
    loop.run_until_complete(prof.async_subscribe_services())
    if not _TEE:
        base_cls = dlna.DlnaDmrEventContentHandler
        _TEE.update(events=[], handler=None)
        tee = _TEE

        class TeeHandler(base_cls):  # type: ignore[misc,valid-type]
            def __init__(self) -> None:
                super().__init__()
                tee["handler"] = self
                tee["events"] = []

            def startElement(self, name, attrs):  # noqa: N802
                tee["events"].append(("S", name, sorted(attrs.items())))
                super().startElement(name, attrs)

            def endElement(self, name):  # noqa: N802
                tee["events"].append(("E", name, None))
                super().endElement(name)

        dlna.DlnaDmrEventContentHandler = TeeHandler  # type: ignore[misc]
    _ENVS[sid_style] = dict(device=device, prof=prof, log=log, tee=_TEE, dlna=dlna, loop=loop, handler=handler)
    return _ENVS[sid_style]


# ---------------------------------------------------------------------------------------------------------------
# abstract documents and their rendering

VALUE_ALPHABET = list("abcXYZ019 .-_:/") + ["&", "<", ">", '"', "'", "é", "漢", "\U0001F3B5", "\n", "\t", "\r", "%", ";", "#"]
UNKNOWN_NAMES = ["Bogus", "X_Other", "volume", "A-b.c_d", "Événement"]
PREFIXES = [None, None, None, "rcs", "avt", "p1", "x-y"]
CHANNELS = [None, None, None, "Master", "Master", "LF", "RF", "", "master"]
IDS = ["0"] * 8 + ["1", "2", "3", "10", "4294967295", "", "00"]


DIDL_OK = ('<DIDL-Lite xmlns="urn:schemas-upnp-org:metadata-1-0/DIDL-Lite/" xmlns:dc="http://purl.org/dc/elements/1.1/" '
           'xmlns:upnp="urn:schemas-upnp-org:metadata-1-0/upnp/"><item id="1" parentID="0" restricted="1"><dc:title>T &amp; é</dc:title>'
           "<upnp:class>object.item.audioItem.musicTrack</upnp:class><res>http://h/a.mp3</res></item></DIDL-Lite>")


def gen_value(rng: random.Random, dtype: str) -> str:
    if dtype == "didl":   # what renderers put into CurrentTrackMetaData / AVTransportURIMetaData
        c = rng.randrange(8)
        if c < 2:
            return DIDL_OK
        if c == 2:
            return "NOT_IMPLEMENTED"
        if c == 3:
            return ""
        if c == 4:
            return DIDL_OK[:rng.randrange(1, len(DIDL_OK))]        # truncated
        if c == 5:
            return DIDL_OK.replace("</item>", "", 1)               # unbalanced
        if c == 6:
            return rng.choice(["<DIDL-Lite", "junk", "<a/>", "&", "<DIDL-Lite xmlns=\"urn:schemas-upnp-org:metadata-1-0/DIDL-Lite/\"/>"])
        return DIDL_OK.replace("object.item.audioItem.musicTrack", rng.choice(["object.bogus", "", "object.item"]))
    if dtype == "ui2":
        return str(rng.choice([0, 1, 7, 42, 100, 65535]))
    if dtype == "boolean":
        return rng.choice(["0", "1"])
    return "".join(rng.choice(VALUE_ALPHABET) for _ in range(rng.choice([0, 1, 2, 5, 12])))


def gen_doc(rng: random.Random, svc_key: str) -> Dict[str, Any]:
    vars_ = SERVICES[svc_key][2]
    insts = []
    for _ in range(rng.choice([0, 1, 1, 1, 2, 2, 3])):
        entries = []
        for _ in range(rng.choice([0, 1, 2, 3, 5, 8])):
            if rng.randrange(0, 5) == 0:
                name, dtype = rng.choice(UNKNOWN_NAMES), "string"
            else:
                name, dtype = rng.choice(vars_)
            entries.append({"pfx": rng.choice(PREFIXES), "name": name, "chan": rng.choice(CHANNELS), "val": gen_value(rng, dtype)})
        insts.append({"id": rng.choice(IDS), "entries": entries, "ipfx": rng.choice([None, None, None, "rcs", "avt", "x-y"])})
    root = rng.choice([[], [["xmlns", "urn:schemas-upnp-org:metadata-1-0/RCS/"]],
                       [["xmlns", "urn:schemas-upnp-org:metadata-1-0/AVT/"], ["xmlns:rcs", "urn:x"], ["xmlns:avt", "urn:y"]]])
    style = rng.randrange(0, 2**30)
    # the serviceId spelling is derived from the style number, not drawn from the main stream: the documents
    # generated for a seed stay what they were before this dimension existed
    return {"kind": "doc", "svc": svc_key, "root": root, "ops": insts, "style": style,
            "via": "notify", "sid": random.Random(style).choice(["std", "std"] + sorted(SID_STYLES))}


def esc(rng: random.Random, s: str, quote: str) -> str:
    out = []
    for ch in s:
        if ch == "&":
            out.append(rng.choice(["&amp;", "&#38;", "&#x26;"]))
        elif ch == "<":
            out.append(rng.choice(["&lt;", "&#60;"]))
        elif ch == ">":
            out.append(rng.choice(["&gt;", ">"]))
        elif ch == quote:
            out.append("&quot;" if quote == '"' else "&apos;")
        elif ch in "\n\t\r":
            out.append(f"&#{ord(ch)};" if rng.randrange(2) else f"&#x{ord(ch):X};")
        elif rng.randrange(0, 12) == 0:
            out.append(f"&#x{ord(ch):x};")
        else:
            out.append(ch)
    return "".join(out)


def render(doc: Dict[str, Any]) -> str:
    rng = random.Random(doc["style"])
    ws = lambda: rng.choice(["", "", "", " ", "\n", "\n  ", "\t"])  # noqa: E731

    def attrs(pairs: List[Tuple[str, str]]) -> str:
        pairs = list(pairs)
        rng.shuffle(pairs)
        out = []
        for k, v in pairs:
            q = rng.choice(['"', '"', "'"])
            eq = rng.choice(["=", "=", " = "])
            out.append(f"{rng.choice([' ', ' ', '  ', chr(10)])}{k}{eq}{q}{esc(rng, v, q)}{q}")
        return "".join(out) + rng.choice(["", "", " "])

    # the text is a str: whatever encoding a declaration names, the values are the given ones
    enc = rng.choice(["utf-8", "utf-8", "UTF-8", "iso-8859-1", "utf-16", "us-ascii", "windows-1252", "x-unknown"])
    parts = [rng.choice(["", "", "", '<?xml version="1.0"?>', f'<?xml version="1.0" encoding="{enc}"?>\n',
                         f"<?xml version='1.0' encoding='{enc}' standalone='yes'?>"])]
    parts.append(f"<Event{attrs([tuple(p) for p in doc['root']])}>")
    def entry_xml(e):
        qn = (e["pfx"] + ":" if e["pfx"] else "") + e["name"]
        at = [("val", e["val"])] + ([("channel", e["chan"])] if e["chan"] is not None else [])
        return f"<{qn}{attrs(at)}/>" if rng.randrange(3) else f"<{qn}{attrs(at)}></{qn}{rng.choice(['', ' '])}>"

    for e in doc.get("loose", []):      # entries directly under Event, before the first instance
        parts.append(ws())
        parts.append(entry_xml(e))
    for inst in doc["ops"]:
        parts.append(ws())
        iq = (inst["ipfx"] + ":" if inst.get("ipfx") else "") + "InstanceID"
        if not inst["entries"] and rng.randrange(2):
            parts.append(f"<{iq}{attrs([('val', inst['id'])])}/>")
            continue
        parts.append(f"<{iq}{attrs([('val', inst['id'])])}>")
        for e in inst["entries"]:
            parts.append(ws())
            if rng.randrange(0, 10) == 0:
                parts.append("<!-- c -->")
            parts.append(entry_xml(e))
        parts.append(ws())
        parts.append(f"</{iq}>")
    parts.append(ws())
    parts.append("</Event>")
    parts.append(rng.choice(["", "", "\n"]))
    return "".join(parts)


def mutate(rng: random.Random, text: str) -> str:
    """byte-level damage; never introduces a DTD"""
    b = text.encode()
    for _ in range(rng.choice([1, 1, 1, 2, 3])):
        n = len(b)
        c = rng.randrange(0, 13)
        i = rng.randrange(0, n + 1) if n else 0
        if c == 0:
            b = b[:i]                                   # truncation
        elif c == 1 and n:
            b = b[:i % n] + b[i % n + 1:]               # deleted byte
        elif c == 2 and n:
            j = rng.randrange(0, n)
            lo, hi = min(i % n, j), max(i % n, j)
            b = b[:lo] + b[hi:]                         # deleted span
        elif c == 3:
            b = b[:i] + rng.choice([b"&bogus;", b"&", b"&#xZZ;", b"&#0;", b"&#xD800;", b"&amp", b"&#1114112;"]) + b[i:]
        elif c == 4:
            b = b[:i] + bytes([rng.choice([0, 1, 8, 11, 12, 27, 127, 0x80, 0xFF, 0xC3])]) + b[i:]
        elif c == 5:
            b = b.replace(b"</InstanceID>", b"</Event>", 1) if rng.randrange(2) else b.replace(b"</Event>", b"</InstanceID>", 1)
        elif c == 6:
            b = b[:i] + rng.choice([b"<", b">", b"/", b'"', b"'", b"<x", b"</y>", b"<a><b></a></b>", b"]]>", b"<![CDATA[", b"<?pi"]) + b[i:]
        elif c == 7:
            b = b.replace(b" val=", rng.choice([b" val=x", b" val val=", b' val="1" val=', b" VAL=", b" val"]), 1)
        elif c == 8:
            b = rng.choice([b"junk", b"\xef\xbb\xbf", b"\n\n", b"<Event/>", b"<?xml version='1.0'?>"]) + b
        elif c == 9:
            b = b + rng.choice([b"junk", b"<Event/>", b"</Event>", b"\x00", b"<InstanceID val='0'><Volume val='9'/></InstanceID>"])
        elif c == 12:
            enc = rng.choice([b"tf-8", b"utf-16", b"latin-1", b"ascii", b"x-none", b"", b"UTF-8", b"cp1252", b"utf-8\x00"])
            if b"encoding=" in b:
                b = b.replace(b'encoding="utf-8"', b'encoding="' + enc + b'"', 1)
            else:
                b = b"<?xml version='1.0' encoding='" + enc + b"'?>" + b
        elif c == 10 and n:
            k = rng.randrange(0, n)
            b = b[:k] + b[k:k + rng.randrange(1, 30)] * 2 + b[k:]   # duplicated span
        else:
            b = b.replace(b"/>", b">", 1) if rng.randrange(2) else b.replace(b">", b"/>", 1)
    text = b.decode("utf-8", "replace")
    if "<!DOCTYPE" in text or "<!ENTITY" in text:
        text = text.replace("<!DOCTYPE", "<DOCTYPE").replace("<!ENTITY", "<ENTITY")
    return text


# ---------------------------------------------------------------------------------------------------------------
# running one value through the real event path

def fmt_attrs(items) -> str:
    return ",".join(f"{tok_str(k)}:{tok_str(v)}" for k, v in items) or "~"


def opt_tok(s: Optional[str]) -> str:
    return "~" if s is None else tok_str(s)


def run_value(cid: str, recipe: Dict[str, Any], text: Optional[str], doc: Optional[Dict[str, Any]]) -> Case:
    e = env(recipe.get("sid", "std"))
    tags_sid = "sid:" + recipe.get("sid", "std")
    svc_key = recipe.get("svc", "RC")
    ty, _, vars_ = SERVICES[svc_key]
    svc = e["device"].services[ty]
    init = {n: ("5" if t == "ui2" else "0" if t == "boolean" else f"init-{n}") for n, t in vars_}
    saved = svc.on_event
    svc.on_event = None
    svc.notify_changed_state_variables(dict(init))
    svc.on_event = saved
    lines = [f"var {tok_str(n)} {tok_str(v)}" for n, v in init.items()]
    others = [sv for o in e["device"].services.values() if o is not svc for sv in o.state_variables.values()]
    others_before = [sv.value_unchecked for sv in others]
    tags = {tags_sid}
    nontrivial = False
    if doc is not None:
        lines.append(f"doc {fmt_attrs(sorted(tuple(p) for p in doc['root']))}")
        for en in doc.get("loose", []):
            lines.append(f"lentry {opt_tok(en['pfx'])} {tok_str(en['name'])} {opt_tok(en['chan'])} {tok_str(en['val'])}")
            tags.add("loose-entry")
        for inst in doc["ops"]:
            lines.append(f"inst {tok_str(inst['id'])} {opt_tok(inst.get('ipfx'))}")
            tags.add("ipfx:" + ("yes" if inst.get("ipfx") else "no"))
            for en in inst["entries"]:
                lines.append(f"entry {opt_tok(en['pfx'])} {tok_str(en['name'])} {opt_tok(en['chan'])} {tok_str(en['val'])}")
                tags.add("chan:" + ("absent" if en["chan"] is None else en["chan"] or "empty"))
                tags.add("pfx:" + ("yes" if en["pfx"] else "no"))
                if inst["id"] == "0" and en["chan"] in (None, "Master") and en["name"] in init:
                    nontrivial = True
        tags.add(f"insts:{len(doc['ops'])}")
        tags.add("inst0:" + ("yes" if any(i["id"] == "0" for i in doc["ops"]) else "no"))
    lines.append(f"value {'empty' if not text else 'text'} {len(text or '')}")
    e["log"].clear()
    e["tee"]["handler"] = None
    e["tee"]["events"] = []
    raised = "no"
    try:
        if recipe.get("via", "notify" if recipe["kind"] in ("doc", "empty") else "direct") == "notify":
            # a GENA NOTIFY through UpnpEventHandler.handle_notify (the value travels escaped inside the propertyset)
            from xml.sax.saxutils import escape
            body = ('<?xml version="1.0"?><e:propertyset xmlns:e="urn:schemas-upnp-org:event-1-0"><e:property>'
                    f"<LastChange>{escape(text or '')}</LastChange></e:property></e:propertyset>")
            sid = e["handler"].sid_for_service(svc)
            status = e["loop"].run_until_complete(e["handler"].handle_notify(
                {"NT": "upnp:event", "NTS": "upnp:propchange", "SID": sid}, body))
            tags.add(f"via:notify:{int(status)}")
        else:
            svc.notify_changed_state_variables({"LastChange": text or ""})
    except Exception as ex:  # noqa: BLE001
        raised = exc_token(ex)
        tags.add("raised:" + raised)
    for kind, name, attrs in e["tee"]["events"]:
        lines.append(f"sax S {tok_str(name)} {fmt_attrs(attrs)}" if kind == "S" else f"sax E {tok_str(name)}")
    h = e["tee"]["handler"]
    if h is not None:
        ch = ";".join(f"{tok_str(i)}={fmt_attrs(m.items())}" for i, m in h.changes.items()) or "~"
        lines.append(f"changes {ch}")
        if doc is None:
            tags.add("delivered:" + ("0" if not e["tee"]["events"] else "some"))
            nontrivial = bool(e["tee"]["events"])
            if "0" in h.changes:
                tags.add("malformed:inst0-applied")
    else:
        lines.append("noparse")
        tags.add("noparse")
    lines.append(f"raised {raised}")
    for n, _ in vars_:
        lines.append(f"after {tok_str(n)} {tok_str(svc.state_variable(n).upnp_value)}")
    lines.append("others " + ("unchanged" if [sv.value_unchecked for sv in others] == others_before else "CHANGED"))
    for names in e["log"]:
        lines.append(f"cb {','.join(tok_str(n) for n in names) or '~'}")
    tags.add(f"cbs:{len(e['log'])}")
    return Case(cid, lines, recipe, nontrivial, sorted(tags))


def run_recipe(ctx: Ctx, recipe: Dict[str, Any], cid: str) -> Case:
    if recipe["kind"] == "doc":
        return run_value(cid, recipe, render(recipe), recipe)
    if recipe["kind"] == "empty":
        return run_value(cid, recipe, "", None)
    return run_value(cid, recipe, recipe["text"], None)


# ---------------------------------------------------------------------------------------------------------------

def E(name, val, chan=None, pfx=None):  # noqa: N802
    return {"pfx": pfx, "name": name, "chan": chan, "val": val}


CORPUS: List[Dict[str, Any]] = [
    # the five literal shapes of the repository's own tests, as abstract documents
    {"kind": "doc", "svc": "RC", "root": [["xmlns", "urn:schemas-upnp-org:metadata-1-0/RCS/"]], "style": 1,
     "ops": [{"id": "0", "entries": [E("Mute", "0", "Master"), E("Volume", "50", "Master"), E("Volume", "9", "LF")]}]},
    {"kind": "doc", "svc": "AVT", "root": [], "style": 2,
     "ops": [{"id": "0", "entries": [E("TransportState", "PAUSED_PLAYBACK"), E("CurrentTrackURI", "a&b<c>\"'\n")]},
             {"id": "1", "entries": [E("TransportState", "STOPPED")]}]},
    {"kind": "doc", "svc": "RC", "root": [], "style": 3,
     "ops": [{"id": "1", "entries": [E("Volume", "7", "Master")]}]},                       # no instance 0
    {"kind": "doc", "svc": "RC", "root": [], "style": 4,
     "ops": [{"id": "0", "entries": [E("Volume", "7", "LF"), E("Bogus", "x")]}]},          # instance 0 without master/service entries
    {"kind": "doc", "svc": "RC", "root": [], "style": 5,
     "ops": [{"id": "0", "entries": [E("Volume", "1", None, "rcs"), E("Volume", "2", "Master", "x-y")]},
             {"id": "2", "entries": []}, {"id": "0", "entries": [E("Mute", "1", "Master")]}]},
    {"kind": "doc", "svc": "RC", "root": [], "style": 6, "ops": []},
    {"kind": "doc", "svc": "RC", "root": [["xmlns", "urn:schemas-upnp-org:metadata-1-0/RCS/"]], "style": 11, "via": "notify",
     "ops": [{"id": "0", "entries": [E("Mute", "1", "Master"), E("PresetNameList", "a&b<c>\"'\n é", None, "rcs")]}]},
    {"kind": "empty", "svc": "AVT", "via": "notify"},
    # a renderer with vendor-style serviceId values: located by service type, expanded all the same
    {"kind": "doc", "svc": "RC", "root": [], "style": 12, "sid": "suffix",
     "ops": [{"id": "0", "entries": [E("Volume", "9", "Master"), E("Mute", "1")]}]},
    {"kind": "doc", "svc": "AVT", "root": [], "style": 13, "sid": "domain",
     "ops": [{"id": "0", "entries": [E("TransportState", "PLAYING")]}]},
    # F19b: an instance whose id is the empty string is not instance 0
    {"kind": "doc", "svc": "RC", "root": [], "style": 7, "ops": [{"id": "", "entries": [E("Volume", "6", "Master")]}]},
    # F19a: declared encodings (styles 3, 9, 5 render iso-8859-1, x-unknown, utf-16; the value is non-ASCII)
    {"kind": "doc", "svc": "AVT", "root": [], "style": 3, "ops": [{"id": "0", "entries": [E("CurrentTrackURI", "é漢")]}]},
    {"kind": "doc", "svc": "AVT", "root": [], "style": 9, "ops": [{"id": "0", "entries": [E("CurrentTrackURI", "é漢")]}]},
    {"kind": "doc", "svc": "AVT", "root": [], "style": 5, "ops": [{"id": "0", "entries": [E("CurrentTrackURI", "é漢")]}]},
    {"kind": "text", "svc": "AVT", "text": "<?xml version=\"1.0\" encoding=\"iso-8859-1\"?><Event><InstanceID val=\"0\"><CurrentTrackURI val=\"é\"/></InstanceID></Event>"},
    {"kind": "empty", "svc": "RC"},
    {"kind": "text", "svc": "RC", "text": "<Event><InstanceID val=\"0\"><Volume val=\"3\"/>"},           # truncated
    {"kind": "text", "svc": "RC", "text": "<Event><InstanceID val=\"0\"><Volume val=\"3\"/></Event>"},   # unbalanced
    {"kind": "text", "svc": "RC", "text": "<Event><InstanceID val=\"0\"><Volume val=\"&bogus;\"/></InstanceID></Event>"},
    {"kind": "text", "svc": "RC", "text": "not xml at all \x00"},
    # F19a: unknown encoding in the XML declaration (LookupError escaped the error handler)
    {"kind": "text", "svc": "RC", "text": "<?xml version=\"1.0\" encoding=\"tf-8\"?><Event><InstanceID val=\"0\"><Volume val=\"3\"/></InstanceID></Event>"},
    {"kind": "text", "svc": "RC", "text": "<Event><Volume val=\"4\"/></Event>"},              # entry outside any instance -> "0" (quirk)
]


def _chunk(args):
    from vk.core import activate_repo
    recipes = args
    activate_repo()
    return [run_recipe(None, r, c) for r, c in recipes]  # type: ignore[arg-type]


def generate(ctx: Ctx) -> List[Case]:
    rng = ctx.rng
    n_docs = 40000 if ctx.thorough else 2000
    n_mut = 180000 if ctx.thorough else 5000
    if ctx.thorough and getattr(ctx, "search", False):
        n_docs, n_mut = 10000, 30000
    jobs: List[Tuple[dict, str]] = [(rec, f"corpus{i}") for i, rec in enumerate(CORPUS)]
    i = len(jobs)
    for _ in range(n_docs):
        d = gen_doc(rng, rng.choice(["RC", "RC", "AVT"]))
        jobs.append((d, f"d{i}"))
        i += 1
    # entries directly under Event (outside any InstanceID): the text says they are not children of instance 0;
    # the code counts them for instance 0 (open known finding F19c) -- a dedicated stream so that nothing else is masked
    for _ in range(1500 if ctx.thorough else 40):
        d = gen_doc(rng, rng.choice(["RC", "AVT"]))
        vars_ = SERVICES[d["svc"]][2]
        d["loose"] = []
        for _k in range(rng.choice([1, 1, 2])):
            name, dtype = rng.choice(vars_)
            d["loose"].append({"pfx": rng.choice(PREFIXES), "name": name, "chan": rng.choice(CHANNELS), "val": gen_value(rng, dtype)})
        jobs.append((d, f"l{i}"))
        i += 1
    for _ in range(n_mut):
        # byte damage can invalidate ui2/boolean values (C10's subject): the mutation stream targets the
        # all-string AVTransport service
        d = gen_doc(rng, "AVT")
        jobs.append(({"kind": "text", "svc": "AVT", "text": mutate(rng, render(d))}, f"m{i}"))
        i += 1
    if len(jobs) > 20000:
        nproc = min(16, os.cpu_count() or 2)
        size = 4000
        chunks = [jobs[k:k + size] for k in range(0, len(jobs), size)]
        with multiprocessing.get_context("fork").Pool(nproc) as pool:
            parts = pool.map(_chunk, chunks)
        return [c for part in parts for c in part]
    return [run_recipe(ctx, r, c) for r, c in jobs]


def signature(case: Case, verdict) -> str:
    rec = case.recipe or {}
    kind = rec.get("kind", "?") + (" loose-entries" if rec.get("loose") else "")
    return f"C19 {kind} {verdict.notes[:300]}"
