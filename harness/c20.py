"""C20 correspondence harness: the real `IgdDevice` facade (profiles/igd.py, profiles/profile.py) on generated
gateways behind a fake requester, against the Lean model `Upnp.C20` and the judge `callOk` / `seriesOk`.
See DESIGN.md §5 C20 and design/C20.md."""
from __future__ import annotations

import asyncio
import itertools
from fractions import Fraction
import multiprocessing
import os
import random
from datetime import timedelta
from typing import Any, Dict, List, Optional, Tuple

from vk.core import Case, Ctx

GEN_MODULES = ["C20Igd"]
MANIFEST = {
    "design_ref": "§5 C20",
    "text": ("Lean theorems over the executable model of the IGD facade: find_service_spec (tree search = first service "
             "registered under the type, by induction on the device tree), route_sound and routing_spec (for every gateway "
             "tree whose services follow the standard action families, every facade operation is sent to an offered service "
             "defining the action and answers 'not available' iff no offered service defines it; instantiated on the alias "
             "table and the 22 operation rows regenerated from profiles/igd.py on every run, with igd_aliases_resolvable / "
             "igd_families_covered closed by decide), totals_nonneg, rate_spec, failures_isolated and series_spec (for every "
             "series of readings of any length, the judge seriesOk holds on the model's output). The model is tied to the "
             "code by the generated tables and by a differential run of the real IgdDevice behind a fake requester; the same "
             "judges are evaluated on the implementation's observations."),
    "note": ("Trusted: Lean kernel + standard axioms; tools/gen_c20.py (ast) prints the tables it parsed; the fake requester "
             "and the generated device/SCPD documents; float arithmetic of the rate (two divisions) is not modelled, observed "
             "rates are compared as exact rationals within 2^-50 relative; elapsed time 0 between samples (ZeroDivisionError) "
             "and clocks running backwards are outside the domain; gateways whose services of one kind disagree on an action, "
             "or with two devices of one type under one parent, are outside the hypothesis stdGateway."),
    "technique": "Lean 4 proof (tree induction, decide over generated tables, history induction) + model/implementation correspondence",
}
RULE = ("routing: every subset of the five service types x 4 placements x action-set variants, SCPDs omitting actions "
        "(exhaustive per facade action over two offered services of a family, random subsets per service), state steps between "
        "calls and polls (availability flag, subscribe + failed renewal + re-subscribe, unsubscribe, earlier failed calls, repeats), every facade operation "
        "once per gateway (requests recorded by control URL); counters: reading series of length 1..6 per counter over "
        "{increasing, equal, wrapped, negative, absent, SOAP fault, transport error, HTTP error, bad XML} with patched "
        "datetime.now. non-trivial = at least one request was sent (routing) / at least one rate is present or one reading "
        "failed (series); distinct = distinct canonical driver text")
EXHAUSTIVE = {"quick": False, "thorough": False}
ASSUMPTIONS = [
    "offered services follow the standard action families (stdGateway): an action is defined only by members of its family and versions of one service agree on it",
    "no two services of one type in one device and no two embedded devices of one type under one parent (UpnpDevice keeps one per type)",
    "counter readings are >= -2^31; timestamps of successive samples strictly increase",
    "the set iteration order of _SERVICE_TYPES values is taken from the running interpreter and given to the model",
]
TRUSTED = ["C20: fake requester / generated description and SCPD documents; float rate compared as exact rational within 2^-50 relative"]

T_IP1 = "urn:schemas-upnp-org:service:WANIPConnection:1"
T_IP2 = "urn:schemas-upnp-org:service:WANIPConnection:2"
T_PPP = "urn:schemas-upnp-org:service:WANPPPConnection:1"
T_CIC = "urn:schemas-upnp-org:service:WANCommonInterfaceConfig:1"
T_L3F = "urn:schemas-upnp-org:service:Layer3Forwarding:1"
FIVE = [T_IP1, T_IP2, T_PPP, T_CIC, T_L3F]
D_IGD = "urn:schemas-upnp-org:device:InternetGatewayDevice:1"
D_IGD2 = "urn:schemas-upnp-org:device:InternetGatewayDevice:2"
D_WAN = "urn:schemas-upnp-org:device:WANDevice:1"
D_WCD = "urn:schemas-upnp-org:device:WANConnectionDevice:1"
D_BASIC = "urn:schemas-upnp-org:device:Basic:1"

PM_OUT = [("NewInternalPort", "out", "ui2"), ("NewInternalClient", "out", "string"), ("NewEnabled", "out", "boolean"),
          ("NewPortMappingDescription", "out", "string"), ("NewLeaseDuration", "out", "ui4")]
PM_KEY = [("NewRemoteHost", "string"), ("NewExternalPort", "ui2"), ("NewProtocol", "string")]
# action -> [(argument, direction, data type)]
ARGS: Dict[str, List[Tuple[str, str, str]]] = {
    "GetTotalBytesReceived": [("NewTotalBytesReceived", "out", "ui4")],
    "GetTotalBytesSent": [("NewTotalBytesSent", "out", "ui4")],
    "GetTotalPacketsReceived": [("NewTotalPacketsReceived", "out", "ui4")],
    "GetTotalPacketsSent": [("NewTotalPacketsSent", "out", "ui4")],
    "GetEnabledForInternet": [("NewEnabledForInternet", "out", "boolean")],
    "SetEnabledForInternet": [("NewEnabledForInternet", "in", "boolean")],
    "GetCommonLinkProperties": [("NewWANAccessType", "out", "string"), ("NewLayer1UpstreamMaxBitRate", "out", "ui4"),
                                ("NewLayer1DownstreamMaxBitRate", "out", "ui4"), ("NewPhysicalLinkStatus", "out", "string")],
    "GetDefaultConnectionService": [("NewDefaultConnectionService", "out", "string")],
    "SetDefaultConnectionService": [("NewDefaultConnectionService", "in", "string")],
    "SetConnectionType": [("NewConnectionType", "in", "string")],
    "GetConnectionTypeInfo": [("NewConnectionType", "out", "string"), ("NewPossibleConnectionTypes", "out", "string")],
    "RequestConnection": [], "RequestTermination": [], "ForceTermination": [],
    "GetStatusInfo": [("NewConnectionStatus", "out", "string"), ("NewLastConnectionError", "out", "string"), ("NewUptime", "out", "ui4")],
    "GetNATRSIPStatus": [("NewRSIPAvailable", "out", "boolean"), ("NewNATEnabled", "out", "boolean")],
    "GetGenericPortMappingEntry": [("NewPortMappingIndex", "in", "ui2")] + [(n, "out", t) for n, t in PM_KEY] + PM_OUT,
    "GetSpecificPortMappingEntry": [(n, "in", t) for n, t in PM_KEY] + PM_OUT,
    "AddPortMapping": [(n, "in", t) for n, t in PM_KEY] + [(n, "in", t) for n, _, t in PM_OUT],
    "DeletePortMapping": [(n, "in", t) for n, t in PM_KEY],
    "GetExternalIPAddress": [("NewExternalIPAddress", "out", "string")],
    "GetPortMappingNumberOfEntries": [("NewPortMappingNumberOfEntries", "out", "ui2")],
    # not used by the facade (present in the standard templates)
    "GetAutoDisconnectTime": [("NewAutoDisconnectTime", "out", "ui4")],
    "AddAnyPortMapping": [(n, "in", t) for n, t in PM_KEY] + [("NewReservedPort", "out", "ui2")],
    "GetUserName": [("NewUserName", "out", "string")],
    "GetActiveConnection": [("NewActiveConnectionIndex", "in", "ui2"), ("NewActiveConnDeviceContainer", "out", "string")],
}
CONN_STD = ["SetConnectionType", "GetConnectionTypeInfo", "RequestConnection", "RequestTermination", "ForceTermination",
            "GetStatusInfo", "GetNATRSIPStatus", "GetGenericPortMappingEntry", "GetSpecificPortMappingEntry", "AddPortMapping",
            "DeletePortMapping", "GetExternalIPAddress", "GetAutoDisconnectTime"]
CIC_STD = ["SetEnabledForInternet", "GetEnabledForInternet", "GetCommonLinkProperties", "GetTotalBytesSent",
           "GetTotalBytesReceived", "GetTotalPacketsSent", "GetTotalPacketsReceived", "GetActiveConnection"]
L3F_STD = ["SetDefaultConnectionService", "GetDefaultConnectionService"]


def std_actions(ty: str, variant: str) -> List[str]:
    """variant 'std': the standard templates; 'vendor': connection services add GetPortMappingNumberOfEntries;
    'reduced': every family lacks some facade actions (so 'not available' is reached with the service present)."""
    if ty in (T_IP1, T_IP2, T_PPP):
        acts = list(CONN_STD)
        if ty == T_IP2:
            acts.append("AddAnyPortMapping")
        if ty == T_PPP:
            acts.append("GetUserName")
        if variant == "vendor":
            acts.append("GetPortMappingNumberOfEntries")
        # the UPnP templates mark RequestTermination (and the vendor action) optional: a gateway offering both
        # versions of WANIPConnection may implement them in one version only
        if variant == "opt-v2" and ty == T_IP2:
            acts.append("GetPortMappingNumberOfEntries")
        if variant == "opt-v2" and ty == T_IP1:
            acts.remove("RequestTermination")
        if variant == "opt-v1" and ty == T_IP1:
            acts.append("GetPortMappingNumberOfEntries")
        if variant == "opt-v1" and ty in (T_IP2, T_PPP):
            acts.remove("RequestTermination")
        if variant == "reduced":
            acts = [a for a in acts if a not in ("RequestTermination", "GetNATRSIPStatus", "GetStatusInfo", "AddPortMapping")]
    elif ty == T_CIC:
        acts = list(CIC_STD)
        if variant == "reduced":
            acts = [a for a in acts if a not in ("GetTotalPacketsSent", "GetEnabledForInternet")]
    elif ty == T_L3F:
        acts = list(L3F_STD)
        if variant == "reduced":
            acts = [a for a in acts if a != "SetDefaultConnectionService"]
    else:
        acts = []
    return acts


# ---------------------------------------------------------------------------------------------------------------
# gateway documents

def scpd_xml(actions: List[str]) -> str:
    out = ['<?xml version="1.0"?><scpd xmlns="urn:schemas-upnp-org:service-1-0"><specVersion><major>1</major>'
           '<minor>0</minor></specVersion><actionList>']
    svars: Dict[str, str] = {}
    for a in actions:
        out.append(f"<action><name>{a}</name><argumentList>")
        for n, d, t in ARGS[a]:
            sv = f"A_{n}_{t}"
            svars[sv] = t
            out.append(f"<argument><name>{n}</name><direction>{d}</direction><relatedStateVariable>{sv}"
                       f"</relatedStateVariable></argument>")
        out.append("</argumentList></action>")
    out.append("</actionList><serviceStateTable>")
    svars.setdefault("A_Dummy_string", "string")
    for sv, t in svars.items():
        out.append(f'<stateVariable sendEvents="no"><name>{sv}</name><dataType>{t}</dataType></stateVariable>')
    out.append("</serviceStateTable></scpd>")
    return "".join(out)


def device_xml(dev: dict, n: List[int]) -> str:
    n[0] += 1
    svcs = "".join(
        f"<service><serviceType>{s['ty']}</serviceType><serviceId>urn:upnp-org:serviceId:S{s['cid']}</serviceId>"
        f"<SCPDURL>/scpd/{s['cid']}.xml</SCPDURL><controlURL>/ctl/{s['cid']}</controlURL>"
        f"<eventSubURL>/evt/{s['cid']}</eventSubURL></service>" for s in dev["svcs"])
    subs = "".join(device_xml(d, n) for d in dev["subs"])
    return (f"<device><deviceType>{dev['dty']}</deviceType><friendlyName>D{n[0]}</friendlyName>"
            f"<manufacturer>M</manufacturer><modelName>X</modelName><UDN>uuid:0000-{n[0]}</UDN>"
            f"<serviceList>{svcs}</serviceList><deviceList>{subs}</deviceList></device>")


def all_svcs(dev: dict) -> List[dict]:
    out = list(dev["svcs"])
    for d in dev["subs"]:
        out += all_svcs(d)
    return out


BASE = "http://gw:1"


class GwRequester:
    """fake UpnpRequester: serves the description/SCPDs, answers control requests through `responder`"""

    def __init__(self, root: dict) -> None:
        self.files = {BASE + "/desc.xml": ('<?xml version="1.0"?><root xmlns="urn:schemas-upnp-org:device-1-0"><specVersion>'
                                           "<major>1</major><minor>0</minor></specVersion>" + device_xml(root, [0]) + "</root>")}
        self.svc_by_ctl: Dict[str, dict] = {}
        for s in all_svcs(root):
            self.files[f"{BASE}/scpd/{s['cid']}.xml"] = scpd_xml(s["acts"])
            self.svc_by_ctl[f"{BASE}/ctl/{s['cid']}"] = s
        self.posts: List[Tuple[int, str]] = []
        self.responder = default_responder
        self.fail_subscribe = False
        self.sids = itertools.count(1)

    async def async_http_request(self, method, url, headers=None, body=None):
        await asyncio.sleep(0)
        if method == "GET":
            return 200, {}, self.files[url]
        if method == "SUBSCRIBE":
            if self.fail_subscribe:
                from async_upnp_client.exceptions import UpnpConnectionError
                raise UpnpConnectionError("scripted: device offline during renewal")
            return 200, {"sid": f"uuid:sid-{next(self.sids)}", "timeout": "Second-1800"}, ""
        if method == "UNSUBSCRIBE":
            return 200, {}, ""
        svc = self.svc_by_ctl[url]
        action = (headers or {}).get("SOAPAction", "").strip('"').split("#")[-1]
        self.posts.append((svc["cid"], action))
        return self.responder(svc, action)


def out_value(cid: int, arg: str, dtype: str) -> str:
    if arg in ("NewInternalClient", "NewExternalIPAddress"):
        return f"10.0.{cid}.7"
    if arg == "NewRemoteHost":
        return "" if cid % 2 else f"192.0.2.{cid}"
    if dtype == "boolean":
        return "1" if (cid + len(arg)) % 2 else "0"
    if dtype in ("ui2", "ui4"):
        return str(100 * cid + len(arg))
    return f"{arg}-{cid}"


def soap_ok(svc_type: str, action: str, args: List[Tuple[str, str]]) -> str:
    inner = "".join(f"<{n}>{v}</{n}>" for n, v in args)
    return ('<?xml version="1.0"?><s:Envelope xmlns:s="http://schemas.xmlsoap.org/soap/envelope/" '
            's:encodingStyle="http://schemas.xmlsoap.org/soap/encoding/"><s:Body>'
            f'<u:{action}Response xmlns:u="{svc_type}">{inner}</u:{action}Response></s:Body></s:Envelope>')


SOAP_FAULT = ('<?xml version="1.0"?><s:Envelope xmlns:s="http://schemas.xmlsoap.org/soap/envelope/"><s:Body><s:Fault>'
              "<faultcode>s:Client</faultcode><faultstring>UPnPError</faultstring><detail>"
              '<UPnPError xmlns="urn:schemas-upnp-org:control-1-0"><errorCode>501</errorCode>'
              "<errorDescription>Action Failed</errorDescription></UPnPError></detail></s:Fault></s:Body></s:Envelope>")


def default_responder(svc: dict, action: str):
    args = [(n, out_value(svc["cid"], n, t)) for n, d, t in ARGS[action] if d == "out"]
    return 200, {}, soap_ok(svc["ty"], action, args)


# ---------------------------------------------------------------------------------------------------------------
# facade calls: arguments and the expected typed value (from what the fake served)

def call_args(method: str) -> dict:
    from ipaddress import IPv4Address
    key = dict(remote_host=IPv4Address("192.0.2.9"), external_port=8080, protocol="TCP")
    return {
        "async_set_enabled_for_internet": dict(enabled=True),
        "async_get_generic_port_mapping_entry": dict(port_mapping_index=1),
        "async_get_specific_port_mapping_entry": key,
        "async_add_port_mapping": dict(**key, internal_port=80, internal_client=IPv4Address("10.0.0.5"), enabled=True,
                                       description="d", lease_duration=timedelta(seconds=60)),
        "async_delete_port_mapping": key,
        "async_set_connection_type": dict(connection_type="IP_Routed"),
        "async_set_default_connection_service": dict(service="x"),
    }.get(method, {})


def expected_value(method: str, action: str, cid: int) -> Any:
    from ipaddress import IPv4Address

    from async_upnp_client.profiles import igd
    v = {n: out_value(cid, n, t) for n, d, t in ARGS[action] if d == "out"}
    i = lambda n: int(v[n])  # noqa: E731
    b = lambda n: v[n] == "1"  # noqa: E731
    lease = lambda: timedelta(seconds=i("NewLeaseDuration")) if i("NewLeaseDuration") else None  # noqa: E731
    if method.startswith("async_get_total_"):
        return i(next(iter(v)))
    if method == "async_get_enabled_for_internet":
        return b("NewEnabledForInternet")
    if method == "async_get_common_link_properties":
        return igd.CommonLinkProperties(v["NewWANAccessType"], i("NewLayer1UpstreamMaxBitRate"),
                                        i("NewLayer1DownstreamMaxBitRate"), v["NewPhysicalLinkStatus"])
    if method == "async_get_external_ip_address":
        return v["NewExternalIPAddress"]
    if method == "async_get_generic_port_mapping_entry":
        return igd.PortMappingEntry(IPv4Address(v["NewRemoteHost"]) if v["NewRemoteHost"] else None, i("NewExternalPort"),
                                    v["NewProtocol"], i("NewInternalPort"), IPv4Address(v["NewInternalClient"]),
                                    b("NewEnabled"), v["NewPortMappingDescription"], lease())
    if method == "async_get_specific_port_mapping_entry":
        return igd.PortMappingEntry(IPv4Address("192.0.2.9"), 8080, "TCP", i("NewInternalPort"),
                                    IPv4Address(v["NewInternalClient"]), b("NewEnabled"), v["NewPortMappingDescription"], lease())
    if method == "async_get_connection_type_info":
        return igd.ConnectionTypeInfo(v["NewConnectionType"], v["NewPossibleConnectionTypes"])
    if method == "async_get_status_info":
        return igd.StatusInfo(v["NewConnectionStatus"], v["NewLastConnectionError"], i("NewUptime"))
    if method == "async_get_port_mapping_number_of_entries":
        return i("NewPortMappingNumberOfEntries")
    if method == "async_get_nat_rsip_status":
        return igd.NatRsipStatusInfo(b("NewNATEnabled"), b("NewRSIPAvailable"))
    if method == "async_get_default_connection_service":
        return v["NewDefaultConnectionService"]
    return None


def type_token(x: Any) -> str:
    if isinstance(x, tuple) and hasattr(x, "_fields"):
        return f"{type(x).__name__}({','.join(type(f).__name__ for f in x)})"
    return "None" if x is None else type(x).__name__


# ---------------------------------------------------------------------------------------------------------------
# gateways

def make_gateway(types: List[str], placement: str, variant: str, omit: Optional[Dict[str, List[str]]] = None) -> dict:
    """device tree (dicts) offering `types`; cids are assigned in document order.  `omit` (service type -> actions)
    removes actions from that service's SCPD: real gateways ship SCPDs that leave actions out."""
    cid = itertools.count(1)
    omit = omit or {}
    mk = lambda ty: {"ty": ty, "cid": next(cid),  # noqa: E731
                     "acts": [a for a in std_actions(ty, variant) if a not in omit.get(ty, ())]}
    conn = [t for t in types if t in (T_IP1, T_IP2, T_PPP)]
    cic = [t for t in types if t == T_CIC]
    l3f = [t for t in types if t == T_L3F]
    if placement == "root":       # everything on the IGD device itself
        return {"dty": D_IGD, "svcs": [mk(t) for t in types], "subs": []}
    if placement == "standard":   # Layer3Forwarding on the root, WANCIC on WANDevice, connections on WANConnectionDevice
        wcd = {"dty": D_WCD, "svcs": [mk(t) for t in conn], "subs": []}
        wan = {"dty": D_WAN, "svcs": [mk(t) for t in cic], "subs": [wcd]}
        return {"dty": D_IGD, "svcs": [mk(t) for t in l3f], "subs": [wan]}
    if placement == "wan":        # everything on one embedded WAN device
        wan = {"dty": D_WAN, "svcs": [mk(t) for t in types], "subs": []}
        return {"dty": D_IGD2, "svcs": [], "subs": [wan]}
    if placement == "nested":     # the IGD device is itself embedded; the outer device's decoy service is out of reach
        wan = {"dty": D_WAN, "svcs": [mk(t) for t in cic + conn], "subs": []}
        igdd = {"dty": D_IGD, "svcs": [mk(t) for t in l3f], "subs": [wan]}
        return {"dty": D_BASIC, "svcs": [{"ty": T_L3F, "cid": next(cid), "acts": std_actions(T_L3F, variant)}] if not l3f else [],
                "subs": [igdd]}
    raise ValueError(placement)


def gateway_lines(root: dict) -> List[str]:
    from async_upnp_client.profiles.igd import IgdDevice
    lines = [f"order {alias} {','.join(list(tys))}" for alias, tys in IgdDevice._SERVICE_TYPES.items()]
    idx = itertools.count(0)

    def walk(dev: dict, parent: Optional[int]) -> None:
        me = next(idx)
        lines.append(f"dev {me} {'-' if parent is None else parent} {dev['dty']}")
        for s in dev["svcs"]:
            lines.append(f"svc {me} {s['ty']} {s['cid']} {','.join(s['acts']) or '~'}")
        for d in dev["subs"]:
            walk(d, me)
    walk(root, None)
    return lines


_LOOP = None


def run(coro):
    global _LOOP
    if _LOOP is None or _LOOP.is_closed():
        _LOOP = asyncio.new_event_loop()
    return _LOOP.run_until_complete(coro)


async def build_profile(root: dict):
    import logging
    logging.getLogger("async_upnp_client").setLevel(logging.CRITICAL)
    from async_upnp_client.client_factory import UpnpFactory
    from async_upnp_client.profiles.igd import IgdDevice
    req = GwRequester(root)
    device = await UpnpFactory(req).async_create_device(BASE + "/desc.xml")
    from async_upnp_client.event_handler import UpnpEventHandler
    try:
        prof = IgdDevice(device, UpnpEventHandler(FakeNotifyServer(), req))  # type: ignore[arg-type]
    except Exception as e:  # noqa: BLE001
        from harness.common import exc_token
        return req, None, exc_token(e)
    return req, prof, "ok"


class FakeNotifyServer:
    callback_url = "http://192.0.2.1:8000/notify"

    async def async_start_server(self) -> None:
        pass

    async def async_stop_server(self) -> None:
        pass


def apply_state(prof, req, step: str) -> str:
    """state that must not influence routing or the counters: availability flag, subscription history,
    earlier failed calls.  Returns a short description for the case lines."""
    from async_upnp_client.exceptions import UpnpConnectionError
    dev = prof.profile_device
    if step in ("avail:F", "avail:T"):
        dev.available = step.endswith("T")
    elif step == "renewal-fail":
        # subscribe, one renewal fails with a transport error (the profile marks the device unavailable),
        # then a successful re-subscribe
        try:
            run(prof.async_subscribe_services())
            req.fail_subscribe = True
            run(prof._async_resubscribe_services(notify_errors=True))
            req.fail_subscribe = False
            run(prof.async_subscribe_services())
        except Exception as e:  # noqa: BLE001
            req.fail_subscribe = False
            return f"{step} exc={type(e).__name__} available={'T' if dev.available else 'F'}"
    elif step == "unsubscribe":
        run(prof.async_unsubscribe_services())
    elif step in ("fault-call", "transport-call"):
        saved = req.responder

        def bad(svc, action):
            if step == "fault-call":
                return 500, {}, SOAP_FAULT
            raise UpnpConnectionError("scripted transport error")
        req.responder = bad
        for m in ("async_get_external_ip_address", "async_get_enabled_for_internet", "async_get_default_connection_service"):
            try:
                run(getattr(prof, m)())
            except Exception:  # noqa: BLE001
                pass
        req.responder = saved
    elif step.startswith("call:"):
        saved = req.responder
        req.responder = default_responder
        try:
            run(getattr(prof, step[5:])(**call_args(step[5:])))
        except Exception:  # noqa: BLE001
            pass
        req.responder = saved
    else:
        return f"unknown-{step}"
    return f"{step} available={'T' if dev.available else 'F'} subscribed={'T' if prof.is_subscribed else 'F'}"


def facade_methods() -> List[str]:
    """public coroutine methods defined on IgdDevice itself (the operations of the facade)"""
    import inspect

    from async_upnp_client.profiles.igd import IgdDevice
    return [n for n, f in vars(IgdDevice).items() if n.startswith("async_") and inspect.iscoroutinefunction(f)
            and n != "async_get_traffic_and_status_data"]


# ---------------------------------------------------------------------------------------------------------------
# routing cases

def run_routing(ctx: Ctx, recipe: Dict[str, Any], cid: str) -> Case:
    from harness.common import exc_token
    root = make_gateway(recipe["types"], recipe["placement"], recipe["variant"], recipe.get("omit"))
    lines = gateway_lines(root)
    tags = {f"place:{recipe['placement']}", f"variant:{recipe['variant']}", f"nsvc:{len(recipe['types'])}"}
    if recipe.get("omit"):
        tags.add("scpd:omits-actions")
    req, prof, res = run(build_profile(root))
    lines.append(f"profile {res}")
    nontrivial = False
    if prof is not None:
        methods = facade_methods()
        for m in recipe["ops"]:
            if isinstance(m, str) and m.startswith("@"):
                lines.append("state " + apply_state(prof, req, m[1:]))
                tags.add("state:" + m[1:].split(":")[0])
                continue
            if m not in methods:
                continue
            req.posts.clear()
            try:
                val = run(getattr(prof, m)(**call_args(m)))
                exc = None
            except Exception as e:  # noqa: BLE001
                val, exc = None, exc_token(e)
            sent = [c for c, _ in req.posts]
            if exc is not None:
                lines.append(f"call {m} sent={','.join(map(str, sent)) or '~'} na=F rtype=EXC:{exc} val=BAD")
                tags.add("call:exc")
                continue
            na = (val is None and not sent)
            vok = "ok"
            if sent:
                nontrivial = True
                c0, act = req.posts[0]
                if val != expected_value(m, act, c0) or any(a != act for _, a in req.posts):
                    vok = "BAD"
            lines.append(f"call {m} sent={','.join(map(str, sent)) or '~'} na={'T' if na else 'F'} rtype={type_token(val)} val={vok}"
                         f" acts={','.join(a for _, a in req.posts) or '~'}")
            tags.add("call:na" if na else "call:sent")
        # the caller's own alias list (`services=[...]`) on the methods that accept one
        import inspect
        for m, aliases in recipe.get("explicit", []):
            if m not in methods or "services" not in inspect.signature(getattr(prof, m)).parameters:
                continue
            req.posts.clear()
            try:
                val = run(getattr(prof, m)(**call_args(m), services=list(aliases)))
                exc = None
            except Exception as e:  # noqa: BLE001
                val, exc = None, exc_token(e)
            sent = [c for c, _ in req.posts]
            na = (exc is None and val is None and not sent)
            lines.append(f"callx {m} {','.join(aliases) or '~'} sent={','.join(map(str, sent)) or '~'} na={'T' if na else 'F'}"
                         f" exc={exc or '-'}")
            tags.add("callx:na" if na else "callx:sent")
    return Case(cid, lines, recipe, nontrivial, sorted(tags))


# ---------------------------------------------------------------------------------------------------------------
# counter series

EXC_ID = {"UpnpActionResponseError": 1, "UpnpConnectionError": 2, "UpnpResponseError": 3, "UpnpXmlParseError": 4}
COUNTER_ACTIONS = ["GetTotalBytesReceived", "GetTotalBytesSent", "GetTotalPacketsReceived", "GetTotalPacketsSent",
                   "GetStatusInfo", "GetExternalIPAddress"]


def exc_id(e: BaseException) -> int:
    return EXC_ID.get(type(e).__name__, 99)


def val_token(v: Any) -> str:
    if v is None:
        return "none"
    if isinstance(v, BaseException):
        return f"exc:{exc_id(v)}"
    if isinstance(v, bool):
        return "bool"
    if isinstance(v, int):
        return f"int:{v}"
    # "a value" (status info tuple / address string): it must be the one the gateway served
    from async_upnp_client.profiles.igd import StatusInfo
    if v == StatusInfo("Connected", "ERROR_NONE", 12) or v == "198.51.100.4":
        return "int:0"
    return f"BAD:{type(v).__name__}"


def rate_token(x: Any) -> str:
    if x is None:
        return "none"
    num, den = float(x).as_integer_ratio()
    return f"{num}/{den}"


def raw_response(svc: dict, action: str, raw: str):
    """the gateway's answer to one reading, scripted by `raw`"""
    from async_upnp_client.exceptions import UpnpConnectionError
    kind = raw.split(":")[0]
    if kind == "ok":
        n = raw.split(":")[1]
        if action == "GetStatusInfo":
            args = [("NewConnectionStatus", "Connected"), ("NewLastConnectionError", "ERROR_NONE"), ("NewUptime", "12")]
        elif action == "GetExternalIPAddress":
            args = [("NewExternalIPAddress", "198.51.100.4")]
        else:
            args = [(ARGS[action][0][0], n)]
        return 200, {}, soap_ok(svc["ty"], action, args)
    if kind == "absent":
        if action == "GetStatusInfo":   # unparsable uptime: the facade's documented "None" path
            args = [("NewConnectionStatus", "Connected"), ("NewLastConnectionError", "ERROR_NONE"), ("NewUptime", "soon")]
            return 200, {}, soap_ok(svc["ty"], action, args)
        return 200, {}, soap_ok(svc["ty"], action, [])
    f = int(raw.split(":")[1])
    if f == 1:
        return 500, {}, SOAP_FAULT
    if f == 2:
        raise UpnpConnectionError("scripted transport error")
    if f == 3:
        return 503, {}, "busy"
    return 200, {}, "<s:Envelope"  # f == 4: not XML


def run_series(ctx: Ctx, recipe: Dict[str, Any], cid: str) -> Case:
    import datetime as _dt

    from async_upnp_client.profiles import igd
    root = make_gateway(recipe["types"], recipe["placement"], recipe["variant"], recipe.get("omit"))
    lines = gateway_lines(root)
    tags = {f"series:len{sum(1 for o in recipe['ops'] if not isinstance(o, str))}", f"series:cfg{len(recipe['types'])}"}
    real_dt = igd.datetime
    epoch = _dt.datetime(2024, 1, 1)
    clock = {"t": int(recipe["t0"])}

    class FakeDT(_dt.datetime):
        @classmethod
        def now(cls, tz=None):  # type: ignore[override]
            return cls(2024, 1, 1) + _dt.timedelta(microseconds=clock["t"])

    nontrivial = False
    igd.datetime = FakeDT  # type: ignore[attr-defined]
    try:
        req, prof, res = run(build_profile(root))
        lines.append(f"profile {res}")
        if prof is None:
            return Case(cid, lines, recipe, False, sorted(tags))
        lines.append(f"t0 {clock['t']}")
        prev_vals, prev_t = None, clock["t"]
        for op in recipe["ops"]:
            if isinstance(op, str):
                if op.startswith("@"):
                    lines.append("state " + apply_state(prof, req, op[1:]))
                    tags.add("state:" + op[1:].split(":")[0])
                continue
            t, raws = int(op[0]), list(op[1])
            lat = dict(zip(COUNTER_ACTIONS, (list(op[2]) if len(op) > 2 else []) + [0] * 6))
            clock["t"] = t
            script = dict(zip(COUNTER_ACTIONS, raws))

            def slow(svc, action, script=script, lat=lat):
                # a slow gateway: the (patched) clock moves on while the reading is under way, also when it fails.
                # The sample's timestamp is the one the poll started with (reported in IgdState, checked by the driver);
                # rates are judged against the reported timestamps of consecutive states.
                clock["t"] += lat[action]
                return raw_response(svc, action, script[action])
            req.responder = slow
            if any(lat.values()):
                tags.add("latency:some")
            lines.append(f"sample {t} {' '.join(raws)}")
            for r in raws:
                tags.add("raw:" + (r if not r.startswith("ok") else ("ok-neg" if r.startswith("ok:-") else "ok")))
            try:
                st = run(prof.async_get_traffic_and_status_data())
            except Exception as e:  # noqa: BLE001
                lines.append(f"out raised:{exc_id(e)}")
                tags.add("out:raised")
                continue
            ts = (st.timestamp - epoch) // _dt.timedelta(microseconds=1)
            vals = [st.bytes_received, st.bytes_sent, st.packets_received, st.packets_sent, st.status_info, st.external_ip_address]
            rates = [st.kibibytes_per_sec_received, st.kibibytes_per_sec_sent, st.packets_per_sec_received, st.packets_per_sec_sent]
            lines.append(f"out ts:{ts} {' '.join(val_token(v) for v in vals)} {' '.join(rate_token(x) for x in rates)}")
            if any(x is not None for x in rates):
                tags.add("rate:present")
                nontrivial = True
                # measured distance of the float from the exact quotient (design/C20.md, "float rates")
                for k, x in enumerate(rates if cid.endswith(("0", "5")) else []):   # a fifth of the series
                    pv = prev_vals[k] if prev_vals else None
                    if x is not None and isinstance(pv, int) and isinstance(vals[k], int) and vals[k] > pv:
                        exact = Fraction((vals[k] - pv) * 10**6, (1024 if k < 2 else 1) * (t - prev_t))
                        rel = abs(Fraction(x) - exact) / exact
                        tags.add("relerr:0" if rel == 0 else "relerr:<=2^-53" if rel <= Fraction(1, 2**53)
                                 else "relerr:<=2^-52" if rel <= Fraction(1, 2**52) else "relerr:<=2^-51" if rel <= Fraction(1, 2**51)
                                 else "relerr:>2^-51")
            prev_vals, prev_t = vals, t
            if any(isinstance(v, BaseException) for v in vals):
                tags.add("out:partial-failure")
                nontrivial = True
    finally:
        igd.datetime = real_dt  # type: ignore[attr-defined]
    return Case(cid, lines, recipe, nontrivial, sorted(tags))


def run_recipe(ctx: Ctx, recipe: Dict[str, Any], cid: str) -> Case:
    if recipe.get("kind") == "series":
        return run_series(ctx, recipe, cid)
    return run_routing(ctx, recipe, cid)


# ---------------------------------------------------------------------------------------------------------------
# generators

def gen_reading(rng: random.Random, cur: List[int], i: int) -> str:
    """next scripted answer for counter i; `cur[i]` is the gateway's running 32-bit counter"""
    c = rng.randrange(0, 20)
    if c < 8:      # increasing
        cur[i] += rng.choice([0, 1, 1023, 1024, 1025, rng.randrange(0, 10**6), rng.randrange(0, 2**31)])
    elif c < 10:   # equal
        pass
    elif c < 12:   # wrapped
        cur[i] = rng.randrange(0, max(1, min(cur[i], 2**20)))
    elif c < 15:   # negative 32-bit (signed view of a counter beyond 2^31)
        return f"ok:{rng.choice([-1, -2**31, -2**31 + rng.randrange(0, 2**31), -rng.randrange(1, 10**6)])}"
    elif c < 16:
        return "absent"
    else:
        return f"fail:{rng.choice([1, 1, 2, 2, 3, 4])}"
    cur[i] = min(cur[i], 2**32 - 1)
    return f"ok:{cur[i]}"


def gen_series(rng: random.Random, n: int) -> List[Any]:
    cur = [rng.choice([0, 5, 2**31 - 10, 2**32 - 2000, rng.randrange(0, 2**32)]) for _ in range(4)]
    t = 0
    ops = []
    allfail = rng.randrange(0, 12) == 0
    spent = 0
    for k in range(n):
        t += spent + rng.choice([1, 999, 1000, 10**6, 30 * 10**6, rng.randrange(1, 10**9), 86400 * 10**6 + 1])
        # per-reading latency of the gateway (microseconds): none, small, large, different per counter
        lat = [rng.choice([0, 0, 1, 250, 40000, 3 * 10**6, 45 * 10**6]) for _ in range(6)] if rng.randrange(3) else [0] * 6
        spent = sum(lat)
        raws = [gen_reading(rng, cur, i) for i in range(4)]
        raws.append(rng.choice(["ok:0", "ok:0", "ok:0", "absent", "fail:1", "fail:2"]))
        raws.append(rng.choice(["ok:0", "ok:0", "ok:0", "absent", "fail:1", "fail:2"]))
        if allfail and k == n // 2:
            raws = [f"fail:{rng.choice([1, 2, 3, 4])}" for _ in range(6)]
        ops.append([t, raws, lat])
    return ops


def exh_series(counter: int, seq) -> List[Any]:
    """one counter follows `seq` (reading kinds), the other readings grow steadily"""
    cur = 2**31 - 3000
    ops = []
    for k, kind in enumerate(seq):
        raws = [f"ok:{1000 * (k + 1) + j}" for j in range(4)] + ["ok:0", "ok:0"]
        if kind == "inc":
            cur += 2048
            raws[counter] = f"ok:{cur}"
        elif kind == "eq":
            raws[counter] = f"ok:{cur}"
        elif kind == "wrap":
            cur = cur // 3
            raws[counter] = f"ok:{cur}"
        elif kind == "neg":
            cur = (cur + 2**31 + 5) % 2**32
            raws[counter] = f"ok:{cur - 2**32 if cur >= 2**31 else -1 - k}"
        else:
            raws[counter] = "fail:1" if kind == "fault" else "fail:2"
        ops.append([(k + 1) * 2 * 10**6, raws])
    return ops


STATE_STEPS = ["@avail:F", "@avail:T", "@renewal-fail", "@unsubscribe", "@fault-call", "@transport-call"]

SERIES_CFGS = [
    ([T_IP1, T_CIC, T_L3F], "standard", "std"),
    ([T_PPP, T_CIC], "standard", "std"),
    ([T_IP2, T_PPP, T_CIC], "root", "vendor"),
    ([T_IP1], "wan", "std"),                 # no WANCIC: every counter "not available"
    ([T_CIC], "standard", "reduced"),        # no connection service, packets-sent not defined
    ([T_IP1, T_IP2, T_CIC], "nested", "reduced"),
]

CORPUS = [
    # slow gateway: the clock moves during the poll; elapsed time is between the reported (poll start) timestamps
    {"kind": "series", "types": [T_IP1, T_CIC], "placement": "standard", "variant": "std", "t0": 0,
     "ops": [[1000000, ["ok:1000", "ok:2000", "ok:30", "ok:40", "ok:0", "ok:0"], [500000, 0, 2000000, 0, 0, 1000000]],
             [11000000, ["ok:11240", "ok:2000", "ok:130", "ok:40", "fail:1", "ok:0"], [0, 3000000, 0, 0, 250, 0]],
             [21000000, ["ok:21480", "ok:4048", "ok:230", "ok:45", "ok:0", "ok:0"]]]},
    # the first offered service of the alias list lacks the action, the next alias's service defines it (and vice versa)
    {"kind": "routing", "types": [T_IP1, T_PPP], "placement": "standard", "variant": "std",
     "omit": {T_IP1: ["GetNATRSIPStatus", "GetGenericPortMappingEntry"]},
     "ops": ["async_get_nat_rsip_status", "async_get_generic_port_mapping_entry", "async_get_external_ip_address"]},
    {"kind": "routing", "types": [T_IP2, T_PPP], "placement": "root", "variant": "std",
     "omit": {T_PPP: ["GetNATRSIPStatus"], T_IP2: ["GetStatusInfo"]},
     "ops": ["async_get_nat_rsip_status", "async_get_status_info"]},
    # F20b: both versions of WANIPConnection offered, an optional action implemented by one of them only
    {"kind": "routing", "types": [T_IP1, T_IP2], "placement": "standard", "variant": "opt-v1",
     "ops": ["async_request_termination", "async_get_port_mapping_number_of_entries", "async_get_external_ip_address"]},
    {"kind": "routing", "types": [T_IP1, T_IP2], "placement": "standard", "variant": "opt-v2",
     "ops": ["async_request_termination", "async_get_port_mapping_number_of_entries", "async_get_external_ip_address"]},
    # F20a: PPP-only gateway, connection-level operations
    {"kind": "routing", "types": [T_PPP], "placement": "standard", "variant": "std",
     "ops": ["async_get_external_ip_address", "async_get_status_info", "async_add_port_mapping"]},
    {"kind": "series", "types": [T_PPP, T_CIC], "placement": "standard", "variant": "std", "t0": 0,
     "ops": [[1000000, ["ok:10", "ok:20", "ok:30", "ok:40", "ok:0", "ok:0"]],
             [3000000, ["ok:2058", "ok:20", "ok:5", "ok:-5", "ok:0", "fail:1"]],
             [4000000, ["fail:1", "fail:2", "fail:3", "fail:4", "fail:1", "fail:2"]],
             [5000000, ["ok:-2147483648", "absent", "ok:7", "ok:-4", "absent", "ok:0"]]]},
]


def _chunk(args):
    """worker: run a list of (recipe, cid) and return the cases"""
    from vk.core import activate_repo
    recipes, prop, tier, seed = args
    activate_repo()
    ctx = Ctx(prop, tier, seed, None, 0)  # type: ignore[arg-type]
    return [run_recipe(ctx, r, c) for r, c in recipes]


def generate(ctx: Ctx) -> List[Case]:
    jobs: List[Tuple[dict, str]] = []
    i = 0
    for rec in CORPUS:
        jobs.append((rec, f"corpus{i}"))
        i += 1
    from harness import c20 as _self  # noqa: F401
    methods = None
    # routing: all 32 subsets x placements x variants x every facade operation
    for r in range(0, 6):
        for subset in itertools.combinations(FIVE, r):
            for placement in ("root", "standard", "wan", "nested"):
                for variant in ("std", "vendor", "reduced", "opt-v1", "opt-v2"):
                    if variant == "reduced" and placement in ("wan",):
                        continue
                    if variant.startswith("opt-") and not (T_IP1 in subset and T_IP2 in subset and placement in ("standard", "root")):
                        continue
                    explicit = []
                    if variant == "std" and placement in ("standard", "root"):
                        for m in ("async_get_external_ip_address", "async_add_port_mapping", "async_get_status_info"):
                            for al in (["WANPPPC"], ["WANIPC"], ["WANPPPC", "WANIPC"], ["NOPE", "WANCIC"], [], ["WANPPP"]):
                                explicit.append([m, al])
                    jobs.append(({"kind": "routing", "types": list(subset), "placement": placement, "variant": variant,
                                  "ops": "ALL", "explicit": explicit}, f"g{i}"))
                    i += 1
    # SCPDs that omit actions.  Exhaustive-small: for every facade action of a family, every way two offered
    # services of the family (or the single common-interface / forwarding service) define it or not
    conn_acts = [a for a in CONN_STD if a != "GetAutoDisconnectTime"]
    for pair in ([T_IP1, T_PPP], [T_IP2, T_PPP], [T_IP1, T_IP2]):
        for act in conn_acts:
            for lack in ([pair[0]], [pair[1]], pair):
                for placement in (("standard", "root") if ctx.thorough else ("standard",)):
                    jobs.append(({"kind": "routing", "types": pair + [T_CIC], "placement": placement, "variant": "std",
                                  "omit": {t: [act] for t in lack}, "ops": "ALL"}, f"o{i}"))
                    i += 1
    for act in [a for a in CIC_STD if a != "GetActiveConnection"] + L3F_STD:
        ty = T_CIC if act in CIC_STD else T_L3F
        for placement in ("standard", "wan"):
            jobs.append(({"kind": "routing", "types": [T_IP1, T_CIC, T_L3F], "placement": placement, "variant": "std",
                          "omit": {ty: [act]}, "ops": "ALL"}, f"o{i}"))
            i += 1
    # random: every service keeps an arbitrary subset of its standard actions
    for _ in range(3000 if ctx.thorough else 150):
        types = [t for t in FIVE if ctx.rng.randrange(4)]
        omit = {t: [a for a in std_actions(t, "vendor") if ctx.rng.randrange(3) == 0] for t in types}
        jobs.append(({"kind": "routing", "types": types, "placement": ctx.rng.choice(["root", "standard", "wan", "nested"]),
                      "variant": "vendor", "omit": omit, "ops": "ALL"}, f"o{i}"))
        i += 1
    # state that must not matter: availability flag, failed renewal + re-subscribe, earlier failed calls, repeated calls
    for r in range(0, 6):
        for subset in itertools.combinations(FIVE, r):
            if ctx.thorough or len(subset) in (1, 2, 5) or T_PPP in subset:
                jobs.append(({"kind": "routing", "types": list(subset), "placement": "standard" if r % 2 else "root",
                              "variant": "std", "ops": "STATEFUL"}, f"t{i}"))
                i += 1
    for _ in range(1500 if ctx.thorough else 60):
        types = [t for t in FIVE if ctx.rng.randrange(4)]
        omit = {t: [a for a in std_actions(t, "vendor") if ctx.rng.randrange(4) == 0] for t in types}
        jobs.append(({"kind": "routing", "types": types, "placement": ctx.rng.choice(["root", "standard", "wan", "nested"]),
                      "variant": "vendor", "omit": omit, "ops": "RANDSTATE", "opseed": ctx.rng.randrange(2**30)}, f"t{i}"))
        i += 1
    # exhaustive: every series of length <= k over the six reading kinds on one counter (others steady)
    kinds = ["inc", "eq", "wrap", "neg", "fault", "transport"]
    depth = 4 if ctx.thorough else 3
    for counter in (range(4) if ctx.thorough else [0, 3]):
        for n in range(1, depth + 1):
            for seq in itertools.product(kinds, repeat=n):
                jobs.append(({"kind": "series", "types": [T_IP1, T_CIC], "placement": "standard", "variant": "std", "t0": 0,
                              "ops": exh_series(counter, seq)}, f"x{i}"))
                i += 1
    n_series = 50000 if ctx.thorough else 1500
    for _ in range(n_series):
        types, placement, variant = ctx.rng.choice(SERIES_CFGS)
        n = ctx.rng.randrange(1, 7)
        ops = gen_series(ctx.rng, n)
        if ctx.rng.randrange(3) == 0:   # state between polls that must not reach the counters
            for _k in range(ctx.rng.randrange(1, 4)):
                ops.insert(ctx.rng.randrange(0, len(ops) + 1),
                           ctx.rng.choice(STATE_STEPS + ["@call:async_get_nat_rsip_status", "@call:async_get_common_link_properties"]))
        jobs.append(({"kind": "series", "types": types, "placement": placement, "variant": variant, "t0": 0,
                      "ops": ops}, f"s{i}"))
        i += 1
    methods = facade_methods()
    stateful = (list(methods) + ["@avail:F"] + list(methods) + ["@renewal-fail"] + list(methods)
                + ["@fault-call", "@transport-call"] + list(methods) + ["@avail:T", "@unsubscribe"] + list(methods[:8]))
    for rec, _ in jobs:
        if rec.get("ops") == "ALL":
            rec["ops"] = list(methods)
        elif rec.get("ops") == "STATEFUL":
            rec["ops"] = list(stateful)
        elif rec.get("ops") == "RANDSTATE":
            r = random.Random(rec.pop("opseed"))
            ops = []
            for _ in range(40):
                ops.append(r.choice(STATE_STEPS) if r.randrange(4) == 0 else r.choice(methods))
            rec["ops"] = ops
    EXHAUSTIVE[ctx.tier] = False  # the configuration space is enumerated completely; the reading series are a sample
    if ctx.thorough and len(jobs) > 2000:
        nproc = min(16, os.cpu_count() or 2)
        size = 500
        chunks = [(jobs[k:k + size], ctx.prop, ctx.tier, ctx.seed) for k in range(0, len(jobs), size)]
        with multiprocessing.get_context("fork").Pool(nproc) as pool:
            parts = pool.map(_chunk, chunks)
        return [c for part in parts for c in part]
    return [run_recipe(ctx, r, c) for r, c in jobs]


def signature(case: Case, verdict) -> str:
    kind = (case.recipe or {}).get("kind", "?")
    return f"C20 {kind} types[{','.join(t.split(':')[-2] + t.split(':')[-1] for t in (case.recipe or {}).get('types', []))}] {verdict.notes[:300]}"
