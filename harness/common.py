"""Helpers shared by the per-property harnesses: hex line-protocol tokens, a virtual-time event
loop, fake requester / transport.  The real package is imported lazily (after vk.core.activate_repo)."""
from __future__ import annotations

import asyncio
import heapq
from typing import Any, Awaitable, Callable, Dict, List, Mapping, Optional, Tuple


# ---- line protocol (mirror of lean/Upnp/Proto.lean) ---------------------------------------------

def tok_bytes(b: bytes) -> str:
    return b.hex() if b else "-"


def tok_str(s: str) -> str:
    """hex of UTF-8 (surrogates are passed through so that any Python str can travel)"""
    return tok_bytes(s.encode("utf-8", "surrogatepass"))


def untok_bytes(t: str) -> bytes:
    return b"" if t == "-" else bytes.fromhex(t)


def untok_str(t: str) -> str:
    return untok_bytes(t).decode("utf-8", "surrogatepass")


def exc_token(e: BaseException) -> str:
    """canonical exception token: library classes by name, everything else RAW:<class>"""
    mod = type(e).__module__ or ""
    name = type(e).__name__
    return name if mod.startswith("async_upnp_client") else f"RAW:{name}"


# ---- virtual-time event loop ----------------------------------------------------------------------

class VirtualTimeLoop(asyncio.SelectorEventLoop):
    """`loop.time()` is a virtual clock that jumps to the next timer whenever nothing is ready, so
    hours of `asyncio.sleep` run in no wall time and timestamps are deterministic."""

    def __init__(self) -> None:
        super().__init__()
        self._vt = 0.0

    def time(self) -> float:  # type: ignore[override]
        return self._vt

    def advance_to(self, t: float) -> None:
        self._vt = max(self._vt, t)

    def _run_once(self) -> None:  # type: ignore[override]
        sched = self._scheduled  # type: ignore[attr-defined]
        while sched and sched[0]._cancelled:
            h = heapq.heappop(sched)
            h._scheduled = False
        if not self._ready and sched:  # type: ignore[attr-defined]
            self._vt = max(self._vt, sched[0]._when)
        super()._run_once()


class MicrosecondLoop(VirtualTimeLoop):
    """VirtualTimeLoop whose timer deadlines are snapped to whole microseconds, so that two timers computed
    by different float routes for the same instant (`call_later(delay)` vs `call_at(t)`) coincide and are
    popped in the same loop iteration; `round(loop.time() * 1e6)` is then an exact integer clock."""

    def call_at(self, when, callback, *args, context=None):  # type: ignore[override]
        return super().call_at(round(when * 1e6) / 1e6, callback, *args, context=context)


def run_virtual(coro_fn: Callable[[VirtualTimeLoop], Awaitable[Any]]) -> Any:
    """Run `coro_fn(loop)` to completion on a fresh VirtualTimeLoop and close it."""
    loop = VirtualTimeLoop()
    try:
        asyncio.set_event_loop(loop)
        return loop.run_until_complete(coro_fn(loop))
    finally:
        try:
            pending = [t for t in asyncio.all_tasks(loop) if not t.done()]
            for t in pending:
                t.cancel()
            if pending:
                loop.run_until_complete(asyncio.gather(*pending, return_exceptions=True))
        finally:
            asyncio.set_event_loop(None)
            loop.close()


async def settle(n: int = 20) -> None:
    """let every ready callback / task step run (no virtual time passes)"""
    for _ in range(n):
        await asyncio.sleep(0)


# ---- fakes ------------------------------------------------------------------------------------------

def make_headers(d: Mapping[str, str]):
    """response headers the way aiohttp returns them (case-insensitive multidict proxy)"""
    from multidict import CIMultiDict, CIMultiDictProxy

    return CIMultiDictProxy(CIMultiDict(d))


class ScriptedRequester:
    """UpnpRequester fake: `handler(request) -> (status, headers dict, body str) | raises`.
    Keeps a log of the requests seen (method, url, headers as dict, body)."""

    def __init__(self, handler: Callable[[Any], Any]) -> None:
        self.handler = handler
        self.log: List[Tuple[str, str, Dict[str, str], Optional[str]]] = []

    async def async_http_request(self, http_request):
        from async_upnp_client.client import HttpResponse

        self.log.append((http_request.method, http_request.url, dict(http_request.headers or {}), http_request.body))
        res = self.handler(http_request)
        if asyncio.iscoroutine(res) or isinstance(res, asyncio.Future):
            res = await res
        status, headers, body = res
        return HttpResponse(status, make_headers(headers), body)


class FakeTransport:
    """asyncio DatagramTransport fake recording sendto()"""

    def __init__(self, sockname=("192.168.1.2", 1900)) -> None:
        self.sent: List[Tuple[bytes, Any]] = []
        self._sockname = sockname
        self.closed = False

    def sendto(self, data: bytes, addr=None) -> None:
        self.sent.append((data, addr))

    def get_extra_info(self, name, default=None):
        if name == "sockname":
            return self._sockname
        if name == "socket":
            return FakeSocket(self._sockname, self)
        return default

    def close(self) -> None:
        self.closed = True

    def is_closing(self) -> bool:
        return self.closed


class FakeSocket:
    def __init__(self, sockname, transport: Optional[FakeTransport] = None) -> None:
        self._sockname = sockname
        self._t = transport
        self.sent: List[Tuple[bytes, Any]] = []
        import socket as _s
        self.family = _s.AF_INET6 if ":" in sockname[0] else _s.AF_INET

    def getsockname(self):
        return self._sockname

    def sendto(self, data, addr):
        self.sent.append((data, addr))
        if self._t is not None:
            self._t.sent.append((data, addr))
        return len(data)

    def close(self):
        pass
