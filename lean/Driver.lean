import Upnp.Drv.C16

def main (args : List String) : IO UInt32 :=
  match args with
  | ["C16"] => Upnp.Drv.C16.main
  | _ => do IO.eprintln "usage: driver <property-id>  (ops on stdin)"; return 2
