import Upnp.Proto
import Upnp.Props.C16
import Upnp.Drv.C16
