/-
  Line-protocol helpers shared by the C10 and C11 drivers (declarations, NOTIFY requests, variable
  observations).  Import-free apart from Proto / model files.
-/
import Upnp.Proto
import Upnp.Spec.C10
namespace Upnp.C10Proto
open Upnp Upnp.Proto Upnp.C09 Upnp.C10

def sOf (s : String) : Str := s.toList
def ofS (s : Str) : String := String.ofList s
def tokS (t : String) : Option Str := (tokStr t).map sOf
def tokOpt (t : String) : Option (Option Str) := if t = "!" then some none else (tokS t).map some
def sTok (s : Str) : String := strTok (ofS s)
def optTok : Option Str → String
  | none => "!"
  | some s => sTok s

/-! ### floats: exact ratios + the oracle table the harness declares (`fdecl …` lines, as in the C08 driver) -/

def Fl.le : Fl → Fl → Bool
  | .nan, _ => false
  | _, .nan => false
  | .inf true, _ => true
  | _, .inf false => true
  | .inf false, _ => false
  | _, .inf true => false
  | .fin n a b, .fin n' a' b' =>
      let x : Int := if n then -(Int.ofNat (a * b')) else Int.ofNat (a * b')
      let y : Int := if n' then -(Int.ofNat (a' * b)) else Int.ofNat (a' * b)
      x ≤ y

structure FTab where
  reprs : List (Fl × Str) := []
  parses : List (Str × Option Fl) := []

/-- what Python's `float(s)` / `repr(x)` gave for the strings / floats of this case -/
def FTab.oracle (t : FTab) : FloatOracle where
  ops :=
    { repr := fun x => match t.reprs.find? (·.1 == x) with
        | some p => p.2
        | none => "?undeclared-float".toList
      parse := fun s => match t.parses.find? (·.1 == s) with
        | some p => p.2
        | none => none
      le := Fl.le
      eq := fun a b => Fl.le a b && Fl.le b a }

def parseFl (t : String) : Option Fl :=
  if t = "nan" then some .nan
  else if t = "inf" then some (.inf false)
  else if t = "-inf" then some (.inf true)
  else
    let (neg, r) := if t.startsWith "-" then (true, (t.drop 1).toString) else (false, t)
    match r.splitOn "/" with
    | [a, b] => do let x ← a.toNat?; let y ← b.toNat?; pure (.fin neg x y)
    | _ => none

def fmtFl : Fl → String
  | .nan => "f:nan"
  | .inf n => if n then "f:-inf" else "f:inf"
  | .fin n a b => s!"f:{if n then "-" else ""}{a}/{b}"

/-- `fdecl parse <strhex> <ratio|!>` / `fdecl repr <ratio> <strhex>` (after the keyword) -/
def FTab.add (t : FTab) : List String → Option FTab
  | ["parse", s, r] => do
      let s ← tokS s
      let v ← if r = "!" then some none else (parseFl r).map some
      pure { t with parses := t.parses ++ [(s, v)] }
  | ["repr", f, s] => do pure { t with reprs := t.reprs ++ [((← parseFl f), (← tokS s))] }
  | _ => none

def optText (t : String) : Option (Option Str) := if t = "~" then some none else (tokS t).map some

/-- `decl <svc> <name> <dtype> <range 0|1> <min|~> <max|~> <allowed ~|[]|hex,hex…>` (after the keyword) -/
def parseDecl : List String → Option (Nat × Decl)
  | [svc, name, dt, rg, mn, mx, al] => do
      let i ← svc.toNat?; let name ← tokS name; let dt ← tokS dt
      let mn ← optText mn; let mx ← optText mx
      let al : Option (List Str) ←
        if al = "~" then some none else if al = "[]" then some (some []) else ((al.splitOn ",").mapM tokS).map some
      pure (i, { name := name, dtype := dt, range := if rg = "1" then some (mn, mx) else none, allowed := al })
  | _ => none

def addDecl (decls : List (List Decl)) (i : Nat) (d : Decl) : List (List Decl) :=
  let decls := if decls.length ≤ i then decls ++ List.replicate (i + 1 - decls.length) [] else decls
  modifyAt decls i (· ++ [d])

/-- body: `~` or elements joined by `;`, each `P|child,child…` / `X|…` / `P|` ; child = `ns:name:text` (hex) -/
def parseChild (t : String) : Option Child :=
  match t.splitOn ":" with
  | [a, b, c] => do pure { ns := (← tokS a), name := (← tokS b), text := (← tokS c) }
  | _ => none

def parseEl (t : String) : Option PropEl :=
  match t.splitOn "|" with
  | [k, cs] => do
      let children ← if cs = "" then some [] else (cs.splitOn ",").mapM parseChild
      pure { isProperty := k = "P", children := children }
  | _ => none

def parseBody (t : String) : Option Body :=
  if t = "~" then some [] else (t.splitOn ";").mapM parseEl

/-- `<nt|!> <nts|!> <sid|!> <body>` -/
def parseNotify : List String → Option Notify
  | [nt, nts, sid, body] => do
      let hdrs : NHeaders := { nt := (← tokOpt nt), nts := (← tokOpt nts), sid := (← tokOpt sid) }
      if body = "#" then pure { hdrs := hdrs, body := [], malformed := true }    -- a body that is not XML
      else pure { hdrs := hdrs, body := (← parseBody body) }
  | _ => none

def fmtNats (l : List Nat) : String := ".".intercalate (l.map toString)
def fmtOff : Option Int → String
  | none => ""
  | some o => s!"@{o}"

def fmtVal : Val → String
  | .none => "none"
  | .int i => s!"i:{i}"
  | .bool b => if b then "b:1" else "b:0"
  | .float f => fmtFl f
  | .str s => "s:" ++ sTok s
  | .date d => "d:" ++ fmtNats [d.y, d.m, d.d]
  | .datetime d t o => "dt:" ++ fmtNats [d.y, d.m, d.d, t.h, t.mi, t.s] ++ fmtOff o
  | .time t o => "t:" ++ fmtNats [t.h, t.mi, t.s] ++ fmtOff o

def splitOff (s : String) : Option (String × Option Int) :=
  match s.splitOn "@" with
  | [a] => some (a, none)
  | [a, o] => o.toInt?.map fun x => (a, some x)
  | _ => none

def parseNats (s : String) : Option (List Nat) := (s.splitOn ".").mapM (·.toNat?)

def parseVal (t : String) : Option Val :=
  if t = "none" then some .none
  else match t.splitOn ":" with
  | ["i", x] => x.toInt?.map .int
  | ["b", x] => if x = "1" then some (.bool true) else if x = "0" then some (.bool false) else none
  | ["f", x] => (parseFl x).map .float
  | ["s", x] => (tokS x).map .str
  | ["d", x] => match parseNats x with
      | some [y, m, d] => some (.date ⟨y, m, d⟩)
      | _ => none
  | ["dt", x] => do
      let (a, o) ← splitOff x
      match parseNats a with
      | some [y, m, d, h, mi, s] => some (.datetime ⟨y, m, d⟩ ⟨h, mi, s⟩ o)
      | _ => none
  | ["t", x] => do
      let (a, o) ← splitOff x
      match parseNats a with
      | some [h, mi, s] => some (.time ⟨h, mi, s⟩ o)
      | _ => none
  | _ => none

def fmtTick : Option Nat → String
  | none => "!"
  | some n => toString n

/-- `name=val=upd,…` -/
def fmtVarObs (l : List VarObs) : String :=
  if l.isEmpty then "~" else ",".intercalate (l.map fun o => s!"{sTok o.1}={fmtVal o.2.1}={fmtTick o.2.2}")

def parseVarObs (t : String) : Option (List VarObs) :=
  if t = "~" then some [] else
  (t.splitOn ",").mapM fun x => match x.splitOn "=" with
    | [a, b, c] => do
        let n ← tokS a; let v ← parseVal b
        let u ← if c = "!" then some none else c.toNat?.map some
        pure (n, v, u)
    | _ => none

/-- callbacks: `~` or name lists joined by `|`, names joined by `,` (`-` = the empty list) -/
def fmtEvents (l : List (List Str)) : String :=
  if l.isEmpty then "~" else "|".intercalate (l.map fun ns => if ns.isEmpty then "-" else ",".intercalate (ns.map sTok))

def parseEvents (t : String) : Option (List (List Str)) :=
  if t = "~" then some [] else
  (t.splitOn "|").mapM fun x => if x = "-" then some [] else (x.splitOn ",").mapM tokS

def fmtErr : Upnp.C08.Err → String
  | .valueError => "RAW:ValueError"
  | .typeError => "RAW:TypeError"
  | .indexError => "RAW:IndexError"
  | .attributeError => "RAW:AttributeError"
  | .unmodelled => "UNMODELLED"
  | .other => "OTHER"

def fmtNRes : NRes → String
  | .status n => s!"status {n}"
  | .keyError => "exc RAW:KeyError"
  | .raised e => s!"exc {fmtErr e}"
  | .parseError => "exc RAW:ParseError"

def parseNRes : List String → NRes
  | ["status", n] => .status n.toNat!
  | ["exc", "RAW:ParseError"] => .parseError
  | ["exc", "RAW:KeyError"] => .keyError
  | ["exc", "RAW:IndexError"] => .raised .indexError
  | ["exc", "RAW:TypeError"] => .raised .typeError
  | _ => .raised .other

end Upnp.C10Proto
