/-
  Line-protocol helpers shared by the C10 and C11 drivers (declarations, NOTIFY requests, variable
  observations).  Import-free apart from Proto / model files.
-/
import Upnp.Proto
import Upnp.Spec.C10
namespace Upnp.C10Proto
open Upnp Upnp.Proto Upnp.C09 Upnp.C10

def sOf (s : String) : Str := s.toList
def ofS (s : Str) : String := String.ofList s
def tokS (t : String) : Option Str := (tokStr t).map sOf
def tokOpt (t : String) : Option (Option Str) := if t = "!" then some none else (tokS t).map some
def sTok (s : Str) : String := strTok (ofS s)
def optTok : Option Str → String
  | none => "!"
  | some s => sTok s

def optInt (t : String) : Option (Option Int) := if t = "!" then some none else t.toInt?.map some

/-- `decl <svc> <name> <dtype> <min|!> <max|!> <allowed,…|~>` (after the keyword) -/
def parseDecl : List String → Option (Nat × Decl)
  | [svc, name, dt, mn, mx, al] => do
      let i ← svc.toNat?; let name ← tokS name; let dt ← tokS dt
      let mn ← optInt mn; let mx ← optInt mx
      let al ← if al = "~" then some [] else (al.splitOn ",").mapM tokS
      pure (i, { name := name, dtype := dt, min := mn, max := mx, allowed := al })
  | _ => none

def addDecl (decls : List (List Decl)) (i : Nat) (d : Decl) : List (List Decl) :=
  let decls := if decls.length ≤ i then decls ++ List.replicate (i + 1 - decls.length) [] else decls
  modifyAt decls i (· ++ [d])

/-- body: `~` or elements joined by `;`, each `P|child,child…` / `X|…` / `P|` ; child = `ns:name:text` (hex) -/
def parseChild (t : String) : Option Child :=
  match t.splitOn ":" with
  | [a, b, c] => do pure { ns := (← tokS a), name := (← tokS b), text := (← tokS c) }
  | _ => none

def parseEl (t : String) : Option PropEl :=
  match t.splitOn "|" with
  | [k, cs] => do
      let children ← if cs = "" then some [] else (cs.splitOn ",").mapM parseChild
      pure { isProperty := k = "P", children := children }
  | _ => none

def parseBody (t : String) : Option Body :=
  if t = "~" then some [] else (t.splitOn ";").mapM parseEl

/-- `<nt|!> <nts|!> <sid|!> <body>` -/
def parseNotify : List String → Option Notify
  | [nt, nts, sid, body] => do
      pure { hdrs := { nt := (← tokOpt nt), nts := (← tokOpt nts), sid := (← tokOpt sid) }, body := (← parseBody body) }
  | _ => none

def fmtVal : Option Val → String
  | none => "!"
  | some (.vint i) => s!"i{i}"
  | some (.vbool b) => if b then "bT" else "bF"
  | some (.vstr s) => s!"s{sTok s}"

def parseVal (t : String) : Option (Option Val) :=
  if t = "!" then some none
  else if t = "bT" then some (some (.vbool true))
  else if t = "bF" then some (some (.vbool false))
  else match t.toList with
    | 'i' :: r => (String.ofList r).toInt?.map fun i => some (.vint i)
    | 's' :: r => (tokS (String.ofList r)).map fun s => some (.vstr s)
    | _ => none

def fmtTick : Option Nat → String
  | none => "!"
  | some n => toString n

/-- `name:val:upd,…` -/
def fmtVarObs (l : List VarObs) : String :=
  if l.isEmpty then "~" else ",".intercalate (l.map fun o => s!"{sTok o.1}:{fmtVal o.2.1}:{fmtTick o.2.2}")

def parseVarObs (t : String) : Option (List VarObs) :=
  if t = "~" then some [] else
  (t.splitOn ",").mapM fun x => match x.splitOn ":" with
    | [a, b, c] => do
        let n ← tokS a; let v ← parseVal b
        let u ← if c = "!" then some none else c.toNat?.map some
        pure (n, v, u)
    | _ => none

/-- callbacks: `~` or name lists joined by `|`, names joined by `,` (`-` = the empty list) -/
def fmtEvents (l : List (List Str)) : String :=
  if l.isEmpty then "~" else "|".intercalate (l.map fun ns => if ns.isEmpty then "-" else ",".intercalate (ns.map sTok))

def parseEvents (t : String) : Option (List (List Str)) :=
  if t = "~" then some [] else
  (t.splitOn "|").mapM fun x => if x = "-" then some [] else (x.splitOn ",").mapM tokS

def fmtNRes : NRes → String
  | .status n => s!"status {n}"
  | .keyError => "exc RAW:KeyError"

def parseNRes : List String → NRes
  | ["status", n] => .status n.toNat!
  | _ => .keyError

end Upnp.C10Proto
