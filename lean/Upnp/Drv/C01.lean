/-
  Driver for C01: replays the harness' lines through the codec model (with the outer
  `lru_cache` modelled explicitly), compares every observation of the implementation with the
  model's (correspondence) and judges the implementation's observations with the predicates of
  `Spec/C01.lean` (round trip, function-of-datagram-and-source, no change of earlier results).
-/
import Upnp.Proto
import Upnp.Model.C01Ssdp
import Upnp.Model.C01Lru
import Upnp.Spec.C01
import Upnp.Gen.C01Ssdp
namespace Upnp.Drv.C01
open Upnp Upnp.Proto Upnp.C01

def nRegs : Nat := 8

def hexNib (c : UInt8) : Nat :=
  if 48 ≤ c && c ≤ 57 then (c - 48).toNat else if 97 ≤ c && c ≤ 102 then (c - 87).toNat else 255

/-- hex token -> bytes (`-` = empty); decoded from the end so that no reversal is needed -/
def tokB (t : String) : Option Bytes :=
  if t = "-" then some [] else
  let bs := t.toUTF8
  if bs.size % 2 != 0 then none else
  let rec go (i : Nat) (acc : List Nat) (ok : Bool) : List Nat × Bool :=
    match i with
    | 0 => (acc, ok)
    | j + 1 =>
      let h := hexNib (bs.get! (2 * j))
      let l := hexNib (bs.get! (2 * j + 1))
      go j ((h * 16 + l) :: acc) (ok && h < 16 && l < 16)
  let (r, ok) := go (bs.size / 2) [] true
  if ok then some r else none
def fmtB (b : Bytes) : String := bytesTok (b.map UInt8.ofNat)

/-- `<hosthex>:<port>[:<flow>:<scope>]` -/
def parseAddr (t : String) : Option Addr :=
  match t.splitOn ":" with
  | [h, p] => do pure { host := ← tokB h, port := ← p.toNat? }
  | [h, p, f, s] => do pure { host := ← tokB h, port := ← p.toNat?, v6 := true, flow := ← f.toNat?, scope := ← s.toNat? }
  | _ => none

def fmtAddr (a : Addr) : String :=
  if a.v6 then s!"{fmtB a.host}:{a.port}:{a.flow}:{a.scope}" else s!"{fmtB a.host}:{a.port}"

def parseVal (t : String) : Option Val :=
  if t = "N" then some .pyNone
  else if t = "?" then some .unk
  else match t.toList with
    | 's' :: r => (tokB (if r.isEmpty then "-" else String.ofList r)).map Val.str
    | 'a' :: r => (parseAddr (String.ofList r)).map Val.addr
    | 'i' :: r => (String.ofList r).toNat?.map Val.int
    | 't' :: r => (String.ofList r).toInt?.map Val.ts
    | _ => none

def fmtVal : Val → String
  | .str b => "s" ++ (if b.isEmpty then "" else fmtB b)
  | .addr a => "a" ++ fmtAddr a
  | .pyNone => "N"
  | .int n => s!"i{n}"
  | .ts t => s!"t{t}"
  | .unk => "?"

def parseList {α : Type} (f : String → Option α) (s : String) : Option (List α) :=
  if s = "~" then some [] else (s.splitOn ",").mapM f

def parseKV {α : Type} (f : String → Option α) (t : String) : Option (Bytes × α) :=
  let (a, b) := splitEq t
  do pure (← tokB a, ← f b)

def parseObs (toks : List String) : Option Obs := do
  let kv := toks.map splitEq
  let f (n : String) : Option String := (kv.find? (·.1 = n)).map (·.2)
  pure { iter := ← parseList tokB (← f "iter")
         gets := ← parseList (parseKV fun t => if t = "!" then some none else (parseVal t).map some) (← f "get")
         data := ← parseList (parseKV parseVal) (← f "data")
         cmap := ← parseList (parseKV tokB) (← f "cmap") }

/-- `unk` in the model matches anything -/
def valMatch (m i : Val) : Bool := m == .unk || m == i

def obsMatch (m i : Obs) : Bool :=
  m.iter == i.iter && m.cmap == i.cmap
  && m.data.length == i.data.length
  && (m.data.zip i.data).all (fun p => p.1.1 == p.2.1 && valMatch p.1.2 p.2.2)
  && m.gets.length == i.gets.length
  && (m.gets.zip i.gets).all (fun p => p.1.1 == p.2.1 && (match p.1.2, p.2.2 with
      | some a, some b => valMatch a b | none, none => true | _, _ => false))

def fmtObs (o : Obs) : String :=
  let l (xs : List String) := if xs.isEmpty then "~" else ",".intercalate xs
  s!"iter={l (o.iter.map fmtB)} get={l (o.gets.map fun p => fmtB p.1 ++ "=" ++ (match p.2 with | some v => fmtVal v | none => "!"))} data={l (o.data.map fun p => fmtB p.1 ++ "=" ++ fmtVal p.2)} cmap={l (o.cmap.map fun p => fmtB p.1 ++ "=" ++ fmtB p.2)}"

abbrev Key := Bytes × Addr            -- cache key of `_cached_decode_ssdp_packet`

/-- what `SsdpProtocol.datagram_received` (as repaired) catches around the decoder -/
def caught (e : Exn) : Bool := e == .invalidHeader || e == .lineTooLong || e == .unicodeDecode

def exnTok : Exn → String
  | .unicodeDecode => "RAW:UnicodeDecodeError"
  | .invalidHeader => "RAW:InvalidHeader"
  | .lineTooLong => "RAW:LineTooLong"
  | .indexError => "RAW:IndexError"
  | .urlValueError | .portValueError | .intDigitsLimit => "RAW:ValueError"
  | .hostnameAssertion => "RAW:AssertionError"
  | .timedeltaOverflow | .datetimeOverflow => "RAW:OverflowError"
  | .randrangeEmpty => "RAW:ValueError"
  | .keyError => "RAW:KeyError"

structure Fresh where
  data : Bytes
  src : Addr
  loc : Option Addr
  built : Option Nat
  rl : Bytes

structure St where
  regs : Array (Option (Bytes × Hdrs)) := Array.replicate nRegs none
  lru : Lru Key (Bytes × Hdrs) := { cap := Gen.C01Ssdp.lruSizes.headD 512 }
  builts : Array (Bytes × List (Bytes × Bytes)) := #[]
  -- judge state (implementation side only)
  snaps : Array (Option Obs) := Array.replicate nRegs none
  dirty : Array Bool := Array.replicate nRegs false
  fresh : Array (Option Fresh) := Array.replicate nRegs none
  seen : List ((Bytes × Addr × Option Addr) × (Bytes × Obs)) := []
  lastRes : String := "ok"      -- the model's result token of the last op
  lastReg : Nat := 0
  pending : Option (Option Nat × Addr) := none   -- built reference and source of the decode awaiting its `res`
  mutExpect : Option String := none              -- what the owner's own mutation must answer, judged from the last snapshot
  parses : List (Bytes × String) := []           -- first observation of `_cached_header_parse` per datagram
  implRl : Bytes := []
  corrOk : Bool := true
  judgeOk : Bool := true
  notes : List String := []

def note (st : St) (s : String) : St := { st with notes := st.notes ++ [s] }
def corrFail (st : St) (s : String) : St := note { st with corrOk := false } s
def judgeFail (st : St) (s : String) : St := { st with judgeOk := false, notes := s :: st.notes }

/-- model of `decode_ssdp_packet` with the outer cache explicit -/
def decodeCached (st : St) (data : Bytes) (loc : Option Addr) (src : Addr) (now : Int) :
    Except Exn (Bytes × Hdrs) × Lru Key (Bytes × Hdrs) :=
  let (r, lru) := Lru.call (fun k : Key => decodeCore k.1 k.2) st.lru (data, withoutPort src)
  (match r with
   | .error e => .error e
   | .ok (rl, h) => .ok (rl, CIDict.combineLower h (callMeta now loc src)), lru)

def parseOptAddr (t : String) : Option (Option Addr) :=
  if t = "N" then some none else (parseAddr t).map some

def parseBuiltRef (rest : List String) : Option Nat :=
  rest.findSome? fun t => let (a, b) := splitEq t; if a = "b" then b.toNat? else none

def metaKeys : List Bytes := Gen.C01Ssdp.metaKeys

def stepDecode (st : St) (kind r dat src loc now : String) (rest : List String) : St :=
      match r.toNat?, tokB dat, parseAddr src, parseOptAddr loc, now.toInt? with
      | some r, some dat, some src, some loc, some now =>
        let gateOk := kind = "dec" || isValidPacket Gen.C01Ssdp.ssdpPrefixes dat
        let st := { st with pending := some (parseBuiltRef rest, src), mutExpect := none }
        let neither := rest.contains "m=neither"     -- a protocol constructed without any callback: nothing to deliver to
        if !gateOk then { st with lastRes := if neither then "nosink" else "drop", lastReg := r }
        else if neither then
          let (res, lru) := decodeCached st dat loc src now
          { st with lru := lru, lastReg := r, pending := none,
                    lastRes := match res with
                      | .error e => if caught e then "nosink" else "EXC:" ++ exnTok e
                      | .ok _ => "nosink" }
        else
          let (res, lru) := decodeCached st dat loc src now
          let st := { st with lru := lru, lastReg := r }
          match res with
          | .ok (rl, h) =>
            { st with regs := st.regs.set! r (some (rl, h)), lastRes := "ok " ++ fmtB rl,
                      fresh := st.fresh.set! r (some { data := dat, src := src, loc := loc, built := parseBuiltRef rest, rl := [] }) }
          | .error e =>
            { st with lastRes := if kind = "recv" ∧ caught e then "drop" else "EXC:" ++ exnTok e }
      | _, _, _, _, _ => corrFail st s!"bad {kind} line"

/-- what `del r[k]` / `r.del_lower(lk)` must answer, judged from the implementation's last
    observation of that result: KeyError exactly when the name is not there -/
def delExpect (st : St) (r : Nat) (present : Obs → Bool) : Option String :=
  if st.dirty.getD r false then none
  else (st.snaps.getD r none).map fun o => if present o then "ok" else "KeyError"

/-- `_cached_decode_ssdp_packet(data, addr_without_port)` observed directly (never mutated by the harness) -/
def stepCore (st : St) (r dat src : String) : St :=
  match r.toNat?, tokB dat, parseAddr src with
  | some r, some dat, some src =>
    let st := { st with pending := none, mutExpect := none, lastReg := r }
    match decodeCore dat (withoutPort src) with
    | .ok (rl, h) =>
      { st with regs := st.regs.set! r (some (rl, h)), lastRes := "ok " ++ fmtB rl,
                fresh := st.fresh.set! r (some { data := dat, src := withoutPort src,
                                                 loc := some { host := ofString "core", port := 0 }, built := none, rl := [] }) }
    | .error e => { st with lastRes := "EXC:" ++ exnTok e }
  | _, _, _ => corrFail st "bad core line"

def stepOp (st : St) (toks : List String) : St :=
  match toks with
  | ["bld", _i, sl, ps, dat] =>
    match tokB sl, parseList (parseKV tokB) ps, tokB dat with
    | some sl, some hs, some dat =>
      let st := { st with builts := st.builts.push (sl, hs) }
      if build Gen.C01Ssdp.headerSep sl hs == dat then st else corrFail st s!"build impl={fmtB dat} model={fmtB (build Gen.C01Ssdp.headerSep sl hs)}"
    | _, _, _ => corrFail st "bad bld line"
  | ["srch", _i, tgt, mx, stt, dat] =>
    match parseAddr tgt, tokB mx, tokB stt, tokB dat with
    | some tgt, some mx, some stt, some dat =>
      let hs := [(ofString "HOST", hostPortString tgt), (ofString "MAN", ofString "\"ssdp:discover\""),
                 (ofString "MX", mx), (ofString "ST", stt)]
      let st := { st with builts := st.builts.push (ofString "M-SEARCH * HTTP/1.1", hs) }
      if buildSearch Gen.C01Ssdp.headerSep tgt mx stt == dat then st else corrFail st s!"search impl={fmtB dat} model={fmtB (buildSearch Gen.C01Ssdp.headerSep tgt mx stt)}"
    | _, _, _, _ => corrFail st "bad srch line"
  | "dec" :: r :: dat :: src :: loc :: now :: rest => stepDecode st "dec" r dat src loc now rest
  | "recv" :: r :: dat :: src :: loc :: now :: rest => stepDecode st "recv" r dat src loc now rest
  | ["core", r, dat, src] => stepCore st r dat src
  | ["hpo", dat, udn, ps] =>
    -- `_cached_header_parse(data)`: parsed pairs and udn, compared with the model and with the first observation
    match tokB dat, parseList (parseKV tokB) ps with
    | some dat, some pairs =>
      let udnO : Option Bytes := if udn = "!" then none else tokB udn
      let st := match headerParse dat with
        | .ok (mp, _, mu) => if mp == pairs && mu == udnO then st else corrFail st s!"header-parse impl[{ps} {udn}] model differs"
        | .error _ => corrFail st "header-parse: model raises"
      let key := ps ++ " " ++ udn
      match st.parses.find? (fun (e : Bytes × String) => e.1 == dat) with
      | some (_, k0) => if k0 = key then st else judgeFail st s!"cached-parse-changed first[{k0}] now[{key}]"
      | none => { st with parses := (dat, key) :: st.parses }
    | _, _ => corrFail st "bad hpo line"
  | ["dell", r, lk] =>
    match r.toNat?, tokB lk with
    | some r, some lk =>
      let st := { st with pending := none, lastReg := r,
                          mutExpect := delExpect st r (fun o => o.cmap.any fun p => p.1 == lk) }
      match st.regs.getD r none with
      | some (rl, h) =>
        match CIDict.delLower h lk with
        | some h' => { st with regs := st.regs.set! r (some (rl, h')), lastRes := "ok", dirty := st.dirty.set! r true }
        | none => { st with lastRes := "KeyError", dirty := st.dirty.set! r true }
      | none => corrFail st "dell on empty register"
    | _, _ => corrFail st "bad dell line"
  | ["set", r, k, v] =>
    match r.toNat?, tokB k, parseVal v with
    | some r, some k, some v =>
      let st := { st with pending := none, lastReg := r, mutExpect := some "ok" }
      match st.regs.getD r none with
      | some (rl, h) => { st with regs := st.regs.set! r (some (rl, CIDict.setitem lower h k v)), lastRes := "ok", dirty := st.dirty.set! r true }
      | none => corrFail st "set on empty register"
    | _, _, _ => corrFail st "bad set line"
  | ["del", r, k] =>
    match r.toNat?, tokB k with
    | some r, some k =>
      let st := { st with pending := none, lastReg := r,
                          mutExpect := delExpect st r (fun o => o.iter.any fun n => lower n == lower k) }
      match st.regs.getD r none with
      | some (rl, h) =>
        match CIDict.delitem lower h k with
        | some h' => { st with regs := st.regs.set! r (some (rl, h')), lastRes := "ok", dirty := st.dirty.set! r true }
        | none => { st with lastRes := "KeyError", dirty := st.dirty.set! r true }
      | none => corrFail st "del on empty register"
    | _, _ => corrFail st "bad del line"
  | ["repl", r, ps] =>
    match r.toNat?, parseList (parseKV parseVal) ps with
    | some r, some l =>
      let st := { st with pending := none, lastReg := r, mutExpect := some "ok" }
      match st.regs.getD r none with
      | some (rl, h) => { st with regs := st.regs.set! r (some (rl, CIDict.replaceDict lower h (PyDict.ofList l))), lastRes := "ok", dirty := st.dirty.set! r true }
      | none => corrFail st "repl on empty register"
    | _, _ => corrFail st "bad repl line"
  | "res" :: rest =>
    let t := " ".intercalate rest
    let st := if t = st.lastRes then st else corrFail st s!"res impl={t} model={st.lastRes}"
    -- the owner's own mutation of a result must behave as on a map nobody else touches
    let st := match st.mutExpect with
      | some e => if t = e then { st with mutExpect := none }
                  else judgeFail { st with mutExpect := none } s!"own-mutation-misbehaves r{st.lastReg} answered={t} expected={e}"
      | none => st
    -- judge bookkeeping: a decode that did not produce a result leaves nothing fresh
    match rest with
    | ["ok", rl] =>
      (match tokB rl with
       | some rl => { st with implRl := rl }
       | none => st)
    | ["ok"] => st
    | ["KeyError"] => st
    | ["nosink"] => { st with fresh := st.fresh.set! st.lastReg none, pending := none }
    | _ =>
      -- the implementation produced no result: a violation when the datagram was built from a
      -- well-formed header map
      let st := { st with fresh := st.fresh.set! st.lastReg none }
      match st.pending with
      | some (some i, src) =>
        (match st.builts[i]? with
         | some (sl, hs) =>
           if Gen.C01Ssdp.ssdpPrefixes.contains sl && wfHeaders metaKeys hs then
             judgeFail { st with pending := none } s!"built-message-not-decoded sl={fmtB sl} src={fmtAddr src} res={t} hs={",".intercalate (hs.map fun p => fmtB p.1 ++ "=" ++ fmtB p.2)}"
           else { st with pending := none }
         | none => { st with pending := none })
      | _ => { st with pending := none }
  | "obs" :: r :: rest =>
    match r.toNat?, parseObs rest with
    | some r, some io =>
      -- correspondence
      let st := match st.regs.getD r none with
        | some (_, h) =>
          let mo := observe (io.gets.map fun (p : Bytes × Option Val) => p.1) h
          if obsMatch mo io then st else corrFail st s!"obs r{r} impl[{fmtObs io}] model[{fmtObs mo}]"
        | none => corrFail st s!"obs of empty model register r{r}"
      -- judge (implementation's observations only)
      match st.fresh.getD r none with
      | some f =>
        let rl := st.implRl
        let st := { st with fresh := st.fresh.set! r none, snaps := st.snaps.set! r (some io), dirty := st.dirty.set! r false }
        let st := if f.loc == some { host := ofString "core", port := 0 } || sourceMetaOk io f.src then st
                  else judgeFail st s!"metadata-not-from-source r{r} src={fmtAddr f.src} obs[{fmtObs io}]"
        let st := match f.built.bind (fun i => st.builts[i]?) with
          | some (sl, hs) =>
            if Gen.C01Ssdp.ssdpPrefixes.contains sl && wfHeaders metaKeys hs then
              if roundTripOk metaKeys sl hs f.src rl io then st
              else judgeFail st s!"roundtrip r{r} sl={fmtB sl} src={fmtAddr f.src} rl={fmtB rl} obs[{fmtObs io}]"
            else st
          | none => st
        let key := (f.data, f.src, f.loc)
        match st.seen.find? (fun (e : (Bytes × Addr × Option Addr) × (Bytes × Obs)) => e.1 == key) with
        | some (_, (rl0, o0)) =>
          if sameResult rl0 o0 rl io then st
          else judgeFail st s!"history-dependent r{r} first[{fmtB rl0} {fmtObs o0}] now[{fmtB rl} {fmtObs io}]"
        | none => { st with seen := (key, (rl, io)) :: st.seen }
      | none =>
        if st.dirty.getD r false then
          { st with snaps := st.snaps.set! r (some io), dirty := st.dirty.set! r false }
        else match st.snaps.getD r none with
          | some s0 =>
            if unchanged s0 io then st
            else judgeFail st s!"earlier-result-changed r{r} was[{fmtObs s0}] now[{fmtObs io}]"
          | none => { st with snaps := st.snaps.set! r (some io) }
    | _, _ => judgeFail (corrFail st "unparsable obs") "unparsable obs"
  | _ => corrFail st s!"bad-op {" ".intercalate (toks.take 2)}"

/-- process stdin line by line (no per-line `replace`: the lines are long) -/
partial def loop (h : IO.FS.Stream) (out : IO.FS.Stream) (st : St) (cur : String) (n : Nat) : IO Nat := do
  let line ← h.getLine
  if line.isEmpty then return n
  let toks := (line.trimAsciiEnd.toString.splitOn " ").filter (· ≠ "")
  match toks with
  | ["case", id] => loop h out {} id n
  | ["end"] =>
      out.putStrLn s!"case {cur} corr={if st.corrOk then "ok" else "MISMATCH"} judge={if st.judgeOk then "ok" else "FAIL"} {" ; ".intercalate ((st.notes.take 2).map fun s => (s.take 1500).toString)}"
      loop h out st cur (n + 1)
  | [] => loop h out st cur n
  | _ => loop h out (stepOp st toks) cur n

def main : IO UInt32 := do
  let out ← IO.getStdout
  let n ← loop (← IO.getStdin) out {} "" 0
  out.putStrLn s!"done {n}"
  return 0

end Upnp.Drv.C01
