/-
  Driver for C02: replays datagrams through the receive-path model (`Upnp.C02.recv Fixes.all`),
  compares the implementation's per-datagram observation with the model's (correspondence) and
  judges the implementation's observation with `Upnp.C02.ok` (no raise; dropped ⇒ inert).
-/
import Upnp.Proto
import Upnp.Model.C02Recv
import Upnp.Spec.C02
import Upnp.Gen.C01Ssdp
import Upnp.Gen.C02Recv
import Upnp.Spec.C03Cfg
import Upnp.Drv.C01
namespace Upnp.Drv.C02
open Upnp Upnp.Proto Upnp.C01 Upnp.C02
open Upnp.Drv.C01 (tokB fmtB parseAddr parseOptAddr parseList parseKV exnTok)

/-- the guards the translator found in the source: the model follows the source, the judge does not -/
def genFixes : Fixes :=
  { catchInvalidHeader := Gen.C02Recv.catchInvalidHeader, catchLineTooLong := Gen.C02Recv.catchLineTooLong,
    catchUnicode := Gen.C02Recv.catchUnicode, urlsplitGuard := Gen.C02Recv.urlsplitGuard,
    hostnameGuard := Gen.C02Recv.hostnameGuard, portGuard := Gen.C02Recv.portGuard, tdGuard := Gen.C02Recv.tdGuard,
    dtGuard := Gen.C02Recv.dtGuard, intGuard := Gen.C02Recv.intGuard, mxClamp := Gen.C02Recv.mxClamp,
    checkBeforePurge := Gen.C02Recv.checkBeforePurge }

structure St where
  cfg : Cfg := { prefixes := Gen.C01Ssdp.ssdpPrefixes, trk := { C03.genCfg with tMax := C02.dtMax } }
  desync : Bool := false   -- the model's tracker state is no longer the implementation's (unmodelled value / raise earlier in the case)
  tr : Tracker := {}
  -- pending model outcome of the last `dg`
  pendRes : Option (Except Exn (Tracker × Eff)) := none
  pendClass : Option Dispatch := none
  pendUnk : Bool := false
  pendEp : Option Endpoint := none
  pendMay : Bool := false
  pendDelivered : Bool := false   -- does the protocol hand this datagram to its callbacks?
  proto : String := "on"          -- constructor configuration of the endpoint's SsdpProtocol: on | async | both
  corrOk : Bool := true
  judgeOk : Bool := true
  notes : List String := []

def note (st : St) (s : String) : St := { st with notes := st.notes ++ [s] }
def corrFail (st : St) (s : String) : St := note { st with corrOk := false } s
def judgeFail (st : St) (s : String) : St := { st with judgeOk := false, notes := s :: st.notes }

def parseEp : String → Option Endpoint
  | "adv" => some .adv
  | "search" => some .search
  | "ladv" => some .listenerAdv
  | "lsearch" => some .listenerSearch
  | "resp" => some .responder
  | _ => none

def kvs (toks : List String) : String → Option String :=
  let kv := toks.map splitEq
  fun n => (kv.find? (·.1 = n)).map (·.2)

def hasUnk (h : Hdrs) : Bool := h.data.any fun p => p.2 == Val.unk

def fmtDevs (d : List (String × Int)) : String :=
  if d.isEmpty then "~" else ",".intercalate (d.map fun p => s!"{p.1}={p.2}")

def devsOf (t : Tracker) : List (String × Int) := t.devices.map fun p => (p.1, p.2.validTo)

def srcTok : C03.Source → String
  | .searchChanged => "search_changed"
  | .searchAlive => "search_alive"
  | .advAlive => "advertisement_alive"
  | .advByebye => "advertisement_byebye"
  | .advUpdate => "advertisement_update"

/-- `udnhex:typehex:source` of one listener callback -/
def fmtNotif (n : String × String × C03.Source) : String := s!"{n.1}|{n.2.1}|{srcTok n.2.2}"

def parseCb (c : String) : Option String :=
  match c.splitOn "|" with
  | [u, t, sc] => do pure s!"{strOfBytes (← tokB u)}|{strOfBytes (← tokB t)}|{sc}"
  | _ => none

def pendIsListener (st : St) : Bool := st.pendEp == some .listenerAdv || st.pendEp == some .listenerSearch

def stepOp (st : St) (toks : List String) : St :=
  match toks with
  | "cfg" :: rest =>
    let f := kvs rest
    let r : Option Cfg := do
      let tgt ← f "target"
      let root ← f "root"
      let devs ← parseList (parseKV tokB) (← f "devs")
      let svcs ← parseList tokB (← f "svcs")
      let always ← f "always"
      pure { prefixes := Gen.C01Ssdp.ssdpPrefixes, trk := { C03.genCfg with tMax := C02.dtMax }, targetHost := (tokB tgt).getD [], rootUdn := (tokB root).getD [],
             devices := devs, services := svcs, alwaysRoot := always == "1" }
    match r with
    | some c => { st with cfg := c, proto := (f "proto").getD "on" }
    | none => corrFail st "bad cfg line"
  | "dg" :: ep :: dat :: src :: loc :: now :: flags =>
    match parseEp ep, tokB dat, parseAddr src, parseOptAddr loc, now.toInt? with
    | some ep, some dat, some src, some loc, some now =>
      -- flag `x`: the harness declares the datagram outside the model (non-ASCII digits / blanks in MX or
      -- CACHE-CONTROL): only "no raise" is judged and the implementation's tracker state is adopted
      let declared := flags.contains "x"
      -- is a value outside the model involved (URL outside the grammar)?
      let dec := protocolRecv genFixes st.cfg.prefixes dat loc src now
      let unk := match dec with
        | .ok (some (_, h)) => hasUnk h || declared
        | _ => declared
      -- the interface assumption between the decoder model and the tracker model, tested on every decoded map
      let st := match dec with
        | .ok (some (_, h)) => if udnGuaranteeB h then st else corrFail st "interface: _udn is not the udn of the uuid USN"
        | _ => st
      { st with pendRes := some (recv genFixes st.cfg ep st.tr dat loc src now),
                pendClass := classify st.cfg ep dat loc src now, pendUnk := unk, pendEp := some ep,
                pendDelivered := (match dec with | .ok (some _) => true | _ => false), pendMay := mayDrop st.cfg ep dat loc src now }
    | _, _, _, _, _ => corrFail st "bad dg line"
  | "eff" :: rest =>
    let f := kvs rest
    let parsed : Option (String × Nat × Nat × Nat × List (String × Int) × Option Int × List String × List String × List String) := do
      let raised ← f "raised"
      let cb ← (← f "cb").toNat?
      let sends ← (← f "sends").toNat?
      let timers ← (← f "timers").toNat?
      let devsB ← parseList (parseKV fun t => t.toInt?) (← f "devs")
      let nxs ← f "next"
      let nx ← if nxs = "N" then some none else nxs.toInt?.map some
      let before ← parseList tokB (← f "before")
      let after ← parseList tokB (← f "after")
      let cbs ← f "cbs"
      let cbl : List String ← if cbs = "~" then some [] else (cbs.splitOn ",").mapM parseCb
      pure (raised, cb, sends, timers, devsB.map (fun p => (strOfBytes p.1, p.2)), nx, before.map strOfBytes, after.map strOfBytes, cbl)
    match parsed, st.pendRes with
    | some (raised, cb, sends, timers, devs, nx, before, after, cbl), some res =>
      let st := { st with pendRes := none }
      -- judge: the implementation's observation only
      let o : C02.Obs := ⟨(if raised = "-" then none else some raised), cb, sends, timers, before, after⟩
      -- a value outside the model (URL outside the grammar, flag x): only "no raise" is judged
      let verdict := if st.pendUnk then o.raised.isNone else ok st.pendClass o st.pendMay
      let what := if o.raised.isSome then "raised " ++ raised
                  else if st.pendClass.isSome then "well-formed-but-not-dispatched" else "dropped-but-not-inert"
      let st := if verdict then st
                else judgeFail st s!"{what} class={repr st.pendClass} cb={cb} sends={sends} timers={timers} before={before.length} after={after.length}"
      -- delivery to all configured sinks: with both `on_data` and `async_on_data` configured each gets every message
      let (ds, da) := match ((f "dl").getD "0:0").splitOn ":" with
        | [a, b] => (a.toNat?.getD 0, b.toNat?.getD 0)
        | _ => (0, 0)
      let st := if st.proto = "both" && ds != da && raised = "-" then
                  judgeFail st s!"a configured callback missed the message: on_data={ds} async_on_data={da}"
                else st
      let want := if st.pendDelivered then 1 else 0
      let st := if st.pendUnk || st.desync || raised != "-" then st
                else if (st.proto != "async" && ds != want) || (st.proto != "on" && da != want) then
                  corrFail st s!"delivery impl on_data={ds} async_on_data={da} model={want} ({st.proto})"
                else st
      -- correspondence (skipped once the model's tracker state is no longer the implementation's)
      if st.pendUnk then note { st with desync := true } "unmodelled-url"
      else if st.desync then st
      else match res with
        | .error e =>
          let st := { st with desync := true }
          if raised = exnTok e then st else corrFail st s!"raised impl={raised} model={exnTok e}"
        | .ok (t, e) =>
          let st := { st with tr := t }
          if raised != "-" then corrFail { st with desync := true } s!"raised impl={raised} model=-"
          else if !(e.cbMin ≤ cb && cb ≤ e.cbMax) then corrFail st s!"callbacks impl={cb} model={e.cbMin}..{e.cbMax}"
          else if sends != e.sends || timers != e.timers then corrFail st s!"sends/timers impl={sends}/{timers} model={e.sends}/{e.timers}"
          else if (pendIsListener st) && cbl != (e.notif.map fmtNotif).toList then
            corrFail st s!"callback impl={cbl} model={(e.notif.map fmtNotif).toList}"
          else if devs != devsOf t || nx != t.next then
            corrFail { st with desync := true } s!"devices impl[{fmtDevs devs} next={nx}] model[{fmtDevs (devsOf t)} next={t.next}]"
          else st
    | _, _ => corrFail (judgeFail st "unparsable eff") "unparsable eff"
  | _ => corrFail st s!"bad-op {" ".intercalate (toks.take 2)}"

partial def loop (h : IO.FS.Stream) (out : IO.FS.Stream) (st : St) (cur : String) (n : Nat) : IO Nat := do
  let line ← h.getLine
  if line.isEmpty then return n
  let toks := (line.trimAsciiEnd.toString.splitOn " ").filter (· ≠ "")
  match toks with
  | ["case", id] => loop h out {} id n
  | ["end"] =>
      out.putStrLn s!"case {cur} corr={if st.corrOk then "ok" else "MISMATCH"} judge={if st.judgeOk then "ok" else "FAIL"} {" ; ".intercalate ((st.notes.filter (· ≠ "unmodelled-url")).take 2 |>.map fun s => (s.take 1200).toString)}"
      loop h out st cur (n + 1)
  | [] => loop h out st cur n
  | _ => loop h out (stepOp st toks) cur n

def main : IO UInt32 := do
  let out ← IO.getStdout
  let n ← loop (← IO.getStdin) out {} "" 0
  out.putStrLn s!"done {n}"
  return 0

end Upnp.Drv.C02
