/-
  Driver for C03: replays the harness' events through the tracker model (constants from the source),
  compares every observation with the implementation's (correspondence) and judges the implementation's
  device-map trace with `C03.ok` (constants from the property text).
-/
import Upnp.Model.C03Wire
import Upnp.Spec.C03Cfg
namespace Upnp.Drv.C03
open Upnp Upnp.C03 Upnp.C03.Wire

def judge (st : St) : Bool × String :=
  let tr := st.trace3.reverse
  if C03.ok tr then (true, "")
  else match firstFail [] [] tr 0 with
    | some (i, why) =>
      (false, s!"C03 step {i}: {why}")
    | none => (false, "C03 judge failed")

def main : IO UInt32 := mainLoop genCfg specCfg judge

end Upnp.Drv.C03
