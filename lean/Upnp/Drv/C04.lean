/-
  Driver for C04: the same replay and correspondence as C03 (`C03Wire`); the judge is `C04.ok` on the
  implementation's observations (device map before each event, the sender's stored headers before and
  after, the user callbacks with the combined headers read inside them), constants from the property text.
-/
import Upnp.Model.C03Wire
import Upnp.Spec.C03Cfg
namespace Upnp.Drv.C04
open Upnp Upnp.C03 Upnp.C03.Wire

def judge (st : St) : Bool × String :=
  let tr := st.steps4.reverse
  if C04.ok Parse.ipVersion (Parse.skipHdr specCfg) "_source" st.mode tr then (true, "")
  else match C04.firstFail Parse.ipVersion (Parse.skipHdr specCfg) "_source" st.mode tr 0 with
    | some i =>
      (false, s!"C04 step {i}: notification / stored headers / combined headers not as the property states")
    | none => (false, "C04 judge failed")

def main : IO UInt32 := mainLoop genCfg specCfg judge

end Upnp.Drv.C04
