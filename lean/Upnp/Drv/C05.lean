/-
  Driver for C05: reads an abstract description (`DeviceSpec`) and the implementation's dump of
  the created object graph, runs the factory model on the rendered XML trees (correspondence)
  and judges the implementation's dump against `mirror` (`Spec/C05.lean`).
-/
import Upnp.Proto
import Upnp.Gen.C08Types
import Upnp.Spec.C05
import Upnp.Drv.C08
namespace Upnp.Drv.C05
open Upnp Upnp.Proto Upnp.C08 Upnp.C05
open Upnp.Drv.C08 (FV FTab parseF parseVal fmtVal fmtErr parseErr parseStrArg)

abbrev V := Val FV
def tb : Table := Gen.C08Types.table

/-- `~` = None, otherwise hex (`-` = empty) -/
def optStr (t : String) : Option (Option Str) :=
  if t = "~" then some none else (parseStrArg t).map some

def tagOfName (s : String) : Tag :=
  if s = "scpd" then .scpd else if s = "root" then .root else if s = "device" then .device else .other s.toList
def nsOfName (s : String) : Ns :=
  if s = "device" then .device else if s = "service" then .service else .other s.toList

structure FlatDev where
  depth : Nat
  info : List (Option Str)
  icons : List IconSpec := []
  services : List ServiceSpec := []

/-- rebuild the forest from the pre-order list with depths -/
partial def buildForest (depth : Nat) (l : List FlatDev) : List DeviceSpec × List FlatDev :=
  match l with
  | [] => ([], [])
  | d :: r =>
      if d.depth < depth then ([], l)
      else
        let (kids, r1) := buildForest (depth + 1) r
        let (sibs, r2) := buildForest depth r1
        (DeviceSpec.mk d.info d.icons d.services kids :: sibs, r2)

structure St where
  base : Str := []
  nonStrict : Bool := false
  ft : FTab := {}
  devs : Array FlatDev := #[]
  -- observations
  res : String := ""
  resLib : Bool := false       -- the raised exception is an instance of the library's UpnpError
  linked : Bool := true        -- no broken back-pointer reported
  rows : Array (DevRow FV) := #[]
  bad : List String := []

def St.updLastDev (st : St) (f : FlatDev → FlatDev) : St :=
  if h : st.devs.size > 0 then { st with devs := st.devs.modify (st.devs.size - 1) f } else { st with bad := "no device" :: st.bad }

def updLast {α : Type} (l : List α) (f : α → α) : List α :=
  match l.reverse with
  | [] => []
  | a :: r => (f a :: r).reverse

def St.updLastSvc (st : St) (f : ServiceSpec → ServiceSpec) : St :=
  st.updLastDev fun d => { d with services := updLast d.services f }

def scpdOf (s : ServiceSpec) : ScpdSpec := match s.doc with | .scpd sp => sp | _ => ⟨none, none⟩

def St.updScpd (st : St) (f : ScpdSpec → ScpdSpec) : St :=
  st.updLastSvc fun s => { s with doc := .scpd (f (scpdOf s)) }

def St.updLastRow (st : St) (f : DevRow FV → DevRow FV) : St :=
  if st.rows.size > 0 then { st with rows := st.rows.modify (st.rows.size - 1) f } else { st with bad := "no odev" :: st.bad }

def St.updLastOSvc (st : St) (f : SvcM FV → SvcM FV) : St :=
  st.updLastRow fun r => { r with services := updLast r.services f }

def parseDoc (t : String) : Option DocSpec :=
  match t.splitOn ":" with
  | ["scpd", a, b] => some (.scpd ⟨if a = "T" then some [] else none, if b = "A" then some [] else none⟩)
  | ["foreign", n, g] => some (.foreign (nsOfName n) (tagOfName g))
  | ["unparsable"] => some .unparsable
  | ["status", n] => n.toNat?.map .status
  | _ => none

def parseRange (t : String) : Option (Option (Option Str × Option Str × Option Str)) :=
  if t = "~" then some none
  else match t.splitOn ";" with
    | [a, b, c] => do let x ← optStr a; let y ← optStr b; let z ← optStr c; pure (some (x, y, z))
    | _ => none

def parseAllowedTexts (t : String) : Option (Option (List Str)) :=
  if t = "~" then some none
  else if t = "[]" then some (some [])
  else ((t.splitOn ",").mapM parseStrArg).map some

def parseR {α : Type} (p : String → Option α) (t : String) : Option (R α) :=
  if t.startsWith "!" then some (.err (parseErr t)) else (p t).map .ok

def parseOptVal (t : String) : Option (Option V) := if t = "none" then some none else (parseVal t).map some
def parseValList (t : String) : Option (List V) := if t = "~" then some [] else (t.splitOn ";").mapM parseVal

def parseIntTok (t : String) : Option Int := t.toInt?

def strOr (t : String) : Str := match parseStrArg t with | some s => s | none => "?bad".toList
def optUrl (t : String) : Option Str := if t = "~" then none else parseStrArg t

/-- `~` = empty, otherwise comma-separated positions -/
def parseIdxList (t : String) : Option (List Nat) :=
  if t = "~" then some [] else (t.splitOn ",").mapM (·.toNat?)

/-- `~` = None -/
def parseOptIdx (t : String) : Option (Option Nat) :=
  if t = "~" then some none else t.toNat?.map some

/-- `~` = empty, otherwise comma-separated hex strings -/
def parseStrList (t : String) : Option (List Str) :=
  if t = "~" then some [] else (t.splitOn ",").mapM parseStrArg

/-- `~` = empty list; items `!` = None -/
def parseOptIdxList (t : String) : Option (List (Option Nat)) :=
  if t = "~" then some [] else (t.splitOn ",").mapM fun x => if x = "!" then some none else x.toNat?.map some

def stepLine (st : St) (toks : List String) : St :=
  let fail (m : String) : St := { st with bad := m :: st.bad }
  match toks with
  | ["cfg", b, s] =>
      match parseStrArg (splitEq b).2 with
      | some x => { st with base := x, nonStrict := s = "strict=0" }
      | none => fail "bad cfg"
  | ["fdecl", "parse", s, f] =>
      match parseStrArg s with
      | some y => { st with ft := { st.ft with parses := (y, if f = "!" then none else parseF f) :: st.ft.parses } }
      | none => fail "bad fdecl"
  | "dev" :: d :: info =>
      match d.toNat?, info.mapM optStr with
      | some n, some i => { st with devs := st.devs.push { depth := n, info := i } }
      | _, _ => fail "bad dev"
  | ["icon", a, b, c, d, e] =>
      match optStr a, optStr b, optStr c, optStr d, optStr e with
      | some a, some b, some c, some d, some e =>
          st.updLastDev fun dv => { dv with icons := dv.icons ++ [{ mimetype := a, width := b, height := c, depth := d, url := e }] }
      | _, _, _, _, _ => fail "bad icon"
  | ["svc", a, b, c, d, e, doc] =>
      match optStr a, optStr b, optStr c, optStr d, optStr e, parseDoc doc with
      | some a, some b, some c, some d, some e, some doc =>
          st.updLastDev fun dv => { dv with services := dv.services ++
            [{ serviceId := a, serviceType := b, controlURL := c, eventSubURL := d, scpdURL := e, doc := doc }] }
      | _, _, _, _, _, _ => fail "bad svc"
  | ["var", n, t, sa, se, df, rg, al] =>
      match optStr n, optStr t, optStr sa, optStr se, optStr df, parseRange rg, parseAllowedTexts al with
      | some n, some t, some sa, some se, some df, some rg, some al =>
          st.updScpd fun sp => { sp with vars := some ((sp.vars.getD []) ++
            [{ name := n, dataType := t, seAttr := sa, seElem := se, default := df, range := rg, allowed := al }]) }
      | _, _, _, _, _, _, _ => fail "bad var"
  | ["act", n] =>
      match optStr n with
      | some n => st.updScpd fun sp => { sp with actions := some ((sp.actions.getD []) ++ [{ name := n, args := [] }]) }
      | none => fail "bad act"
  | ["arg", n, d, r] =>
      match optStr n, optStr d, optStr r with
      | some n, some d, some r =>
          let g : ArgSpec := { name := n, direction := d, related := r }
          st.updScpd fun sp => { sp with actions := sp.actions.map (fun l =>
            updLast l (fun a => { a with args := a.args ++ [g] })) }
      | _, _, _ => fail "bad arg"
  | ["res", r] => { st with res := r }
  | ["res", r, l] => { st with res := r, resLib := l = "L1" }
  | "olink" :: _ => { st with linked := false }
  | "odev" :: d :: u :: info =>
      match d.toNat?, parseStrArg u, info.mapM optStr with
      | some n, some u, some i =>
          let row : DevRow FV := { depth := n, info := i, url := u, icons := [], services := [], svcKeys := [], embKeys := [],
                                   svcByType := [], svcById := [], svcLooks := [] }
          { st with rows := st.rows.push row }
      | _, _, _ => fail "bad odev"
  | ["okeys", sk, ek, bt, bi] =>
      match parseStrList sk, parseStrList ek, parseOptIdxList bt, parseOptIdxList bi with
      | some sk, some ek, some bt, some bi =>
          st.updLastRow fun r => { r with svcKeys := sk, embKeys := ek, svcByType := bt, svcById := bi }
      | _, _, _, _ => fail "bad okeys"
  | ["oskeys", vk, ak, vn, an] =>
      match parseStrList vk, parseStrList ak, parseOptIdxList vn, parseOptIdxList an with
      | some vk, some ak, some vn, some an =>
          let lk : SvcLook := { varKeys := vk, actKeys := ak, varByName := vn, actByName := an }
          st.updLastRow fun r => { r with svcLooks := r.svcLooks ++ [lk] }
      | _, _, _, _ => fail "bad oskeys"
  | ["oicon", a, b, c, d, e] =>
      match parseStrArg a, parseIntTok b, parseIntTok c, parseIntTok d with
      | some a, some b, some c, some d =>
          st.updLastRow fun r => { r with icons := r.icons ++ [{ mimetype := a, width := b, height := c, depth := d, url := optUrl e }] }
      | _, _, _, _ => fail "bad oicon"
  | ["osvc", a, b, c, d, e] =>
      match parseStrArg a, parseStrArg b with
      | some a, some b =>
          st.updLastRow fun r => { r with services := r.services ++
            [{ serviceId := a, serviceType := b, controlUrl := optUrl c, eventSubUrl := optUrl d, scpdUrl := optUrl e, vars := [], actions := [] }] }
      | _, _ => fail "bad osvc"
  | ["ovar", n, t, se, mn, mx, al, df] =>
      match parseStrArg n, parseStrArg t, parseR parseOptVal mn, parseR parseOptVal mx, parseR parseValList al, parseR parseOptVal df with
      | some n, some t, some mn, some mx, some al, some df =>
          st.updLastOSvc fun s => { s with vars := s.vars ++
            [{ name := n, dataType := t, sendEvents := se = "1", min := mn, max := mx, allowed := al, default := df }] }
      | _, _, _, _, _, _ => fail s!"bad ovar {n}"
  | ["oact", n, ins, outs] =>
      match parseStrArg n, parseIdxList ins, parseIdxList outs with
      | some n, some ia, some oa =>
          st.updLastOSvc fun s => { s with actions := s.actions ++
            [{ name := n, args := [], inArgs := ia, outArgs := oa, byNameDir := [], byName := [] }] }
      | _, _, _ => fail "bad oact"
  | ["oarg", n, d, r, rt, b, lk, lkn] =>
      match parseStrArg n, parseStrArg d, parseStrArg r, parseStrArg rt, parseOptIdx lk, parseOptIdx lkn with
      | some n, some d, some r, some rt, some lk, some lkn =>
          let st := if b = "1" then st else { st with linked := false }
          let g : ArgM := { name := n, direction := d, related := r, relatedType := rt }
          st.updLastOSvc fun s => { s with actions := updLast s.actions (fun a =>
            { a with args := a.args ++ [g], byNameDir := a.byNameDir ++ [lk], byName := a.byName ++ [lkn] }) }
      | _, _, _, _, _, _ => fail "bad oarg"
  | _ => fail s!"bad line {" ".intercalate toks}"

/-- `allowed_values` is a set: sorted, duplicate-free by token -/
def canonAllowed (l : List V) : List V :=
  let toks := l.map fun v => (fmtVal v, v)
  let sorted := toks.mergeSort (fun a b => a.1 ≤ b.1)
  let rec dedup : List (String × V) → List V
    | [] => []
    | [a] => [a.2]
    | a :: b :: r => if a.1 == b.1 then dedup (b :: r) else a.2 :: dedup (b :: r)
  dedup sorted

def normRow (r : DevRow FV) : DevRow FV :=
  { r with services := r.services.map fun s => { s with vars := s.vars.map fun v =>
      { v with allowed := match v.allowed with | .ok l => .ok (canonAllowed l) | .err e => .err e } } }

def fmtFErr : FErr → String
  | .xmlContent => "!UpnpXmlContentError"
  | .xmlParse => "!UpnpXmlParseError"
  | .response => "!UpnpResponseError"
  | .upnpError => "!UpnpError"
  | .keyError => "!RAW:KeyError"
  | .raw e => fmtErr e
  | .library => "!LIBRARY"
  | .unmodelled => "!UNMODELLED"

def parseFErr (t : String) (isLib : Bool) : FErr :=
  if t = "!UpnpXmlContentError" then .xmlContent
  else if t = "!UpnpXmlParseError" then .xmlParse
  else if t = "!UpnpResponseError" then .response
  else if t = "!UpnpError" then .upnpError
  else if isLib then .library
  else if t = "!RAW:KeyError" then .keyError
  else .raw (parseErr t)

def sOf (s : Str) : String := String.ofList s
def oOf (o : Option Str) : String := match o with | some s => sOf s | none => "~"

def fmtRV {α : Type} (f : α → String) : R α → String
  | .ok a => f a
  | .err e => fmtErr e

def fmtVar (v : VarM FV) : String :=
  s!"{sOf v.name}:{sOf v.dataType}:{v.sendEvents}:min={fmtRV (fun o => match o with | some x => fmtVal x | none => "none") v.min}:max={fmtRV (fun o => match o with | some x => fmtVal x | none => "none") v.max}:allowed={fmtRV (fun l => ";".intercalate (l.map fmtVal)) v.allowed}:default={fmtRV (fun o => match o with | some x => fmtVal x | none => "none") v.default}"

def fmtSvc (s : SvcM FV) : String :=
  s!"svc[{sOf s.serviceType} id={sOf s.serviceId} c={oOf s.controlUrl} e={oOf s.eventSubUrl} s={oOf s.scpdUrl} vars=({", ".intercalate (s.vars.map fmtVar)}) acts=({", ".intercalate (s.actions.map fun a => sOf a.name ++ "(" ++ ",".intercalate (a.args.map fun g => s!"{sOf g.name}/{sOf g.direction}->{sOf g.related}:{sOf g.relatedType}") ++ ")")})]"

def fmtRow (r : DevRow FV) : String :=
  s!"dev@{r.depth} info={r.info.map oOf} url={sOf r.url} icons={r.icons.map fun i => s!"{sOf i.mimetype}/{i.width}/{i.height}/{i.depth}/{oOf i.url}"} {" ".intercalate (r.services.map fmtSvc)}"

def firstOf {α : Type} [BEq α] (f : α → String) : List α → List α → String
  | [], [] => "same"
  | x :: _, [] => s!"extra impl {f x}"
  | [], y :: _ => s!"missing {f y}"
  | x :: r, y :: s => if x == y then firstOf f r s else s!"impl {f x} <> expected {f y}"

def fmtAct (a : ActM) : String :=
  sOf a.name ++ "(" ++ ",".intercalate (a.args.map fun g => s!"{sOf g.name}/{sOf g.direction}->{sOf g.related}:{sOf g.relatedType}") ++ ")"
    ++ s!" in={a.inArgs} out={a.outArgs} argument(name,dir)={a.byNameDir} argument(name)={a.byName}"

def diffSvc (x y : SvcM FV) : String :=
  if x.vars != y.vars then s!"svc {sOf x.serviceType} var: {firstOf fmtVar x.vars y.vars}"
  else if x.actions != y.actions then s!"svc {sOf x.serviceType} action: {firstOf fmtAct x.actions y.actions}"
  else s!"impl svc[{sOf x.serviceType} id={sOf x.serviceId} c={oOf x.controlUrl} e={oOf x.eventSubUrl} s={oOf x.scpdUrl}] <> expected svc[{sOf y.serviceType} id={sOf y.serviceId} c={oOf y.controlUrl} e={oOf y.eventSubUrl} s={oOf y.scpdUrl}]"

def diffRow (x y : DevRow FV) : String :=
  if x.depth != y.depth || x.info != y.info || x.url != y.url then
    s!"impl dev@{x.depth} info={x.info.map oOf} url={sOf x.url} <> expected dev@{y.depth} info={y.info.map oOf} url={sOf y.url}"
  else if x.icons != y.icons then
    "icons: " ++ firstOf (fun (i : IconM) => s!"{sOf i.mimetype}/{i.width}/{i.height}/{i.depth}/{oOf i.url}") x.icons y.icons
  else if x.services.length != y.services.length then
    s!"services: impl {x.services.map fun s => sOf s.serviceType} <> expected {y.services.map fun s => sOf s.serviceType}"
  else
    match (x.services.zip y.services).find? (fun p => p.1 != p.2) with
    | some (a, b) => diffSvc a b
    | none =>
      s!"lookups: impl keys={x.svcKeys.map sOf}/{x.embKeys.map sOf} service(type)={x.svcByType} service_id(id)={x.svcById} per-service={repr x.svcLooks}"
        ++ s!" <> expected keys={y.svcKeys.map sOf}/{y.embKeys.map sOf} service(type)={y.svcByType} service_id(id)={y.svcById} per-service={repr y.svcLooks}"

/-- first differing row of two dumps -/
def firstDiff (a b : List (DevRow FV)) : String :=
  match a, b with
  | [], [] => "same"
  | x :: _, [] => s!"extra impl row {fmtRow x}"
  | [], y :: _ => s!"missing row dev@{y.depth} {oOf (y.info.head?.getD none)}"
  | x :: r, y :: s => if x == y then firstDiff r s else diffRow x y

def finish (st : St) : String × Bool × Bool × List String :=
  let fo := st.ft.ops
  match buildForest 0 st.devs.toList with
  | ([d], []) =>
      let obsRows := st.rows.toList.map normRow
      let fuel := 64
      -- correspondence: the factory model on the rendered trees
      let m := asyncCreateDevice fo tb (serve st.base d) st.nonStrict st.base fuel
      let (corr, cnote) : Bool × List String := match m with
        | .ok dm =>
            let rows := (flatten 0 dm).map normRow
            if st.res = "ok" && rows == obsRows then (true, [])
            else (false, [s!"corr: res={st.res} {firstDiff obsRows rows}"])
        | .error e => if fmtFErr e = st.res then (true, []) else (false, [s!"corr: impl res={st.res} model={fmtFErr e}"])
      -- judge: the implementation's dump against the specification
      let implRes : Except FErr (List (DevRow FV)) :=
        if st.res = "ok" then .ok st.rows.toList else .error (parseFErr st.res st.resLib)
      let obs : Observed FV := match observedOf implRes with
        | .created rows _ => .created rows st.linked
        | o => o
      let jok := judge fo tb normRow st.nonStrict st.base d obs
      let jnote : List String :=
        if jok then [] else
          match mirror fo tb st.nonStrict st.base d with
          | .ok dm => [s!"judge: res={st.res} {firstDiff obsRows ((flatten 0 dm).map normRow)}"]
          | .error e => [s!"judge: expected {fmtFErr e} got {st.res}"]
      let wf := judged fo tb st.nonStrict st.base d
      let bad := st.bad
      (if wf then "wf" else "nonwf", corr && bad.isEmpty, jok, bad ++ cnote ++ jnote)
  | _ => ("badforest", false, true, ["could not rebuild the device tree"])

def main : IO UInt32 := do
  let lines ← readLines (← IO.getStdin)
  let out ← IO.getStdout
  let mut st : St := {}
  let mut cur := ""
  let mut n := 0
  for line in lines do
    let toks := (line.splitOn " ").filter (· ≠ "")   -- `readLines` already stripped the terminators
    match toks with
    | ["case", id] => cur := id; st := {}
    | ["end"] =>
        n := n + 1
        let (tag, corr, jok, notes) := finish st
        out.putStrLn s!"case {cur} corr={if corr then "ok" else "MISMATCH"} judge={if jok then "ok" else "FAIL"} [{tag}] {" ; ".intercalate (notes.take 3)}"
    | [] => pure ()
    | _ => st := stepLine st toks
  out.putStrLn s!"done {n}"
  return 0

end Upnp.Drv.C05
