/-
  Driver for C06: one case = one declared action + one caller assignment + what the requester
  saw.  Runs the model (`asyncCallSend`), compares it with the implementation's observation
  (request fields and body text literally; `readEnvelope` of the body against the tree the real
  XML parser built) and judges the implementation's observation with `C06.ok`.
-/
import Upnp.Model.C06Wire
namespace Upnp.Drv.C06
open Upnp Upnp.Proto Upnp.C06 Upnp.C06.Wire

structure Acc where
  strict : Bool := true
  deviceUrl : Str := []
  controlUrl : Str := []
  serviceType : Str := []
  action : Str := []
  args : List ArgDecl := []
  kw : Kwargs := []
  otab : OTab := {}
  sent : Nat := 0
  err : Option ExcInfo := none
  method : Str := []
  url : Str := []
  body : Str := []
  headers : List (Str × Str) := []
  hasTree : Bool := false
  els : List ElLine := []
  bad : List String := []

def Acc.fail (a : Acc) (s : String) : Acc := { a with bad := a.bad ++ [s] }

def step (a : Acc) (toks : List String) : Acc :=
  match toks with
  | ["svc", st, du, cu, sty, an] =>
      match bool? st, str? du, str? cu, str? sty, str? an with
      | some st, some du, some cu, some sty, some an =>
          { a with strict := st, deviceUrl := du, controlUrl := cu, serviceType := sty, action := an }
      | _, _, _, _, _ => a.fail "bad svc"
  | "arg" :: rest =>
      match argDecl? rest with
      | some d => { a with args := a.args ++ [d] }
      | none => a.fail ("bad arg " ++ " ".intercalate rest)
  | ["kw", n, v] =>
      match str? n, val? v with
      | some n, some v => { a with kw := a.kw ++ [(n, v)] }
      | _, _ => a.fail "bad kw"
  | "pf" :: rest =>
      match oracleLine? rest with
      | some p => { a with otab := { a.otab with pf := a.otab.pf ++ [p] } }
      | none => a.fail "bad pf"
  | "pd" :: rest =>
      match oracleLine? rest with
      | some p => { a with otab := { a.otab with pd := a.otab.pd ++ [p] } }
      | none => a.fail "bad pd"
  | ["sent", n] => { a with sent := n.toNat! }
  | "exc" :: rest =>
      match excInfo? rest with
      | some e => { a with err := e }
      | none => a.fail "bad exc"
  | ["req", m, u, b] =>
      match str? m, str? u, str? b with
      | some m, some u, some b => { a with method := m, url := u, body := b }
      | _, _, _ => a.fail "bad req"
  | ["hdr", k, v] =>
      match str? k, str? v with
      | some k, some v => { a with headers := a.headers ++ [(k, v)] }
      | _, _ => a.fail "bad hdr"
  | ["tree", t] => { a with hasTree := t != "~" }
  | "el" :: rest =>
      match elLine? rest with
      | some l => { a with els := a.els ++ [l] }
      | none => a.fail "bad el"
  | _ => a.fail ("bad line " ++ " ".intercalate toks)

def optXmlEq : Option Xml → Option Xml → Bool
  | none, none => true
  | some a, some b => xmlEq a b
  | _, _ => false

def optXmlShow : Option Xml → String
  | none => "~"
  | some t => xmlShow t

/-- (corr ok, judge ok, notes) -/
def finish (a : Acc) : Bool × Bool × List String :=
  if !a.bad.isEmpty then (false, false, a.bad) else
  let decl : ActionDecl := { name := a.action, serviceType := a.serviceType, deviceUrl := a.deviceUrl,
                             controlUrl := a.controlUrl, args := a.args, strict := a.strict }
  let O := a.otab.oracles
  let implTree : Option Xml := if a.hasTree then buildTree a.els else none
  let treeBad := a.hasTree && implTree.isNone
  let obs : Obs := { sent := a.sent, err := a.err, method := a.method, url := a.url,
                     headers := a.headers, tree := implTree }
  -- model
  let (reqs, mexc) := asyncCallSend O Gen.C06Types.escapeExtra decl a.kw
  let notes : List String := if treeBad then ["unparsable tree lines"] else []
  let notes := if reqs.length != a.sent then notes ++ [s!"sent impl={a.sent} model={reqs.length}"] else notes
  let notes :=
    match mexc with
    | some e =>
        -- the call raised before sending: compare the exception
        let me := modelExc e
        if some me == a.err then notes else notes ++ [s!"exc impl={excShow a.err} model={excShow (some me)}"]
    | none => notes   -- after a successful send the outcome belongs to C07
  let notes :=
    match reqs with
    | [r] =>
        let n := notes
        let n := if r.method == a.method then n else n ++ [s!"method impl={shw a.method} model={shw r.method}"]
        let n := if r.url == a.url then n else n ++ [s!"url impl={shw a.url} model={shw r.url}"]
        let n := if r.headers == a.headers then n else
          n ++ [s!"headers impl={a.headers.map fun p => (shw p.1, shw p.2)} model={r.headers.map fun p => (shw p.1, shw p.2)}"]
        let n := if r.body == a.body then n else n ++ [s!"body impl={shw a.body} model={shw r.body}"]
        let mt := (readEnvelope a.body).map Envelope.tree
        if a.sent == 1 && !(optXmlEq mt implTree) then n ++ [s!"tree parser={optXmlShow implTree} readEnvelope={optXmlShow mt}"] else n
    | _ => notes
  let corr := notes.isEmpty
  let j := ok O decl a.kw obs
  let notes := if j then notes else
    notes ++ [s!"judge: accepted={repr (allAccepted O decl.strict decl.inArgs a.kw)} sent={a.sent} exc={excShow a.err} url={shw a.url} tree={optXmlShow implTree}"]
  (corr, j, notes)

def main : IO UInt32 := do
  let lines ← readLines (← IO.getStdin)
  let out ← IO.getStdout
  let mut acc : Acc := {}
  let mut cur := ""
  let mut n := 0
  for line in lines do
    let toks := tokens line
    match toks with
    | ["case", id] => cur := id; acc := {}
    | ["end"] =>
        n := n + 1
        let (c, j, notes) := finish acc
        out.putStrLn s!"case {cur} corr={if c then "ok" else "MISMATCH"} judge={if j then "ok" else "FAIL"} {" ; ".intercalate (notes.take 4)}"
    | [] => pure ()
    | _ => acc := step acc toks
  out.putStrLn s!"done {n}"
  return 0

end Upnp.Drv.C06
