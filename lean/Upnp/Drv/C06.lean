/-
  Driver for C06: one case = one declared action + one caller assignment + what the requester
  saw.  Runs the model (`asyncCallSend`), compares it with the implementation's observation
  (request fields and body text literally; `readEnvelope` of the body against the tree the real
  XML parser built) and judges the implementation's observation with `C06.ok`.
-/
import Upnp.Model.C06Wire
import Upnp.Model.C06Anc
namespace Upnp.Drv.C06
open Upnp Upnp.Proto Upnp.C06 Upnp.C06.Wire

/-- one call of the history: the caller's assignment and what the requester saw -/
structure Call where
  kw : Kwargs := []
  otab : OTab := {}
  sent : Nat := 0
  err : Option ExcInfo := none
  method : Str := []
  url : Str := []
  body : Str := []
  headers : List (Str × Str) := []
  hasTree : Bool := false
  els : List ElLine := []

structure Acc where
  strict : Bool := true
  deviceUrl : Str := []              -- the CURRENT description URL (changed by `reinit`)
  controlUrl : Str := []             -- the service's control URL as it was declared when the service was built
  serviceType : Str := []
  action : Str := []
  args : List ArgDecl := []
  cur : Option Call := none
  ncalls : Nat := 0
  notes : List String := []
  jnotes : List String := []
  bad : List String := []

def Acc.fail (a : Acc) (s : String) : Acc := { a with bad := a.bad ++ [s] }

def optXmlEq : Option Xml → Option Xml → Bool
  | none, none => true
  | some a, some b => xmlEq a b
  | _, _ => false

def optXmlShow : Option Xml → String
  | none => "~"
  | some t => xmlShow t

/-- evaluate one finished call with the declaration as it stands NOW (current device URL): the
    model is `asyncCallSend` — a function of (declaration, assignment) only, no memory of earlier
    calls — and the judge is `C06.ok` on the implementation's observation of THIS call. -/
def finishCall (a : Acc) : Acc :=
  match a.cur with
  | none => a
  | some c =>
    let k := a.ncalls
    let a := { a with cur := none, ncalls := k + 1 }
    let decl : ActionDecl := { name := a.action, serviceType := a.serviceType, deviceUrl := a.deviceUrl,
                               controlUrl := a.controlUrl, args := a.args, strict := a.strict }
    let O := c.otab.oracles
    let implTree : Option Xml := if c.hasTree then buildTree c.els else none
    if c.hasTree && implTree.isNone then a.fail s!"call {k}: unparsable tree lines" else
    let obs : Obs := { sent := c.sent, err := c.err, method := c.method, url := c.url,
                       headers := c.headers, tree := implTree }
    -- model
    let (reqs, mexc) := asyncCallSend O Gen.C06Types.escapeExtra Gen.C06Types.nsAttrQuoted decl c.kw
    let notes : List String := []
    let notes := if reqs.length != c.sent then notes ++ [s!"sent impl={c.sent} model={reqs.length}"] else notes
    let notes :=
      match mexc with
      | some e =>
          let me := modelExc e
          if some me == c.err then notes else notes ++ [s!"exc impl={excShow c.err} model={excShow (some me)}"]
      | none => notes   -- after a successful send the outcome belongs to C07
    let notes :=
      match reqs with
      | [r] =>
          let n := notes
          let n := if r.method == c.method then n else n ++ [s!"method impl={shw c.method} model={shw r.method}"]
          let n := if r.url == c.url then n else n ++ [s!"url impl={shw c.url} model={shw r.url}"]
          let n := if r.headers == c.headers then n else
            n ++ [s!"headers impl={c.headers.map fun p => (shw p.1, shw p.2)} model={r.headers.map fun p => (shw p.1, shw p.2)}"]
          let n := if r.body == c.body then n else n ++ [s!"body impl={shw c.body} model={shw r.body}"]
          let mt := (readEnvelope c.body).map Envelope.tree
          if c.sent == 1 && !(optXmlEq mt implTree) then n ++ [s!"tree parser={optXmlShow implTree} readEnvelope={optXmlShow mt}"] else n
      | _ => notes
    -- the instance of `c06_model_ok_gen` for this call, evaluated: the model's own observation
    -- (`modelObs genAnc`, the theorem's term) must pass the same judge
    let notes := if ok O decl c.kw (modelObs genAnc (reqs, mexc)) then notes
                 else notes ++ ["model observation fails C06.ok (case outside the theorem's hypotheses?)"]
    let a := { a with notes := a.notes ++ notes.map (s!"call {k}: " ++ ·) }
    if ok O decl c.kw obs then a
    else { a with jnotes := a.jnotes ++
      [s!"call {k}: judge: accepted={repr (allAccepted O decl.strict decl.inArgs c.kw)} sent={c.sent} exc={excShow c.err} url={shw c.url} deviceUrl={shw a.deviceUrl} tree={optXmlShow implTree}"] }

def updCur (a : Acc) (f : Call → Call) : Acc :=
  match a.cur with
  | some c => { a with cur := some (f c) }
  | none => a.fail "line outside a call"

def step (a : Acc) (toks : List String) : Acc :=
  match toks with
  | ["svc", st, du, cu, sty, an] =>
      match bool? st, str? du, str? cu, str? sty, str? an with
      | some st, some du, some cu, some sty, some an =>
          { a with strict := st, deviceUrl := du, controlUrl := cu, serviceType := sty, action := an }
      | _, _, _, _, _ => a.fail "bad svc"
  | "arg" :: rest =>
      match argDecl? rest with
      | some d => { a with args := a.args ++ [d] }
      | none => a.fail ("bad arg " ++ " ".intercalate rest)
  | ["call"] => { finishCall a with cur := some {} }
  | ["reinit", du, _cu] =>
      -- `UpnpDevice.reinit`: the device's description URL is replaced; the service objects (and the
      -- control URL they were built with) stay
      match str? du with
      | some du => { finishCall a with deviceUrl := du }
      | none => a.fail "bad reinit"
  | ["mutate", _kind] =>
      -- the caller mutated a list / dict the public accessors RETURNED: the accessors hand out fresh
      -- copies, so the model's state (the action as declared) does not change
      finishCall a
  | ["kw", n, v] =>
      match str? n, val? v with
      | some n, some v' => updCur a fun c => { c with kw := c.kw ++ [(n, v')], otab := c.otab.addRepr v }
      | _, _ => a.fail "bad kw"
  | "pf" :: rest =>
      match a.cur with
      | some c => (match c.otab.addParse? rest with
          | some t => { a with cur := some { c with otab := t } }
          | none => a.fail "bad pf")
      | none => a.fail "pf outside a call"
  | ["sent", n] => updCur a fun c => { c with sent := n.toNat! }
  | "exc" :: rest =>
      match excInfo? rest with
      | some e => updCur a fun c => { c with err := e }
      | none => a.fail "bad exc"
  | ["req", m, u, b] =>
      match str? m, str? u, str? b with
      | some m, some u, some b => updCur a fun c => { c with method := m, url := u, body := b }
      | _, _, _ => a.fail "bad req"
  | ["hdr", k, v] =>
      match str? k, str? v with
      | some k, some v => updCur a fun c => { c with headers := c.headers ++ [(k, v)] }
      | _, _ => a.fail "bad hdr"
  | ["tree", t] => updCur a fun c => { c with hasTree := t != "~" }
  | "el" :: rest =>
      match elLine? rest with
      | some l => updCur a fun c => { c with els := c.els ++ [l] }
      | none => a.fail "bad el"
  | _ => a.fail ("bad line " ++ " ".intercalate toks)

/-- (corr ok, judge ok, notes) -/
def finish (a0 : Acc) : Bool × Bool × List String :=
  let a := finishCall a0
  if !a.bad.isEmpty then (false, false, a.bad)
  else if a.ncalls == 0 then (true, true, [])      -- a history without calls (only produced by shrinking) shows nothing
  else (a.notes.isEmpty, a.jnotes.isEmpty, a.notes ++ a.jnotes)

def main : IO UInt32 := do
  let lines ← readLines (← IO.getStdin)
  let out ← IO.getStdout
  let mut acc : Acc := {}
  let mut cur := ""
  let mut n := 0
  for line in lines do
    let toks := tokens line
    match toks with
    | ["case", id] => cur := id; acc := {}
    | ["end"] =>
        n := n + 1
        let (c, j, notes) := finish acc
        out.putStrLn s!"case {cur} corr={if c then "ok" else "MISMATCH"} judge={if j then "ok" else "FAIL"} {" ; ".intercalate (notes.take 4)}"
    | [] => pure ()
    | _ => acc := step acc toks
  out.putStrLn s!"done {n}"
  return 0

end Upnp.Drv.C06
