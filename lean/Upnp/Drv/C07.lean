/-
  Driver for C07: one case = one declared action + one response (status, body text, the XML
  oracle entries for the texts the decoder may hand to the parser) + the observed outcome of
  `async_call`.  Runs the model (`C07.decode`), compares, and judges the implementation's outcome
  with `C07.ok`.
-/
import Upnp.Model.C06Wire
import Upnp.Model.C06Anc
import Upnp.Spec.C07
namespace Upnp.Drv.C07
open Upnp Upnp.Proto Upnp.C06 Upnp.C06.Wire Upnp.C07

/-- one call of the history -/
structure Call where
  otab : OTab := {}
  status : Int := 200
  body : Option Str := none
  xmls : List (Str × Bool × List ElLine) := []     -- newest first
  obs : Option OutObs := none
  items : List (Str × PyVal) := []

structure Acc where
  strict : Bool := true
  deviceUrl : Str := []
  controlUrl : Str := []
  serviceType : Str := []
  action : Str := []
  args : List ArgDecl := []
  cur : Option Call := none          -- the call being read
  ncalls : Nat := 0
  notes : List String := []          -- correspondence notes of finished calls
  jnotes : List String := []         -- judge notes of finished calls
  bad : List String := []

def Acc.fail (a : Acc) (s : String) : Acc := { a with bad := a.bad ++ [s] }

def optInt? (t : String) : Option (Option Int) := if t = "~" then some none else t.toInt?.map some

def obsShow : OutObs → String
  | .ret items => "ret{" ++ ", ".intercalate (items.map fun p => shw p.1 ++ "=" ++ valTok p.2) ++ "}"
  | .exc e => s!"exc {excShow (some e.info)} code={repr e.code} desc={e.desc.map shw} status={repr e.status} typed={e.typed}"

def obsEq : OutObs → OutObs → Bool
  | .ret a, .ret b => a == b
  | .exc a, .exc b => a == b
  | _, _ => false

/-- evaluate one finished call: the model (`C07.decode`, observed through `C07.observe` with the
    generated hierarchy — the very terms of `c07_model_ok_gen`) against the implementation's outcome,
    and the judge `C07.ok` on the implementation's outcome.  Nothing of earlier calls enters. -/
def finishCall (a : Acc) : Acc :=
  match a.cur with
  | none => a
  | some c =>
    let k := a.ncalls
    let a := { a with cur := none, ncalls := k + 1 }
    match c.obs with
    | none => a.fail s!"call {k}: no outcome line"
    | some o0 =>
      let o : OutObs := match o0 with | .ret _ => .ret c.items | e => e
      let decl : ActionDecl := { name := a.action, serviceType := a.serviceType, deviceUrl := a.deviceUrl,
                                 controlUrl := a.controlUrl, args := a.args, strict := a.strict }
      let O := c.otab.oracles
      let table : List (Str × Option Xml × Bool) := c.xmls.map fun (t, y, ls) =>
        if y then (match buildTree ls with | some x => (t, some x, true) | none => (t, none, false))
        else (t, none, true)
      if table.any (fun e => !e.2.2) then a.fail s!"call {k}: unparsable tree lines" else
      let X : XmlOracle := fun t => (table.find? (·.1 == t)).map (·.2.1)
      let m := observe genAnc (decode O X decl c.status c.body)
      let a := if obsEq m o then a
               else { a with notes := a.notes ++ [s!"call {k}: outcome impl={obsShow o} model={obsShow m}"] }
      if ok O X decl c.status c.body o then a
      else { a with jnotes := a.jnotes ++ [s!"call {k}: judge: status={c.status} outcome={obsShow o}"] }

def updCur (a : Acc) (f : Call → Call) : Acc :=
  match a.cur with
  | some c => { a with cur := some (f c) }
  | none => a.fail "line outside a call"

def step (a : Acc) (toks : List String) : Acc :=
  match toks with
  | ["svc", st, du, cu, sty, an] =>
      match bool? st, str? du, str? cu, str? sty, str? an with
      | some st, some du, some cu, some sty, some an =>
          { a with strict := st, deviceUrl := du, controlUrl := cu, serviceType := sty, action := an }
      | _, _, _, _, _ => a.fail "bad svc"
  | "arg" :: rest =>
      match argDecl? rest with
      | some d => { a with args := a.args ++ [d] }
      | none => a.fail ("bad arg " ++ " ".intercalate rest)
  | ["call"] => { finishCall a with cur := some {} }
  | ["mutate", _kind] => finishCall a     -- the caller mutated a RETURNED list / dict: no state in the model
  | "pf" :: rest =>
      match a.cur with
      | some c => (match c.otab.addParse? rest with
          | some t => { a with cur := some { c with otab := t } }
          | none => a.fail "bad pf")
      | none => a.fail "pf outside a call"
  | ["resp", st, b] =>
      match st.toInt?, optStr? b with
      | some st, some b => updCur a fun c => { c with status := st, body := b }
      | _, _ => a.fail "bad resp"
  | ["xml", t, y] =>
      match str? t with
      | some t => updCur a fun c => { c with xmls := (t, y != "~", []) :: c.xmls }
      | none => a.fail "bad xml"
  | "el" :: rest =>
      match elLine? rest with
      | some l => updCur a fun c =>
          match c.xmls with
          | (t, y, ls) :: r => { c with xmls := (t, y, ls ++ [l]) :: r }
          | [] => c
      | none => a.fail "bad el"
  | ["ret"] => updCur a fun c => { c with obs := some (.ret []) }
  | ["item", n, v] =>
      match str? n, val? v with
      | some n, some v' => updCur a fun c => { c with items := c.items ++ [(n, v')], otab := c.otab.addRepr v }
      | _, _ => a.fail "bad item"
  | ["exc", cls, mro, code, desc, status] =>
      -- attributes travel type-tagged (value tokens); anything but None / int (code, status) or
      -- None / str (description) clears `typed`
      let intAttr (t : String) : Option Int × Bool :=
        match val? t with
        | some (.int i) => (some i, true)
        | some .none => (none, true)
        | _ => (none, false)
      let strAttr (t : String) : Option Str × Bool :=
        match val? t with
        | some (.str x) => (some x, true)
        | some .none => (none, true)
        | _ => (none, false)
      let (c', t1) := intAttr code
      let (d, t2) := strAttr desc
      let (st, t3) := intAttr status
      updCur a fun c => { c with obs := some (.exc { info := { cls := cls, mro := if mro = "~" then [] else mro.splitOn "," },
                                                      code := c', desc := d, status := st, typed := t1 && t2 && t3 }) }
  | _ => a.fail ("bad line " ++ " ".intercalate toks)

def finish (a0 : Acc) : Bool × Bool × List String :=
  let a := finishCall a0
  if !a.bad.isEmpty then (false, false, a.bad)
  else if a.ncalls == 0 then (true, true, [])      -- a history without calls (only produced by shrinking) shows nothing
  else (a.notes.isEmpty, a.jnotes.isEmpty, a.notes ++ a.jnotes)

def main : IO UInt32 := do
  let lines ← readLines (← IO.getStdin)
  let out ← IO.getStdout
  let mut acc : Acc := {}
  let mut cur := ""
  let mut n := 0
  for line in lines do
    let toks := tokens line
    match toks with
    | ["case", id] => cur := id; acc := {}
    | ["end"] =>
        n := n + 1
        let (c, j, notes) := finish acc
        out.putStrLn s!"case {cur} corr={if c then "ok" else "MISMATCH"} judge={if j then "ok" else "FAIL"} {" ; ".intercalate (notes.take 4)}"
    | [] => pure ()
    | _ => acc := step acc toks
  out.putStrLn s!"done {n}"
  return 0

end Upnp.Drv.C07
