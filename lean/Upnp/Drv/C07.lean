/-
  Driver for C07: one case = one declared action + one response (status, body text, the XML
  oracle entries for the texts the decoder may hand to the parser) + the observed outcome of
  `async_call`.  Runs the model (`C07.decode`), compares, and judges the implementation's outcome
  with `C07.ok`.
-/
import Upnp.Model.C06Wire
import Upnp.Spec.C07
namespace Upnp.Drv.C07
open Upnp Upnp.Proto Upnp.C06 Upnp.C06.Wire Upnp.C07

structure Acc where
  strict : Bool := true
  deviceUrl : Str := []
  controlUrl : Str := []
  serviceType : Str := []
  action : Str := []
  args : List ArgDecl := []
  otab : OTab := {}
  status : Int := 200
  body : Option Str := none
  xmls : List (Str × Bool × List ElLine) := []     -- newest first
  obs : Option OutObs := none
  items : List (Str × PyVal) := []
  bad : List String := []

def Acc.fail (a : Acc) (s : String) : Acc := { a with bad := a.bad ++ [s] }

def optInt? (t : String) : Option (Option Int) := if t = "~" then some none else t.toInt?.map some

def step (a : Acc) (toks : List String) : Acc :=
  match toks with
  | ["svc", st, du, cu, sty, an] =>
      match bool? st, str? du, str? cu, str? sty, str? an with
      | some st, some du, some cu, some sty, some an =>
          { a with strict := st, deviceUrl := du, controlUrl := cu, serviceType := sty, action := an }
      | _, _, _, _, _ => a.fail "bad svc"
  | "arg" :: rest =>
      match argDecl? rest with
      | some d => { a with args := a.args ++ [d] }
      | none => a.fail ("bad arg " ++ " ".intercalate rest)
  | "pf" :: rest =>
      match oracleLine? rest with
      | some p => { a with otab := { a.otab with pf := a.otab.pf ++ [p] } }
      | none => a.fail "bad pf"
  | "pd" :: rest =>
      match oracleLine? rest with
      | some p => { a with otab := { a.otab with pd := a.otab.pd ++ [p] } }
      | none => a.fail "bad pd"
  | ["resp", st, b] =>
      match st.toInt?, optStr? b with
      | some st, some b => { a with status := st, body := b }
      | _, _ => a.fail "bad resp"
  | ["xml", t, y] =>
      match str? t with
      | some t => { a with xmls := (t, y != "~", []) :: a.xmls }
      | none => a.fail "bad xml"
  | "el" :: rest =>
      match elLine? rest, a.xmls with
      | some l, (t, y, ls) :: r => { a with xmls := (t, y, ls ++ [l]) :: r }
      | _, _ => a.fail "bad el"
  | ["ret"] => { a with obs := some (.ret []) }
  | ["item", n, v] =>
      match str? n, val? v with
      | some n, some v => { a with items := a.items ++ [(n, v)] }
      | _, _ => a.fail "bad item"
  | ["exc", cls, mro, code, desc, status] =>
      match optInt? code, optStr? desc, optInt? status with
      | some c, some d, some s =>
          { a with obs := some (.exc { info := { cls := cls, mro := if mro = "~" then [] else mro.splitOn "," },
                                        code := c, desc := d, status := s }) }
      | _, _, _ => a.fail "bad exc"
  | _ => a.fail ("bad line " ++ " ".intercalate toks)

def ancestors (cls : String) : List String := (Gen.C06Types.excAncestors.lookup cls).getD []

def obsShow : OutObs → String
  | .ret items => "ret{" ++ ", ".intercalate (items.map fun p => shw p.1 ++ "=" ++ valTok p.2) ++ "}"
  | .exc e => s!"exc {excShow (some e.info)} code={repr e.code} desc={e.desc.map shw} status={repr e.status}"

def obsEq : OutObs → OutObs → Bool
  | .ret a, .ret b => a == b
  | .exc a, .exc b => a == b
  | _, _ => false

def finish (a : Acc) : Bool × Bool × List String :=
  if !a.bad.isEmpty then (false, false, a.bad) else
  match a.obs with
  | none => (false, false, ["no outcome line"])
  | some o0 =>
    let o : OutObs := match o0 with | .ret _ => .ret a.items | e => e
    let decl : ActionDecl := { name := a.action, serviceType := a.serviceType, deviceUrl := a.deviceUrl,
                               controlUrl := a.controlUrl, args := a.args, strict := a.strict }
    let O := a.otab.oracles
    let table : List (Str × Option Xml × Bool) := a.xmls.map fun (t, y, ls) =>
      if y then (match buildTree ls with | some x => (t, some x, true) | none => (t, none, false))
      else (t, none, true)
    if table.any (fun e => !e.2.2) then (false, false, ["unparsable tree lines"]) else
    let X : XmlOracle := fun t => (table.find? (·.1 == t)).map (·.2.1)
    let m := observe ancestors (decode O X decl a.status a.body)
    let notes := if obsEq m o then [] else [s!"outcome impl={obsShow o} model={obsShow m}"]
    let corr := notes.isEmpty
    let j := ok O X decl a.status a.body o
    let notes := if j then notes else notes ++ [s!"judge: status={a.status} outcome={obsShow o}"]
    (corr, j, notes)

def main : IO UInt32 := do
  let lines ← readLines (← IO.getStdin)
  let out ← IO.getStdout
  let mut acc : Acc := {}
  let mut cur := ""
  let mut n := 0
  for line in lines do
    let toks := tokens line
    match toks with
    | ["case", id] => cur := id; acc := {}
    | ["end"] =>
        n := n + 1
        let (c, j, notes) := finish acc
        out.putStrLn s!"case {cur} corr={if c then "ok" else "MISMATCH"} judge={if j then "ok" else "FAIL"} {" ; ".intercalate (notes.take 4)}"
    | [] => pure ()
    | _ => acc := step acc toks
  out.putStrLn s!"done {n}"
  return 0

end Upnp.Drv.C07
