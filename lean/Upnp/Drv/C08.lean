/-
  Driver for C08: replays the harness' lines through the table-driven model
  (`Gen.C08Types.table`), compares every result with the implementation's (correspondence) and
  judges the implementation's observations with the predicates of `Spec/C08.lean`.
-/
import Upnp.Proto
import Upnp.Gen.C08Types
import Upnp.Spec.C08
namespace Upnp.Drv.C08
open Upnp Upnp.Proto Upnp.C08

/-- floats travel as exact ratios -/
inductive FV
  | fin (neg : Bool) (num den : Nat)
  | inf (neg : Bool)
  | nan
deriving DecidableEq, Repr

def FV.le : FV → FV → Bool
  | .nan, _ => false
  | _, .nan => false
  | .inf true, _ => true
  | _, .inf false => true
  | .inf false, _ => false
  | _, .inf true => false
  | .fin n a b, .fin n' a' b' =>
      let x : Int := if n then -(Int.ofNat (a * b')) else Int.ofNat (a * b')
      let y : Int := if n' then -(Int.ofNat (a' * b)) else Int.ofNat (a' * b)
      x ≤ y
def FV.eq (a b : FV) : Bool := FV.le a b && FV.le b a

abbrev V := Val FV

structure FTab where
  reprs : List (FV × Str) := []
  parses : List (Str × Option FV) := []

def FTab.ops (t : FTab) : FloatOps FV where
  repr x := match t.reprs.find? (·.1 == x) with
    | some p => p.2
    | none => "?undeclared-float".toList
  parse s := match t.parses.find? (·.1 == s) with
    | some p => p.2
    | none => none
  le := FV.le
  eq := FV.eq

/-! ### tokens -/

def fmtNat3 (l : List Nat) : String := ".".intercalate (l.map toString)

def fmtOff : Option Int → String
  | none => ""
  | some o => s!"@{o}"

def fmtF : FV → String
  | .nan => "f:nan"
  | .inf n => if n then "f:-inf" else "f:inf"
  | .fin n a b => s!"f:{if n then "-" else ""}{a}/{b}"

def fmtVal : V → String
  | .none => "none"
  | .int i => s!"i:{i}"
  | .bool b => if b then "b:1" else "b:0"
  | .float f => fmtF f
  | .str s => "s:" ++ strTok (String.ofList s)
  | .date d => "d:" ++ fmtNat3 [d.y, d.m, d.d]
  | .datetime d t o => "dt:" ++ fmtNat3 [d.y, d.m, d.d, t.h, t.mi, t.s] ++ fmtOff o
  | .time t o => "t:" ++ fmtNat3 [t.h, t.mi, t.s] ++ fmtOff o

def fmtErr : Err → String
  | .valueError => "!RAW:ValueError"
  | .typeError => "!RAW:TypeError"
  | .indexError => "!RAW:IndexError"
  | .attributeError => "!RAW:AttributeError"
  | .unmodelled => "!UNMODELLED"
  | .other => "!OTHER"

def fmtStrRes : Except Err Str → String
  | .ok s => "s:" ++ strTok (String.ofList s)
  | .error e => fmtErr e

def fmtValRes : Except Err V → String
  | .ok v => fmtVal v
  | .error e => fmtErr e

def fmtSetRes : SetRes → String
  | .ok => "ok"
  | .upnpValueError => "!UpnpValueError"
  | .raised e => fmtErr e

def parseErr (t : String) : Err :=
  if t = "!RAW:ValueError" then .valueError
  else if t = "!RAW:TypeError" then .typeError
  else if t = "!RAW:IndexError" then .indexError
  else if t = "!RAW:AttributeError" then .attributeError
  else .other

def parseF (t : String) : Option FV :=
  if t = "nan" then some .nan
  else if t = "inf" then some (.inf false)
  else if t = "-inf" then some (.inf true)
  else
    let (neg, r) := if t.startsWith "-" then (true, (t.drop 1).toString) else (false, t)
    match r.splitOn "/" with
    | [a, b] => do let x ← a.toNat?; let y ← b.toNat?; pure (.fin neg x y)
    | _ => none

def parseNats (s : String) : Option (List Nat) := (s.splitOn ".").mapM (·.toNat?)

def splitOff (s : String) : Option (String × Option Int) :=
  match s.splitOn "@" with
  | [a] => some (a, none)
  | [a, o] => o.toInt?.map fun x => (a, some x)
  | _ => none

def parseVal (t : String) : Option V :=
  if t = "none" then some .none
  else match t.splitOn ":" with
  | ["i", x] => x.toInt?.map .int
  | ["b", x] => if x = "1" then some (.bool true) else if x = "0" then some (.bool false) else none
  | ["f", x] => (parseF x).map .float
  | ["s", x] => (tokStr x).map fun s => .str s.toList
  | ["d", x] => match parseNats x with
      | some [y, m, d] => some (.date ⟨y, m, d⟩)
      | _ => none
  | ["dt", x] => do
      let (a, o) ← splitOff x
      match parseNats a with
      | some [y, m, d, h, mi, s] => some (.datetime ⟨y, m, d⟩ ⟨h, mi, s⟩ o)
      | _ => none
  | ["t", x] => do
      let (a, o) ← splitOff x
      match parseNats a with
      | some [h, mi, s] => some (.time ⟨h, mi, s⟩ o)
      | _ => none
  | _ => none

/-- `s:<hex>` / bare hex for plain string arguments -/
def parseStrArg (t : String) : Option Str := (tokStr t).map (·.toList)

def parseValRes (t : String) : Option (Except Err V) :=
  if t.startsWith "!" then some (.error (parseErr t)) else (parseVal t).map .ok

def parseStrRes (t : String) : Option (Except Err Str) :=
  if t.startsWith "!" then some (.error (parseErr t))
  else match t.splitOn ":" with
    | ["s", x] => (parseStrArg x).map .ok
    | _ => none

def parseSetRes (t : String) : SetRes :=
  if t = "ok" then .ok else if t = "!UpnpValueError" then .upnpValueError else .raised (parseErr t)

def parseSpelling (t : String) : Option Spelling :=
  if t = "canon" then some .canon
  else if t = "dtSpace" then some .dtSpace
  else if t = "offPlain" then some .offPlain
  else if t = "offSpacePlain" then some .offSpacePlain
  else if t = "offSpaceColon" then some .offSpaceColon
  else if t = "zuluU" then some (.zulu true)
  else if t = "zuluL" then some (.zulu false)
  else match t.splitOn "." with
    | ["bool", k, m] => do let a ← k.toNat?; let b ← m.toNat?; pure (.boolWord a b)
    | _ => none

/-- `~` = None -/
def parseOptStr (t : String) : Option (Option Str) :=
  if t = "~" then some none else (parseStrArg t).map some

/-! ### state -/

/-- the operation whose `res` line is awaited -/
inductive Pending
  | none
  | decl
  | rt (v : V)
  | out
  | inp
  | spell (sp : Spelling) (v : V) (s : Str)
  | validate (v : V)
  | set (v : V)
  | setupnp
  | getupnp
  | avalidate (v : V)
  | aset (v : V)
  | asetupnp

structure St where
  row : Option TypeRow := none
  spec : Option (PyType × Bool) := none
  strict : Bool := true
  ft : FTab := {}
  decl : Decl := {}
  dvals : Option (DeclVals FV) := none   -- `none`: some declared text denotes nothing
  schema : Option (Schema FV) := none
  cell : Cell FV := .val .none
  implValue : V := .none                 -- what the implementation's `.value` last read
  argCell : V := .none                   -- `_value` of the `UpnpAction.Argument` bound to the variable
  implArgValue : V := .none
  expect : String := ""                  -- model's `res` line
  pending : Pending := .none
  corrOk : Bool := true
  judgeOk : Bool := true
  notes : List String := []

def note (st : St) (s : String) : St := if st.notes.length < 4 then { st with notes := st.notes ++ [s] } else st
def corrFail (st : St) (s : String) : St := note { st with corrOk := false } s
def judgeFail (st : St) (s : String) : St := note { st with judgeOk := false } s

def tb : Table := Gen.C08Types.table

def kv (toks : List String) (k : String) : Option String :=
  (toks.map splitEq |>.find? (·.1 = k)).map (·.2)

def parseDeclLine (toks : List String) : Option Decl := do
  let range ← kv toks "range"
  let mn ← parseOptStr (← kv toks "min")
  let mx ← parseOptStr (← kv toks "max")
  let al ← kv toks "allowed"
  let allowed : Option (List Str) ←
    if al = "~" then some none
    else if al = "[]" then some (some [])
    else ((al.splitOn ",").mapM parseStrArg).map some
  let df ← parseOptStr (← kv toks "default")
  pure { range := if range = "1" then some (mn, mx) else none, allowed := allowed, default := df }

def parseOptVal (t : String) : Option (Option V) :=
  if t = "~" then some none else (parseVal t).map some

def parseDvalLine (toks : List String) : Option (DeclVals FV) := do
  let mn ← parseOptVal (← kv toks "min")
  let mx ← parseOptVal (← kv toks "max")
  let al ← kv toks "allowed"
  let allowed : Option (List V) ←
    if al = "~" then some none else ((al.splitOn ";").mapM parseVal).map some
  pure { min := mn, max := mx, allowed := allowed }

def stepOp (st : St) (toks : List String) : St :=
  let fo := st.ft.ops
  match toks with
  | ["table", name, strict] =>
      let nm := name.toList
      let st := { st with row := tb.row? nm, spec := specType? nm, strict := strict = "strict=1" }
      if st.row.isNone then corrFail st s!"unknown-type {name}" else st
  | ["fdecl", "repr", f, s] =>
      match parseF f, parseStrArg s with
      | some x, some y => { st with ft := { st.ft with reprs := (x, y) :: st.ft.reprs } }
      | _, _ => corrFail st "bad fdecl"
  | ["fdecl", "parse", s, f] =>
      match parseStrArg s with
      | some y => { st with ft := { st.ft with parses := (y, if f = "!" then none else parseF f) :: st.ft.parses } }
      | none => corrFail st "bad fdecl"
  | "decl" :: rest =>
      match parseDeclLine rest, st.row with
      | some d, some row =>
          let r := mkSchema fo tb row st.strict d
          { st with decl := d, schema := r.toOption, pending := .decl, cell := .val .none, implValue := .none,
                    argCell := .none, implArgValue := .none,
                    expect := match r with | .ok _ => "ok" | .error e => fmtErr e }
      | _, _ => corrFail st "bad decl"
  | "dval" :: rest => { st with dvals := parseDvalLine rest }
  | ["rt", v] =>
      match parseVal v, st.row with
      | some x, some row =>
          let w := coerceUpnp fo row x
          let back : String := match w with
            | .ok s => fmtValRes (coercePython fo tb row s)
            | .error _ => "~"
          { st with pending := .rt x, expect := s!"{fmtStrRes w} {back}" }
      | _, _ => corrFail st s!"bad rt {v}"
  | ["out", v] =>
      match parseVal v, st.row with
      | some x, some row => { st with pending := .out, expect := fmtStrRes (coerceUpnp fo row x) }
      | _, _ => corrFail st s!"bad out {v}"
  | ["in", s] =>
      match parseStrArg s, st.row with
      | some x, some row => { st with pending := .inp, expect := fmtValRes (coercePython fo tb row x) }
      | _, _ => corrFail st s!"bad in {s}"
  | ["spell", sp, v, s] =>
      match parseSpelling sp, parseVal v, parseStrArg s, st.row with
      | some k, some x, some y, some row =>
          { st with pending := .spell k x y, expect := fmtValRes (coercePython fo tb row y) }
      | _, _, _, _ => corrFail st s!"bad spell {sp} {v}"
  | ["validate", v] =>
      match parseVal v, st.schema with
      | some x, some sc =>
          { st with pending := .validate x, expect := if sc.check fo x then "ok" else "!UpnpValueError" }
      | _, _ => corrFail st s!"bad validate {v}"
  | ["set", v] =>
      match parseVal v, st.schema with
      | some x, some sc =>
          let (c, r) := setValue fo sc st.cell x
          { st with pending := .set x, cell := c,
                    expect := s!"{fmtSetRes r} {fmtVal c.read} {if c == .err then "1" else "0"}" }
      | _, _ => corrFail st s!"bad set {v}"
  | ["setupnp", s] =>
      match parseStrArg s, st.schema, st.row with
      | some x, some sc, some row =>
          let (c, r) := setUpnpValue fo tb row sc st.cell x
          { st with pending := .setupnp, cell := c,
                    expect := s!"{fmtSetRes r} {fmtVal c.read} {if c == .err then "1" else "0"} {fmtValRes (coercePython fo tb row x)}" }
      | _, _, _ => corrFail st s!"bad setupnp {s}"
  | ["avalidate", v] =>
      match parseVal v, st.schema with
      | some x, some sc =>
          { st with pending := .avalidate x, expect := if sc.check fo x then "ok" else "!UpnpValueError" }
      | _, _ => corrFail st s!"bad avalidate {v}"
  | ["aset", v] =>
      match parseVal v, st.schema with
      | some x, some sc =>
          let (c, r) := argSetValue fo sc st.argCell x
          { st with pending := .aset x, argCell := c, expect := s!"{fmtSetRes r} {fmtVal c}" }
      | _, _ => corrFail st s!"bad aset {v}"
  | ["asetupnp", s] =>
      match parseStrArg s, st.row with
      | some x, some row =>
          let (c, r) := argSetUpnpValue fo tb row st.argCell x
          { st with pending := .asetupnp, argCell := c, expect := s!"{fmtSetRes r} {fmtVal c}" }
      | _, _ => corrFail st s!"bad asetupnp {s}"
  | ["getupnp"] =>
      match st.row with
      | some row => { st with pending := .getupnp, expect := fmtStrRes (coerceUpnp fo row st.cell.read) }
      | none => corrFail st "bad getupnp"
  | "res" :: rest =>
      let got := " ".intercalate rest
      let st := if got = st.expect then st else corrFail st s!"impl[{got}] model[{st.expect}]"
      let st0 := { st with pending := .none }
      match st.spec with
      | none => judgeFail st0 "type outside the specification"
      | some (ty, needTz) =>
        match st.pending, rest with
        | .decl, [r] =>
            -- every well-formed declaration must yield a variable
            let res : Except Err Unit := if r = "ok" then .ok () else .error (parseErr r)
            if st.dvals.isSome && !declOk res then judgeFail st0 s!"well-formed declaration refused: {r}" else st0
        | .rt v, [w, back] =>
            match parseStrRes w, (if back = "~" then some (.error .other) else parseValRes back) with
            | some w', some b' =>
                if rtOk fo ty v w' b' then st0 else judgeFail st0 s!"round trip of {fmtVal v}: wire={w} back={back}"
            | _, _ => judgeFail st0 s!"unparsable rt result {got}"
        | .inp, [r] =>
            match parseValRes r with
            | some x => if inOk x then st0 else judgeFail st0 s!"conversion raised {r}"
            | none => judgeFail st0 s!"unparsable in result {r}"
        | .spell sp v s, [r] =>
            match parseValRes r with
            | some x =>
                let st1 := if (spell fo sp v) == some s || (spell fo sp v).isNone then st0
                           else corrFail st0 s!"spelling disagrees with Spec.spell for {fmtVal v}"
                if spellJ fo ty sp v s x then st1 else judgeFail st1 s!"spelling of {fmtVal v} read as {r}"
            | none => judgeFail st0 s!"unparsable spell result {r}"
        | .validate v, [r] =>
            match st.dvals with
            | some d =>
                if validateJ fo st.strict ty needTz d v (parseSetRes r) then st0
                else judgeFail st0 s!"validate {fmtVal v} -> {r}"
            | none => st0
        | .set v, [r, after, _] =>
            match parseVal after, st.dvals with
            | some a, some d =>
                let ok := setJ fo st.strict ty needTz d v (parseSetRes r) st.implValue a
                let st1 := { st0 with implValue := a }
                if ok then st1 else judgeFail st1 s!"set {fmtVal v} -> {r}, value {fmtVal st.implValue} -> {after}"
            | some a, none => { st0 with implValue := a }
            | none, _ => judgeFail st0 s!"unparsable value {after}"
        | .setupnp, [r, after, _, conv] =>
            match parseVal after, parseValRes conv, st.dvals with
            | some a, some cv, some d =>
                let ok := setUpnpJ fo st.strict ty needTz d cv (parseSetRes r) st.implValue a
                let st1 := { st0 with implValue := a }
                if ok then st1 else judgeFail st1 s!"upnp_value set -> {r}, value {fmtVal st.implValue} -> {after} (converted {conv})"
            | some a, _, _ => { st0 with implValue := a }
            | none, _, _ => judgeFail st0 s!"unparsable value {after}"
        | .avalidate v, [r] =>
            match st.dvals with
            | some d =>
                if validateJ fo st.strict ty needTz d v (parseSetRes r) then st0
                else judgeFail st0 s!"argument validate {fmtVal v} -> {r}"
            | none => st0
        | .aset v, [r, after] =>
            match parseVal after, st.dvals with
            | some a, some d =>
                let st1 := { st0 with implArgValue := a }
                if setJ fo st.strict ty needTz d v (parseSetRes r) st.implArgValue a then st1
                else judgeFail st1 s!"argument set {fmtVal v} -> {r}, value {fmtVal st.implArgValue} -> {after}"
            | some a, none => { st0 with implArgValue := a }
            | none, _ => judgeFail st0 s!"unparsable value {after}"
        | .asetupnp, [_, after] =>
            -- not judged (design/C08.md: the response decoder); only tracked
            match parseVal after with
            | some a => { st0 with implArgValue := a }
            | none => st0
        | _, _ => st0
  | _ => corrFail st s!"bad-op {" ".intercalate toks}"

def main : IO UInt32 := do
  let lines ← readLines (← IO.getStdin)
  let out ← IO.getStdout
  let mut st : St := {}
  let mut cur := ""
  let mut n := 0
  for line in lines do
    let toks := (line.splitOn " ").filter (· ≠ "")   -- `readLines` already stripped the terminators
    match toks with
    | ["case", id] => cur := id; st := {}
    | ["end"] =>
        n := n + 1
        out.putStrLn s!"case {cur} corr={if st.corrOk then "ok" else "MISMATCH"} judge={if st.judgeOk then "ok" else "FAIL"} {" ; ".intercalate (st.notes.take 3)}"
    | [] => pure ()
    | _ => st := stepOp st toks
  out.putStrLn s!"done {n}"
  return 0

end Upnp.Drv.C08
