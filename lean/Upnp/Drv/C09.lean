/-
  Driver for C09: replays each call with its reaction script through the registry model
  (`C09.runCall`), compares the requests / result / routing observations of the implementation with
  the model's (correspondence) and evaluates the judge `C09.ok` on the IMPLEMENTATION's trace.
-/
import Upnp.Proto
import Upnp.Spec.C09
namespace Upnp.Drv.C09
open Upnp Upnp.Proto Upnp.C09 PyDict

def sOf (s : String) : Str := s.toList
def ofS (s : Str) : String := String.ofList s

/-- hex token → Str -/
def tokS (t : String) : Option Str := (tokStr t).map sOf
/-- optional text: `!` = None -/
def tokOpt (t : String) : Option (Option Str) := if t = "!" then some none else (tokS t).map some
def optTok : Option Str → String
  | none => "!"
  | some s => strTok (ofS s)

def fmtReaction : Reaction → String
  | .resp st sid th => s!"resp {st} {optTok sid} {optTok th}"
  | .connErr => "connerr"
  | .connTimeout => "timeout"

def parseReaction : List String → Option Reaction
  | ["resp", st, sid, th] => do
      let st ← st.toNat?; let sid ← tokOpt sid; let th ← tokOpt th
      pure (.resp st sid th)
  | ["connerr"] => some .connErr
  | ["timeout"] => some .connTimeout
  | _ => none

def insertSorted (x : String × String) : List (String × String) → List (String × String)
  | [] => [x]
  | y :: r => if x.1 < y.1 then x :: y :: r else y :: insertSorted x r

def fmtHeaders (h : PyDict Str Str) : String :=
  let l := (h.map fun p => (ofS p.1, strTok (ofS p.2))).foldl (fun acc x => insertSorted x acc) []
  if l.isEmpty then "~" else ",".intercalate (l.map fun p => s!"{p.1}={p.2}")

def parseHeaders (s : String) : Option (PyDict Str Str) :=
  if s = "~" then some [] else
  (s.splitOn ",").mapM fun t =>
    let (a, b) := splitEq t
    (tokS b).map fun v => (sOf a, v)

def fmtExch (e : Exch) : String :=
  s!"{ofS e.req.method} {e.req.svc} {fmtHeaders e.req.headers} r={match e.req.routed with | some i => toString i | none => "!"} {fmtReaction e.react}"

def parseExch : List String → Option Exch
  | m :: svc :: hs :: rt :: rest => do
      let svc ← svc.toNat?; let h ← parseHeaders hs; let r ← parseReaction rest
      let routed := ((splitEq rt).2).toNat?
      pure ⟨{ method := sOf m, svc := svc, headers := h, routed := routed }, r⟩
  | _ => none

def fmtExc : Exc → String
  | .keyError => "RAW:KeyError"
  | .responseError st => s!"UpnpResponseError:{st}"
  | .sidError => "UpnpSIDError"
  | .connError => "UpnpConnectionError"
  | .connTimeout => "UpnpConnectionTimeoutError"
  | .valueError => "RAW:ValueError"
  | .overflowError => "RAW:OverflowError"
  | .parseError => "RAW:ParseError"
  | .other => "?"

def parseExc (t : String) : Exc :=
  if t = "RAW:KeyError" then .keyError
  else if t = "UpnpSIDError" then .sidError
  else if t = "UpnpConnectionError" then .connError
  else if t = "UpnpConnectionTimeoutError" then .connTimeout
  else if t = "RAW:ValueError" then .valueError
  else if t = "RAW:OverflowError" then .overflowError
  else if t = "RAW:ParseError" then .parseError
  else match t.splitOn ":" with
    | ["UpnpResponseError", n] => (match n.toNat? with | some k => .responseError k | none => .other)
    | _ => .other

def fmtResult : Result → String
  | .sub sid t => s!"sub {strTok (ofS sid)} {t}"
  | .unsub sid => s!"unsub {strTok (ofS sid)}"
  | .none => "none"
  | .exc e => s!"exc {fmtExc e}"

def parseResult : List String → Option Result
  | ["sub", sid, t] => do let s ← tokS sid; let t ← t.toInt?; pure (.sub s t)
  | ["unsub", sid] => do let s ← tokS sid; pure (.unsub s)
  | ["none"] => some .none
  | ["exc", t] => some (.exc (parseExc t))
  | _ => none

def fmtRouted (l : List (Str × Option Nat)) : String :=
  if l.isEmpty then "~" else ",".intercalate (l.map fun p => s!"{strTok (ofS p.1)}:{match p.2 with | some i => toString i | none => "!"}")
def parseRouted (s : String) : Option (List (Str × Option Nat)) :=
  if s = "~" then some [] else
  (s.splitOn ",").mapM fun t => match t.splitOn ":" with
    | [a, b] => (tokS a).map fun k => (k, b.toNat?)
    | _ => none
def fmtSidFor (l : List (Nat × Option Str)) : String :=
  if l.isEmpty then "~" else ",".intercalate (l.map fun p => s!"{p.1}:{optTok p.2}")
def parseSidFor (s : String) : Option (List (Nat × Option Str)) :=
  if s = "~" then some [] else
  (s.splitOn ",").mapM fun t => match t.splitOn ":" with
    | [a, b] => do let i ← a.toNat?; let o ← tokOpt b; pure (i, o)
    | _ => none

def parseCall : List String → Option Call
  | ["sub", i, t] => do pure (.subscribe (← i.toNat?) (← t.toInt?))
  | ["resub", "s", i, t] => do pure (.resubscribe (.svc (← i.toNat?)) (← t.toInt?))
  | ["resub", "i", s, t] => do pure (.resubscribe (.sid (← tokS s)) (← t.toInt?))
  | ["unsub", "s", i] => do pure (.unsubscribe (.svc (← i.toNat?)))
  | ["unsub", "i", s] => do pure (.unsubscribe (.sid (← tokS s)))
  | ["resuball"] => some .resubscribeAll
  | ["unsuball"] => some .unsubscribeAll
  | _ => none

/-- a step being collected -/
structure Pending where
  call : Call
  reacts : List Reaction := []
  reqLines : List String := []     -- implementation, raw
  exch : List Exch := []           -- implementation, parsed
  resLine : String := ""
  res : Result := .none
  routedLine : String := ""
  routed : List (Str × Option Nat) := []
  sidForLine : String := ""
  sidFor : List (Nat × Option Str) := []

structure St where
  cfg : Cfg := ⟨[], []⟩
  probes : List Str := []
  nsvc : Nat := 0
  susp : Bool := false             -- the requester suspends before answering
  rt : Routing := []               -- model registry
  steps : List Step := []          -- implementation trace (reversed)
  cur : Option Pending := none
  corrOk : Bool := true
  cbOk : Bool := true     -- every initial SUBSCRIBE so far carried the callback URL current at its call
  parseOk : Bool := true
  notes : List String := []

def note (st : St) (s : String) : St := { st with notes := st.notes ++ [s] }
def bad (st : St) (s : String) : St := note { st with parseOk := false } s

/-- close the step being collected: run the model, compare, append the implementation's step -/
def finalize (st : St) : St :=
  match st.cur with
  | none => st
  | some p =>
    -- the model's step record is the very object the theorems (`c09_history`) are about
    let ms := modelStepS st.cfg st.susp st.probes st.nsvc st.rt p.call p.reacts
    let o := runCallS st.cfg st.susp st.rt p.call p.reacts
    let mReq := ms.exch.map fmtExch
    let mRes := fmtResult ms.res
    let mRouted := fmtRouted ms.routed
    let mSidFor := fmtSidFor ms.sidFor
    let n := st.steps.length
    let st := if mReq = p.reqLines then st else
      note { st with corrOk := false } s!"step{n} req impl{p.reqLines} model{mReq}"
    let st := if mRes = p.resLine then st else
      note { st with corrOk := false } s!"step{n} res impl[{p.resLine}] model[{mRes}]"
    let st := if mRouted = p.routedLine then st else
      note { st with corrOk := false } s!"step{n} routed impl[{p.routedLine}] model[{mRouted}]"
    let st := if mSidFor = p.sidForLine then st else
      note { st with corrOk := false } s!"step{n} sidfor impl[{p.sidForLine}] model[{mSidFor}]"
    let st := if callbackOk st.cfg.callback p.exch then st else
      note { st with cbOk := false } s!"judge step{n} callback: an initial SUBSCRIBE does not carry the current callback URL {ofS st.cfg.callback}"
    { st with rt := o.rt, cur := none,
              steps := { call := p.call, exch := p.exch, res := p.res, routed := p.routed, sidFor := p.sidFor } :: st.steps }

def stepLine (st : St) (toks : List String) : St :=
  match toks with
  | ["cfg", h, c] =>
      let st := finalize st
      (match tokS h, tokS c with
      | some h, some c => { st with cfg := ⟨h, c⟩ }
      | _, _ => bad st "bad cfg")
  | ["probe", ps] => (match (commaList ps).mapM tokS with
      | some l => { st with probes := l }
      | none => bad st "bad probe")
  | ["nsvc", n] => { st with nsvc := n.toNat! }
  | ["mode", m] => { st with susp := m = "susp" }
  | "call" :: rest =>
      let st := finalize st
      (match parseCall rest with
       | some c => { st with cur := some { call := c } }
       | none => bad st s!"bad call {rest}")
  | "react" :: rest => (match st.cur, parseReaction rest with
      | some p, some r => { st with cur := some { p with reacts := p.reacts ++ [r] } }
      | _, _ => bad st s!"bad react {rest}")
  | "req" :: rest => (match st.cur, parseExch rest with
      | some p, some e => { st with cur := some { p with reqLines := p.reqLines ++ [" ".intercalate rest], exch := p.exch ++ [e] } }
      | _, _ => bad st s!"bad req {rest}")
  | "res" :: rest => (match st.cur, parseResult rest with
      | some p, some r => { st with cur := some { p with resLine := " ".intercalate rest, res := r } }
      | _, _ => bad st s!"bad res {rest}")
  | ["routed", l] => (match st.cur, parseRouted l with
      | some p, some r => { st with cur := some { p with routedLine := l, routed := r } }
      | _, _ => bad st s!"bad routed {l}")
  | ["sidfor", l] => (match st.cur, parseSidFor l with
      | some p, some r => { st with cur := some { p with sidForLine := l, sidFor := r } }
      | _, _ => bad st s!"bad sidfor {l}")
  | _ => bad st s!"bad line {toks}"

def explain (exp : PyDict Str Nat) (s : Step) : String :=
  let exp' := s.exch.foldl foldExch exp
  s!"routed={routedOk exp' s} result={resultOk s} target={targetOk s} fallback={fallbackOk s.call s.exch} valid={s.exch.all (fun e => validReq e.req)} unsubIssued={unsubIssuedOk s.exch} expected[{fmtRouted (exp'.map fun p => (p.1, some p.2))}]"

def main : IO UInt32 := do
  let lines ← readLines (← IO.getStdin)
  let out ← IO.getStdout
  let mut st : St := {}
  let mut cur := ""
  let mut n := 0
  for line in lines do
    let toks := tokens line
    match toks with
    | ["case", id] => cur := id; st := {}
    | ["end"] =>
        n := n + 1
        st := finalize st
        let steps := st.steps.reverse
        let j := C09.ok steps && st.cbOk && st.parseOk
        let inDom := steps.all stepInScope
        let mut notes := st.notes.take 3
        if !j then
          match firstBadFrom [] steps 0 with
          | some (i, exp) => notes := notes ++ [s!"judge step{i} {explain exp (steps.getD i ⟨.resubscribeAll, [], .none, [], []⟩)}"]
          | none => pure ()
        if !inDom then notes := notes ++ ["non-canonical-timeout"]
        out.putStrLn s!"case {cur} corr={if st.corrOk && st.parseOk then "ok" else "MISMATCH"} judge={if j then "ok" else "FAIL"} {" ; ".intercalate notes}"
    | [] => pure ()
    | _ => st := stepLine st toks
  out.putStrLn s!"done {n}"
  return 0

end Upnp.Drv.C09
