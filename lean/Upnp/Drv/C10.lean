/-
  Driver for C10: replays NOTIFY requests through `C10.handleNotify`, compares status, every
  variable's value / updated_at and the callbacks with the implementation's, and evaluates the judge
  `C10.ok` on the IMPLEMENTATION's observations.
-/
import Upnp.C10Proto
namespace Upnp.Drv.C10
open Upnp Upnp.Proto Upnp.C09 Upnp.C10 Upnp.C10Proto PyDict

structure Pending where
  n : Notify
  tick : Nat
  routedTo : Option Nat := none
  resLine : String := ""
  res : NRes := .keyError
  stLines : List (Nat × String) := []
  after : List (Nat × List VarObs) := []
  evLines : List (Nat × String) := []
  events : List (Nat × List (List Str)) := []

structure St where
  ft : FTab := {}                          -- float oracle declared by the harness (`fdecl` lines, first in the case)
  decls : List (List Decl) := []
  vars : List (List Var) := []             -- the declared variables (row + strict-mode schema), built at init
  h : Handler := {}
  inited : Bool := false
  implState : List (List VarObs) := []    -- last observed state of the implementation
  obs : List NObs := []                   -- reversed
  cur : Option Pending := none
  corrOk : Bool := true
  parseOk : Bool := true
  notes : List String := []

def note (st : St) (s : String) : St := { st with notes := st.notes ++ [s] }
def bad (st : St) (s : String) : St := note { st with parseOk := false } s

def initObs (ds : List Decl) : List VarObs := ds.map fun d => (d.name, .none, none)

def ensureInit (st : St) : St :=
  if st.inited then st else
  let inst := st.ft.oracle
  let vars := st.decls.map fun ds => ds.filterMap fun d => @mkVar inst d
  let st := if (vars.map List.length) = (st.decls.map List.length) then st
            else bad st "a declaration the model's factory rejects"
  { st with inited := true, vars := vars, h := { svcs := vars.map fun vs => { vars := vs } },
            implState := st.decls.map initObs }

def finalize (st : St) : St :=
  match st.cur with
  | none => st
  | some p =>
    let inst := st.ft.oracle
    -- the model's observation record is the very object the theorems (`c10_step`) are about
    let mo := @modelObs inst st.h p.n p.tick
    let k := st.obs.length
    let mRes := fmtNRes mo.res
    let st := if mRes = p.resLine then st else note { st with corrOk := false } s!"n{k} res impl[{p.resLine}] model[{mRes}]"
    let nsvc := st.decls.length
    let st := (List.range nsvc).foldl (fun st i =>
      let ms := fmtVarObs (mo.after.getD i [])
      let is := (p.stLines.find? (·.1 == i)).map (·.2) |>.getD "?"
      let st := if ms = is then st else note { st with corrOk := false } s!"n{k} st{i} impl[{is}] model[{ms}]"
      let me := fmtEvents (mo.events.getD i [])
      let ie := (p.evLines.find? (·.1 == i)).map (·.2) |>.getD "?"
      if me = ie then st else note { st with corrOk := false } s!"n{k} ev{i} impl[{ie}] model[{me}]") st
    let after := (List.range nsvc).map fun i => (p.after.find? (·.1 == i)).map (·.2) |>.getD []
    let events := (List.range nsvc).map fun i => (p.events.find? (·.1 == i)).map (·.2) |>.getD []
    let o : NObs := { n := p.n, tick := p.tick, routedTo := p.routedTo, res := p.res,
                      before := st.implState, after := after, events := events }
    { st with h := (@handleNotify inst st.h p.n p.tick).1, cur := none, implState := after, obs := o :: st.obs }

def stepLine (st : St) (toks : List String) : St :=
  match toks with
  | ["factoryfail", e] => bad st s!"the factory raised {e} on a declaration the type table accepts"
  | "fdecl" :: rest => (match st.ft.add rest with
      | some ft => { st with ft := ft }
      | none => bad st s!"bad fdecl {rest}")
  | "decl" :: rest => (match parseDecl rest with
      | some (i, d) => { st with decls := addDecl st.decls i d }
      | none => bad st s!"bad decl {rest}")
  | ["nsvc", n] =>
      let k := n.toNat!
      { st with decls := if st.decls.length < k then st.decls ++ List.replicate (k - st.decls.length) [] else st.decls }
  | ["route", sid, svc] =>
      let st := ensureInit (finalize st)
      (match tokS sid, svc.toNat? with
       | some s, some i => { st with h := { st.h with rt := set st.h.rt s i } }
       | _, _ => bad st "bad route")
  | ["unroute", sid] =>
      let st := ensureInit (finalize st)
      (match tokS sid with
       | some s => { st with h := { st.h with rt := erase st.h.rt s } }
       | none => bad st "bad unroute")
  | "notify" :: tick :: rest =>
      let st := ensureInit (finalize st)
      (match parseNotify rest, tick.toNat? with
       | some n, some t => { st with cur := some { n := n, tick := t } }
       | _, _ => bad st s!"bad notify")
  | ["rt", x] => (match st.cur with
      | some p => { st with cur := some { p with routedTo := x.toNat? } }
      | none => bad st "rt without notify")
  | "res" :: rest => (match st.cur with
      | some p => { st with cur := some { p with resLine := " ".intercalate rest, res := parseNRes rest } }
      | none => bad st "res without notify")
  | ["st", i, l] => (match st.cur, parseVarObs l, i.toNat? with
      | some p, some o, some i => { st with cur := some { p with stLines := p.stLines ++ [(i, l)], after := p.after ++ [(i, o)] } }
      | _, _, _ => bad st s!"bad st {l}")
  | ["ev", i, l] => (match st.cur, parseEvents l, i.toNat? with
      | some p, some e, some i => { st with cur := some { p with evLines := p.evLines ++ [(i, l)], events := p.events ++ [(i, e)] } }
      | _, _, _ => bad st s!"bad ev {l}")
  | _ => bad st s!"bad line {toks}"

def main : IO UInt32 := do
  let lines ← readLines (← IO.getStdin)
  let out ← IO.getStdout
  let mut st : St := {}
  let mut cur := ""
  let mut n := 0
  for line in lines do
    let toks := tokens line
    match toks with
    | ["case", id] => cur := id; st := {}
    | ["end"] =>
        n := n + 1
        st := finalize st
        let obs := st.obs.reverse
        let inst := st.ft.oracle
        let j := @C10.ok inst st.vars obs && st.parseOk
        let mut notes := st.notes.take 3
        if !j then
          match (List.range obs.length).find? (fun i => match obs[i]? with | some o => !(@stepOk inst st.vars o) | none => false) with
          | some i =>
            let o := obs.getD i ⟨⟨⟨none, none, none⟩, [], false⟩, 0, none, .keyError, [], [], []⟩
            notes := notes ++ [s!"judge n{i} res={fmtNRes o.res} want-status={specStatus o.n.hdrs} routed={o.routedTo} wf={bodyWF o.n.body} after={o.after.map fmtVarObs} events={o.events.map fmtEvents}"]
          | none => pure ()
        out.putStrLn s!"case {cur} corr={if st.corrOk && st.parseOk then "ok" else "MISMATCH"} judge={if j then "ok" else "FAIL"} {" ; ".intercalate notes}"
    | [] => pure ()
    | _ => st := stepLine st toks
  out.putStrLn s!"done {n}"
  return 0

end Upnp.Drv.C10
