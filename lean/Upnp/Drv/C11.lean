/-
  Driver for C11: replays a schedule of external events (subscribe started / NOTIFY arrived /
  SUBSCRIBE response arrived) through `C11.step`, compares what each event produced and every
  variable of every service with the implementation's, and evaluates the judge `C11.ok` on the
  IMPLEMENTATION's observations.
-/
import Upnp.C10Proto
import Upnp.Spec.C11
import Upnp.Drv.C09
namespace Upnp.Drv.C11
open Upnp Upnp.Proto Upnp.C09 Upnp.C10 Upnp.C11 Upnp.C10Proto PyDict

def fmtOut : C11.Out → String
  | .sent r => s!"sent {ofS r.method} {r.svc} {Upnp.Drv.C09.fmtHeaders r.headers}"
  | .notified r => s!"notified {fmtNRes r}"
  | .returned r => s!"returned {Upnp.Drv.C09.fmtResult r}"
  | .nothing => "nothing"

def parseOut : List String → Option C11.Out
  | ["sent", m, svc, hs] => do
      let h ← Upnp.Drv.C09.parseHeaders hs
      pure (.sent { method := sOf m, svc := (← svc.toNat?), headers := h })
  | "notified" :: rest => some (.notified (parseNRes rest))
  | "returned" :: rest => (Upnp.Drv.C09.parseResult rest).map .returned
  | ["nothing"] => some .nothing
  | _ => none

def parseEv : List String → Option Ev
  | ["start", svc, t] => do pure (.start (← svc.toNat?) (← t.toInt?))
  | "notify" :: rest => (parseNotify rest).map .notify
  | "respond" :: svc :: rest => do pure (.respond (← svc.toNat?) (← Upnp.Drv.C09.parseReaction rest))
  | _ => none

structure Pending where
  ev : Ev
  outLine : String := ""
  out : C11.Out := .nothing
  stLines : List (Nat × String) := []
  vals : List (Nat × List VarObs) := []
  cbLine : String := ""
  cbs : List Nat := []

structure DSt where
  cfg : Cfg := ⟨[], []⟩
  ft : FTab := {}
  decls : List (List Decl) := []
  vars : List (List Var) := []
  s : St := {}
  inited : Bool := false
  k : Nat := 0
  obs : List Obs := []
  cur : Option Pending := none
  corrOk : Bool := true
  parseOk : Bool := true
  notes : List String := []

def note (st : DSt) (s : String) : DSt := { st with notes := st.notes ++ [s] }
def bad (st : DSt) (s : String) : DSt := note { st with parseOk := false } s

def ensureInit (st : DSt) : DSt :=
  if st.inited then st else
  let inst := st.ft.oracle
  let vars := st.decls.map fun ds => ds.filterMap fun d => @mkVar inst d
  let st := if (vars.map List.length) = (st.decls.map List.length) then st
            else bad st "a declaration the model's factory rejects"
  { st with inited := true, vars := vars, s := initSt vars }

def finalize (st : DSt) : DSt :=
  match st.cur with
  | none => st
  | some p =>
    let inst := st.ft.oracle
    let r := @step inst st.cfg st.s p.ev st.k
    let mo := fmtOut r.2
    let st := if mo = p.outLine then st else note { st with corrOk := false } s!"e{st.k} out impl[{p.outLine}] model[{mo}]"
    let nsvc := st.decls.length
    let st := (List.range nsvc).foldl (fun st i =>
      let ms := fmtVarObs (svcObs (r.1.h.svcs.getD i { vars := [] }))
      let is := (p.stLines.find? (·.1 == i)).map (·.2) |>.getD "?"
      if ms = is then st else note { st with corrOk := false } s!"e{st.k} st{i} impl[{is}] model[{ms}]") st
    let mcb := ",".intercalate (readCbs r.1 |>.map toString)
    let st := if mcb = p.cbLine then st else note { st with corrOk := false } s!"e{st.k} cb impl[{p.cbLine}] model[{mcb}]"
    let vals := (List.range nsvc).map fun i =>
      ((p.vals.find? (·.1 == i)).map (·.2) |>.getD []).map fun o => (o.1, o.2.1)
    { st with s := r.1, k := st.k + 1, cur := none, obs := { ev := p.ev, out := p.out, vals := vals, cbs := p.cbs } :: st.obs }

def stepLine (st : DSt) (toks : List String) : DSt :=
  match toks with
  | ["cfg", h, c] => (match tokS h, tokS c with
      | some h, some c => { st with cfg := ⟨h, c⟩ }
      | _, _ => bad st "bad cfg")
  | ["factoryfail", e] => bad st s!"the factory raised {e} on a declaration the type table accepts"
  | "fdecl" :: rest => (match st.ft.add rest with
      | some ft => { st with ft := ft }
      | none => bad st s!"bad fdecl {rest}")
  | "decl" :: rest => (match parseDecl rest with
      | some (i, d) => { st with decls := addDecl st.decls i d }
      | none => bad st s!"bad decl {rest}")
  | ["nsvc", n] =>
      let k := n.toNat!
      { st with decls := if st.decls.length < k then st.decls ++ List.replicate (k - st.decls.length) [] else st.decls }
  | "ev" :: rest =>
      let st := ensureInit (finalize st)
      (match parseEv rest with
       | some e => { st with cur := some { ev := e } }
       | none => bad st s!"bad ev {rest}")
  | "out" :: rest => (match st.cur, parseOut rest with
      | some p, some o => { st with cur := some { p with outLine := " ".intercalate rest, out := o } }
      | _, _ => bad st s!"bad out {rest}")
  | ["st", i, l] => (match st.cur, parseVarObs l, i.toNat? with
      | some p, some o, some i => { st with cur := some { p with stLines := p.stLines ++ [(i, l)], vals := p.vals ++ [(i, o)] } }
      | _, _, _ => bad st s!"bad st {l}")
  | ["cb", l] => (match st.cur, (if l = "~" then some [] else (l.splitOn ",").mapM (·.toNat?)) with
      | some p, some c => { st with cur := some { p with cbLine := l, cbs := c } }
      | _, _ => bad st s!"bad cb {l}")
  | _ => bad st s!"bad line {toks}"

def main : IO UInt32 := do
  let lines ← readLines (← IO.getStdin)
  let out ← IO.getStdout
  let mut st : DSt := {}
  let mut cur := ""
  let mut n := 0
  for line in lines do
    let toks := tokens line
    match toks with
    | ["case", id] => cur := id; st := {}
    | ["end"] =>
        n := n + 1
        st := finalize st
        let obs := st.obs.reverse
        let inst := st.ft.oracle
        let j := @C11.ok inst st.vars obs && st.parseOk
        let mut notes := st.notes.take 3
        if !j then
          match @firstBadFrom inst st.vars {} obs 0 with
          | some (i, js) =>
            let o := obs.getD i ⟨.start 0 0, .nothing, [], []⟩
            notes := notes ++ [s!"judge e{i} out={fmtOut o.out} outOk={outOk o} cbs={o.cbs} vals={o.vals.map fun l => fmtVarObs (l.map fun p => (p.1, p.2, none))} granted={js.granted.map fun p => (p.1, ofS p.2)} seen={js.seen.length}"]
          | none => pure ()
        if !(allInScope {} (obs.map (·.ev))) then notes := notes ++ ["out-of-scope"]
        out.putStrLn s!"case {cur} corr={if st.corrOk && st.parseOk then "ok" else "MISMATCH"} judge={if j then "ok" else "FAIL"} {" ; ".intercalate notes}"
    | [] => pure ()
    | _ => st := stepLine st toks
  out.putStrLn s!"done {n}"
  return 0

end Upnp.Drv.C11
