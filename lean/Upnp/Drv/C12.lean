/-
  Driver for C12: replays the harness' operation lines through the profile model
  (`Upnp.C12.run` with the configuration generated from the source), compares the model's trace
  with the implementation's (correspondence) and judges the implementation's trace with the
  monitor `Upnp.C12.ok`.
-/
import Upnp.Proto
import Upnp.Model.C12Cfg
import Upnp.Model.C12Profile
import Upnp.Spec.C12
namespace Upnp.Drv.C12
open Upnp Upnp.Proto Upnp.C12

def fmtReac : Reac → String
  | .ok => "ok" | .newSid => "new" | .refuse => "refuse" | .unreach => "unreach" | .comm => "comm"
def parseReac : String → Option Reac
  | "ok" => some .ok | "new" => some .newSid | "refuse" => some .refuse
  | "unreach" => some .unreach | "comm" => some .comm | _ => none
def fmtTmo : Tmo → String
  | .sec n => toString n | .infinite => "inf" | .absent => "abs"
def parseTmo (s : String) : Option Tmo :=
  if s = "inf" then some .infinite else if s = "abs" then some .absent else s.toNat?.map .sec
def fmtKind : Kind → String
  | .sub => "S" | .renew => "R" | .unsub => "U"
def parseKind : String → Option Kind
  | "S" => some .sub | "R" => some .renew | "U" => some .unsub | _ => none
def fmtOptSid : Option Sid → String
  | some s => toString s | none => "-"
def parseOptSid (s : String) : Option (Option Sid) :=
  if s = "-" then some none else s.toNat?.map some
def fmtB (b : Bool) : String := if b then "T" else "F"
def parseB : String → Option Bool
  | "T" => some true | "F" => some false | _ => none
def fmtSids (l : List Sid) : String := if l.isEmpty then "~" else ",".intercalate (l.map toString)
def parseSids (s : String) : Option (List Sid) :=
  if s = "~" then some [] else (s.splitOn ",").mapM (·.toNat?)
def fmtRes : Res → String
  | none => "ok"
  | some .refuse => "UpnpResponseError"
  | some .unreach => "UpnpConnectionError"
  | some .comm => "UpnpCommunicationError"
  | some r => "?" ++ fmtReac r
def parseRes : String → Option Res
  | "ok" => some none
  | "UpnpResponseError" => some (some .refuse)
  | "UpnpConnectionError" => some (some .unreach)
  | "UpnpCommunicationError" => some (some .comm)
  | _ => none
def fmtCall : CallK → String
  | .sub _ => "sub" | .unsub => "unsub"

def fmtEv : Ev → String
  | .req r => s!"req {r.t} {fmtKind r.kind} {r.svc} {fmtOptSid r.sid} {fmtReac r.reac} {fmtTmo r.tmo} {r.lat} {fmtOptSid r.granted}"
  | .cb t svc nv av => s!"cb {t} {svc} {nv} {fmtB av}"
  | .call t c => s!"call {t} {fmtCall c}"
  | .ret t c res => s!"ret {t} {fmtCall c} {fmtRes res}"
  | .snap t subs routed task av => s!"snap {t} {fmtSids subs} {fmtSids routed} {fmtB task} {fmtB av}"
  | .spin t => s!"spin {t}"

/-- parse one `o …` line of the harness (without the leading `o`); `auto` = the last `sub` op's flag -/
def parseEv (auto : Bool) (toks : List String) : Option Ev :=
  match toks with
  | ["req", t, k, svc, sid, reac, tmo, lat, g] => do
      pure (.req { t := ← t.toInt?, kind := ← parseKind k, svc := ← svc.toNat?, sid := ← parseOptSid sid,
                   reac := ← parseReac reac, tmo := ← parseTmo tmo, lat := ← lat.toNat?, granted := ← parseOptSid g })
  | ["cb", t, svc, nv, av] => do pure (.cb (← t.toInt?) (← svc.toNat?) (← nv.toNat?) (← parseB av))
  | ["call", t, "sub"] => do pure (.call (← t.toInt?) (.sub auto))
  | ["call", t, "unsub"] => do pure (.call (← t.toInt?) .unsub)
  | ["ret", t, "sub", r] => do pure (.ret (← t.toInt?) (.sub auto) (← parseRes r))
  | ["ret", t, "unsub", r] => do pure (.ret (← t.toInt?) .unsub (← parseRes r))
  | ["snap", t, subs, routed, task, av] => do
      pure (.snap (← t.toInt?) (← parseSids subs) (← parseSids routed) (← parseB task) (← parseB av))
  | ["spin", t] => do pure (.spin (← t.toInt?))
  | _ => none

def parseEntry (s : String) : Option Entry :=
  match s.splitOn ":" with
  | [r, t, l] => do pure { reac := ← parseReac r, tmo := ← parseTmo t, lat := ← l.toNat? }
  | _ => none

structure Acc where
  n : Nat := 0
  script : List Entry := []
  dflt : Entry := ⟨.ok, .sec 1800, 0⟩
  ops : Array Op := #[]
  impl : Array String := #[]       -- implementation's observation lines (text)
  implEv : Array Ev := #[]
  lastAuto : Bool := false
  notes : List String := []
  parseOk : Bool := true

def Acc.note (a : Acc) (s : String) : Acc := { a with notes := a.notes ++ [s] }

def feed (a : Acc) (toks : List String) : Acc :=
  match toks with
  | ["cfg", n] => { a with n := n.toNat! }
  | ["script", s] =>
      if s = "~" then a else
      match (s.splitOn ",").mapM parseEntry with
      | some l => { a with script := l }
      | none => { a.note "bad-script" with parseOk := false }
  | ["default", s] =>
      (match parseEntry s with
       | some e => { a with dflt := e }
       | none => { a.note "bad-default" with parseOk := false })
  | ["sub", f] => { a with ops := a.ops.push (.sub (f = "1")), lastAuto := f = "1" }
  | ["wait", d] => { a with ops := a.ops.push (.wait d.toNat!) }
  | ["unsub"] => { a with ops := a.ops.push .unsub }
  | "o" :: rest =>
      let a := { a with impl := a.impl.push (" ".intercalate rest) }
      (match parseEv a.lastAuto rest with
       | some e => { a with implEv := a.implEv.push e }
       | none => { a.note s!"unparsable[{" ".intercalate rest}]" with parseOk := false })
  | _ => { a.note s!"bad-line[{" ".intercalate toks}]" with parseOk := false }

def isSpin (s : String) : Bool := s.startsWith "spin "

/-- first index where the two traces differ -/
def firstDiff (a b : List String) (i : Nat := 0) : Option (Nat × String × String) :=
  match a, b with
  | [], [] => none
  | x :: a', y :: b' => if x = y then firstDiff a' b' (i + 1) else some (i, x, y)
  | x :: _, [] => some (i, x, "<end>")
  | [], y :: _ => some (i, "<end>", y)

def isPrefix : List String → List String → Bool
  | [], _ => true
  | _ :: _, [] => false
  | x :: a, y :: b => x == y && isPrefix a b

def finish (a : Acc) : Bool × Bool × List String :=
  let cfg := genCfg
  let st := run cfg a.n a.script a.dflt a.ops.toList
  let model := st.trace.map fmtEv
  let impl := a.impl.toList
  -- a run that ends in `spin` is compared up to the spin (the two watchdogs count differently)
  let corr : Bool × List String :=
    if impl.any isSpin || model.any isSpin then
      let pi := impl.takeWhile (!isSpin ·)
      let pm := model.takeWhile (!isSpin ·)
      if impl.any isSpin && model.any isSpin && (isPrefix pi pm || isPrefix pm pi) then (true, [])
      else (false, [s!"spin impl={impl.any isSpin} model={model.any isSpin}"])
    else match firstDiff impl model with
      | none => (true, [])
      | some (i, x, y) => (false, [s!"obs#{i} impl[{x}] model[{y}]"])
  let bad := violations a.n marginSecs cfg.subTimeout a.implEv.toList
  let judgeOk := a.parseOk && bad.isEmpty
  (corr.1 && a.parseOk, judgeOk, (bad.map (s!"judge:{·}")) ++ corr.2 ++ a.notes)

def main : IO UInt32 := do
  let lines ← readLines (← IO.getStdin)
  let out ← IO.getStdout
  let mut acc : Acc := {}
  let mut cur := ""
  let mut n := 0
  for line in lines do
    let toks := tokens line
    match toks with
    | ["case", id] => cur := id; acc := {}
    | ["end"] =>
        n := n + 1
        let (c, j, notes) := finish acc
        out.putStrLn s!"case {cur} corr={if c then "ok" else "MISMATCH"} judge={if j then "ok" else "FAIL"} {" ; ".intercalate (notes.take 4)}"
    | [] => pure ()
    | _ => acc := feed acc toks
  out.putStrLn s!"done {n}"
  return 0

end Upnp.Drv.C12
