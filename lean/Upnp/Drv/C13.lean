/-
  Driver for C13: rebuilds the case from the harness' lines, runs the server model
  (`C13.runCase`), compares every observation of the implementation with the model's
  (correspondence: instantiated tree, randrange arguments, every datagram byte for byte with its
  virtual send time and destination, what the real listener reported) and judges the
  implementation's observations with `C13.ok`.
-/
import Upnp.Proto
import Upnp.Gen.C13Server
import Upnp.Model.C13Consts
import Upnp.Model.C13Run
import Upnp.Model.C13Loop
namespace Upnp.Drv.C13
open Upnp Upnp.Proto Upnp.C13

def consts : Consts := genConsts

/-- hex digit value of an ASCII byte (255 = not a hex digit) -/
@[inline] def hexNib (b : UInt8) : UInt8 :=
  if 48 ≤ b && b ≤ 57 then b - 48 else if 97 ≤ b && b ≤ 102 then b - 87 else 255

/-- fast decoder for the hex tokens (`-` = empty); falls back to `?` on malformed input -/
def str (t : String) : Str :=
  if t = "-" then [] else
  let bs := t.toUTF8
  if bs.size % 2 ≠ 0 then ['?'] else Id.run do
    let mut out : ByteArray := ByteArray.emptyWithCapacity (bs.size / 2)
    let mut ok := true
    for i in [0:bs.size / 2] do
      let a := hexNib bs[2 * i]!
      let b := hexNib bs[2 * i + 1]!
      if a == 255 || b == 255 then ok := false
      out := out.push (a * 16 + b)
    if !ok then return ['?']
    match String.fromUTF8? out with
    | some s => return s.toList
    | none => return ['?']
def optStr (t : String) : Option Str := if t = "!" then none else some (str t)
def strList (t : String) : List Str := if t = "~" then [] else (t.splitOn ",").map str
def show' (s : Str) : String := String.ofList s

structure Node where
  depth : Nat
  udn : Str
  type : Str
  svcs : List Str
  ids : List Str      -- service ids (class lines only)

/-- rebuild a forest from a pre-order list with depths -/
partial def forest (depth : Nat) (l : List Node) : List ClsTree × List Node :=
  match l with
  | [] => ([], [])
  | n :: rest =>
    if n.depth < depth then ([], l)
    else
      let (kids, rest1) := forest (n.depth + 1) rest
      let (sibs, rest2) := forest depth rest1
      let ids := n.ids ++ List.replicate (n.svcs.length - n.ids.length) []
      (ClsTree.node n.udn n.type (n.svcs.zip ids) kids :: sibs, rest2)

def clsOf (l : List Node) : Option ClsTree :=
  match forest 0 l with
  | ([t], []) => some t
  | _ => none

/-- an observed instance tree: the same shape, nothing merged or dropped -/
partial def asDev : ClsTree → DevTree
  | .node u t s cs => .node u t (s.map (·.1)) (cs.map asDev)

def treeOf (l : List Node) : Option DevTree := (clsOf l).map asDev

/-- one observed datagram before it is parsed -/
structure RawMsg where
  time : Int
  dest : Str
  packet : Str
  heard : Heard := Heard.no

structure RawSearch where
  inp : SearchIn
  rr : Option (Option (Int × Int)) := none     -- observed randrange arguments (`some none` = not called)
  raised : Option String := none

inductive Ctx where | none | search | alive | bye

structure St where
  cfg : Option (Cfg × Str) := none
  alwaysRoot : Bool := false
  cls : Array Node := #[]
  dev : Array Node := #[]
  searches : Array RawSearch := #[]
  resps : Array RawMsg := #[]          -- every datagram on the response socket, in send order
  ann : Option AnnIn := none
  alives : Array RawMsg := #[]
  byes : Array RawMsg := #[]
  ctx : Ctx := .none
  bad : List String := []

def toObs (m : RawMsg) : ObsMsg :=
  match parsePacket m.packet with
  | some (line, hs) =>
    let nts := header hs "nts".toList
    { time := m.time, dest := m.dest, startLine := line,
      st := if nts.isEmpty then header hs "st".toList else header hs "nt".toList,
      usn := header hs "usn".toList, nts := nts, location := header hs "location".toList, heard := m.heard }
  | none => { time := m.time, dest := m.dest, startLine := [], st := [], usn := [], nts := [], location := [], heard := m.heard }

def parseNode (d u t s : String) (ids : String := "~") : Node := ⟨d.toNat!, str u, str t, strList s, strList ids⟩

def setHeard (a : Array RawMsg) (h : Heard) : Array RawMsg :=
  if a.size = 0 then a else a.modify (a.size - 1) fun m => { m with heard := h }

def step (st : St) (toks : List String) : St :=
  match toks with
  | ["cfg", b, u, srv, date, boot, conf, host, target, ar] =>
    let c : Cfg := { baseUri := str b, deviceUrl := str u, server := str srv,
                     cacheControl := Gen.C13Server.cacheControl, date := str date,
                     bootId := str boot, configId := str conf, host := str host }
    let ov : OptVal := if ar == "truthy" then .truthy else if ar == "falsy" then .falsy else .absent
    { st with alwaysRoot := ov.isSet, cfg := some (c, str target) }
  | ["cls", d, u, t, s, ids] => { st with cls := st.cls.push (parseNode d u t s ids) }
  | ["dev", d, u, t, s] => { st with dev := st.dev.push (parseNode d u t s) }
  | ["search", _id, time, reqr, line, man, stt, mx, sel] =>
    let inp : SearchIn := { time := time.toInt!, requester := str reqr,
                            req := { line := str line, man := optStr man, st := optStr stt, mx := optStr mx },
                            sel := if sel = "max" then none else some sel.toNat! }
    { st with searches := st.searches.push { inp := inp }, ctx := .search }
  | ["rr", "none"] =>
    { st with searches := st.searches.modify (st.searches.size - 1) fun s => { s with rr := some none } }
  | ["rr", lo, hi] =>
    { st with searches := st.searches.modify (st.searches.size - 1) fun s => { s with rr := some (some (lo.toInt!, hi.toInt!)) } }
  | ["raise", e] =>
    { st with searches := st.searches.modify (st.searches.size - 1) fun s => { s with raised := some e } }
  | ["sent", time, dest, pkt] =>
    { st with resps := st.resps.push { time := time.toInt!, dest := str dest, packet := str pkt }, ctx := .search }
  | ["ann", start, upto, stopped] =>
    { st with ann := some { start := start.toInt!, upto := upto.toInt!, stopped := stopped = "1" } }
  | ["alive", time, dest, pkt] =>
    { st with alives := st.alives.push { time := time.toInt!, dest := str dest, packet := str pkt }, ctx := .alive }
  | ["bye", time, dest, pkt] =>
    { st with byes := st.byes.push { time := time.toInt!, dest := str dest, packet := str pkt }, ctx := .bye }
  | ["heard", acc, udn, dst, loc, kind] =>
    let h : Heard := ⟨acc = "T", str udn, str dst, str loc, kind.toNat!⟩
    match st.ctx with
    | .search => { st with resps := setHeard st.resps h }
    | .alive => { st with alives := setHeard st.alives h }
    | .bye => { st with byes := setHeard st.byes h }
    | .none => { st with bad := st.bad ++ ["heard without message"] }
  | _ => { st with bad := st.bad ++ [s!"bad-line {" ".intercalate toks}"] }

def showHeard (h : Heard) : String :=
  s!"{if h.accepted then "T" else "F"}/{show' h.udn}/{show' h.dst}/{show' h.location}/{h.kind}"

/-- compare the implementation's datagrams with the model's: (time, dest, packet bytes, heard) -/
def cmpMsgs (what : String) (impl : List RawMsg) (model : List (ObsMsg × Str)) : List String :=
  if impl.length ≠ model.length then
    [s!"{what}: impl sent {impl.length} datagram(s), model {model.length}"]
  else
    ((impl.zip model).zipIdx.filterMap fun ((i, (m, pkt)), idx) =>
      if i.time ≠ m.time then some s!"{what}#{idx}: time impl={i.time} model={m.time}"
      else if i.dest ≠ m.dest then some s!"{what}#{idx}: dest impl={show' i.dest} model={show' m.dest}"
      else if i.packet ≠ pkt then some s!"{what}#{idx}: packet impl=[{show' i.packet}] model=[{show' pkt}]"
      else if i.heard ≠ m.heard then some s!"{what}#{idx}: heard impl={showHeard i.heard} model={showHeard m.heard}"
      else none).take 2

def finish (st : St) : Bool × Bool × List String :=
  match st.cfg, clsOf st.cls.toList, treeOf st.dev.toList with
  | some (cfg, target), some cls, some dev =>
    let k : Consts := { consts with alwaysRoot := st.alwaysRoot }
    -- correspondence
    let mtree := build cls
    let n1 := if mtree == dev then [] else ["tree: instantiated tree differs from build(classes)"]
    let ins := st.searches.toList.map (·.inp)
    let mcase := runCase k cfg target dev ins st.ann
    let n2 := (st.searches.toList.zip mcase.searches).zipIdx.flatMap fun ((rs, ms), idx) =>
      let what := s!"search{idx}"
      let plan := onData k dev rs.inp.req
      let mrr : Option (Int × Int) := match plan with | .send _ l _ => l | .ignore => none
      let ans := answer k dev rs.inp.time rs.inp.req rs.inp.sel
      let r1 := match rs.rr with
        | some r => if r = mrr then [] else [s!"{what}: randrange args impl={repr r} model={repr mrr}"]
        | none => [s!"{what}: no rr line"]
      let r2 := match rs.raised, ans with
        | some e, some _ => [s!"{what}: impl raised {e}, model does not"]
        | none, none => [s!"{what}: model raises, impl does not"]
        | _, _ => []
      r1 ++ r2
    -- the response socket, requester by requester (several searches may share one), in time order
    let reqs := (ins.map (·.requester)).eraseDups
    let byTime (l : List ObsMsg) : List ObsMsg := l.mergeSort fun a b => decide (a.time ≤ b.time)
    let n2b := (reqs.zipIdx.flatMap fun (r, idx) =>
      cmpMsgs s!"requester{idx}" (st.resps.toList.filter fun m => m.dest == r)
        ((byTime (mcase.responses.filter fun m => m.dest == r)).map fun m => (m, responsePacket cfg ⟨m.st, m.usn⟩)))
      ++ (if st.resps.toList.all (fun m => reqs.contains m.dest) then [] else ["a datagram went to an address nobody searched from"])
    let n3 := cmpMsgs "alive" st.alives.toList (mcase.alives.map fun m => (m, notifyPacket cfg ntsAlive ⟨m.st, m.usn⟩))
    let n4 := cmpMsgs "bye" st.byes.toList (mcase.byebyes.map fun m => (m, notifyPacket cfg ntsByebye ⟨m.st, m.usn⟩))
    -- the event-loop state machine over the same history (receptions at their observed times)
    let (evs, _) := st.searches.toList.foldl (fun (acc : List Ev × Int) rs =>
        (acc.1 ++ [Ev.advance (rs.inp.time - acc.2).toNat, Ev.recv rs.inp.requester rs.inp.req rs.inp.sel], rs.inp.time))
      (([] : List Ev), (0 : Int))
    let loopS := runLoop k dev {} (evs ++ [Ev.advance (k.mxCap * 1000)])
    let n5 := ((reqs.zipIdx.filterMap fun (r, idx) =>
      let mine := ((loopS.log.filter fun o => o.dest == r).mergeSort fun a b => decide (a.time ≤ b.time)).map
        fun o => (o.time, o.msg.st, o.msg.usn)
      let impl := (st.resps.toList.filter fun m => m.dest == r).map fun m => let o := toObs m; (o.time, o.st, o.usn)
      if mine == impl then none
      else some s!"loop requester{idx}: loop model sends {mine.length} datagram(s) at {repr (mine.map (·.1))}, impl {impl.length} at {repr (impl.map (·.1))}")
      ++ (st.searches.toList.zipIdx.filterMap fun (rs, idx) =>
        if rs.raised.isSome && !(loopS.raisedAt.contains rs.inp.time) then some s!"loop search{idx}: impl raised, loop model did not"
        else none)).take 2
    let n6 := if loopS.timers.isEmpty then [] else ["loop: timers left after the flush"]
    let corrNotes := st.bad ++ n1 ++ n2 ++ n2b ++ n3 ++ n4 ++ n5 ++ n6
    -- judge, on the implementation's observations only
    let icase : CaseObs :=
      { tree := dev, alwaysRoot := k.alwaysRoot, location := cfg.location, target := target,
        searches := st.searches.toList.map fun rs =>
          { time := rs.inp.time, requester := rs.inp.requester, req := rs.inp.req, raised := rs.raised.isSome },
        responses := st.resps.toList.map toObs,
        alives := st.alives.toList.map toObs,
        stopTime := match st.ann with | some a => if a.stopped then some a.upto else none | none => none,
        annUpto := st.ann.map (·.upto),
        annStart := st.ann.map (·.start),
        maxAgeMs := maxAgeOf cfg.cacheControl,
        byebyes := st.byes.toList.map toObs }
    let wf := wfTree dev
    let showM (m : ObsMsg) : String := s!"{show' m.st}|{show' m.usn}@{m.time}ms heard={showHeard m.heard}"
    let jn1 := if okResponses icase then [] else
      ((icase.searches.zipIdx.filterMap fun (s, idx) =>
          if isMSearch s.req && s.raised then some s!"judge search{idx}: the handler raised" else none)
       ++ (icase.responses.filterMap fun m =>
          if icase.searches.any (fun s => s.requester == m.dest && !isMSearch s.req)
             || (m.startLine == okLine && m.nts.isEmpty && m.location == icase.location && icase.searches.any fun s => accounts icase s m)
          then none else some s!"judge: datagram to {show' m.dest} accounted for by no search: {showM m}")
       ++ (reqs.filterMap fun r =>
          if icase.searches.any (fun s => s.requester == r && !isMSearch s.req) || okRequester icase r then none
          else
            let ss := icase.searches.filter (·.requester == r)
            some s!"judge requester {show' r}: searches [{", ".intercalate (ss.map fun s => s!"st={show' (s.req.st.getD [])} mx={show' (s.req.mx.getD "!".toList)} at {s.time}ms")}] prescribe [{", ".intercalate (ss.flatMap fun s => (expOf icase s).1.map fun e => show' e.st ++ "|" ++ show' e.usn)}] got [{", ".intercalate ((icase.responses.filter (·.dest == r)).map showM)}]")).take 2
    let jn2 := if okAlives icase then [] else [s!"judge alives: [{", ".intercalate (icase.alives.map fun m => s!"{show' m.st}|{show' m.usn}@{m.time} heard={showHeard m.heard}")}]"]
    let jn3 := if okByebyes icase then [] else [s!"judge byebyes: [{", ".intercalate (icase.byebyes.map fun m => s!"{show' m.st}|{show' m.usn}@{m.time} heard={showHeard m.heard}")}]"]
    let jn0 := if wf then [] else ["tree outside the property's domain (wfTree = false)"]
    let jnotes := jn0 ++ jn1 ++ jn2 ++ jn3
    (corrNotes.isEmpty, ok icase && wf, jnotes ++ corrNotes)
  | _, _, _ => (false, false, ["case header incomplete (cfg / cls / dev)"] ++ st.bad)

def oneLine (s : String) : String := (s.replace "\r" "\\r").replace "\n" "\\n"

/-- stdin line by line (the shared `readLines`/`tokens` scan every character several times, which
    dominates on this property's long hex lines) -/
partial def loop (h : IO.FS.Stream) (out : IO.FS.Stream) (st : St) (cur : String) (n : Nat) : IO Nat := do
  let line ← h.getLine
  if line.isEmpty then return n
  let toks := (line.trimRight.splitOn " ").filter (· ≠ "")
  match toks with
  | ["case", id] => loop h out {} id n
  | ["end"] =>
      let (c, j, notes) := finish st
      out.putStrLn s!"case {cur} corr={if c then "ok" else "MISMATCH"} judge={if j then "ok" else "FAIL"} {oneLine (" ; ".intercalate (notes.take 3))}"
      loop h out {} cur (n + 1)
  | [] => loop h out st cur n
  | _ => loop h out (step st toks) cur n

def main : IO UInt32 := do
  let out ← IO.getStdout
  let n ← loop (← IO.getStdin) out {} "" 0
  out.putStrLn s!"done {n}"
  return 0

end Upnp.Drv.C13
