/-
  Driver for C14.  Replays the harness' definition / call / raw-request lines through the model
  (`Model/C14Server.lean`), compares every observation of the implementation with the model's
  (correspondence) and judges the implementation's observations with `Spec/C14.lean`.
  Line protocol: see `harness/c14.py` (module docstring).
-/
import Upnp.Proto
import Upnp.Model.C14Server
import Upnp.Spec.C14
namespace Upnp.Drv.C14
open Upnp Upnp.Proto Upnp.C14

/-! ### tokens -/

def sTok (s : Str) : String := strTok (String.ofList s)
def sOfTok (t : String) : Option Str := (tokStr t).map (·.toList)
/-- optional text: `~` = None -/
def optTok (o : Option Str) : String := match o with | some s => sTok s | none => "~"
def optOfTok (t : String) : Option (Option Str) := if t = "~" then some none else (sOfTok t).map some

def otyTok : OTy → String | .float => "float" | .date => "date" | .datetime => "datetime" | .time => "time"
def otyOfTok : String → Option OTy
  | "float" => some .float | "date" => some .date | "datetime" => some .datetime | "time" => some .time
  | _ => none

def valTok : Val → String
  | .int n => s!"i:{n}"
  | .str s => s!"s:{sTok s}"
  | .bool b => if b then "b:1" else "b:0"
  | .opq t tz k c => s!"o:{otyTok t}:{if tz then 1 else 0}:{k}:{sTok c}"

def valOfTok (t : String) : Option Val :=
  match t.splitOn ":" with
  | ["i", n] => n.toInt?.map .int
  | ["s", h] => (sOfTok h).map .str
  | ["b", "1"] => some (.bool true)
  | ["b", "0"] => some (.bool false)
  | ["o", ty, tz, k, c] => do
      let ty ← otyOfTok ty; let k ← k.toInt?; let c ← sOfTok c
      pure (.opq ty (tz = "1") k c)
  | _ => none

def insertBy {α : Type} (lt : α → α → Bool) (x : α) : List α → List α
  | [] => [x]
  | y :: r => if lt x y then x :: y :: r else y :: insertBy lt x r
def sortBy {α : Type} (lt : α → α → Bool) (l : List α) : List α := l.foldr (insertBy lt) []

def strLt (a b : Str) : Bool := String.ofList a < String.ofList b

/-- `name=val,name=val` sorted by name; `~` = empty -/
def dictTok (d : List (Str × Val)) : String :=
  if d.isEmpty then "~" else
  ",".intercalate ((sortBy (fun a b => strLt a.1 b.1) d).map fun p => s!"{String.ofList p.1}={valTok p.2}")
def dictOfTok (t : String) : Option (List (Str × Val)) :=
  if t = "~" then some [] else
  (t.splitOn ",").mapM fun e =>
    let (k, v) := splitEq e
    (valOfTok v).map fun x => (k.toList, x)
def optDictTok (o : Option (List (Str × Val))) : String := match o with | some d => dictTok d | none => "!"
def optDictOfTok (t : String) : Option (Option (List (Str × Val))) :=
  if t = "!" then some none else (dictOfTok t).map some

def tvTok : TV → String | .none => "N" | .val v => valTok v | .raises => "!"
def tvOfTok (t : String) : Option TV :=
  if t = "N" then some .none else if t = "!" then some .raises else (valOfTok t).map .val

def natOptTok (o : Option Nat) : String := match o with | some n => toString n | none => "N"
def natOptOfTok (t : String) : Option (Option Nat) := if t = "N" then some none else t.toNat?.map some

def argsTok (l : List (Str × Str)) : String :=
  if l.isEmpty then "~" else ",".intercalate (l.map fun p => s!"{String.ofList p.1}:{String.ofList p.2}")
def argsOfTok (t : String) : List (Str × Str) :=
  if t = "~" then [] else (t.splitOn ",").filterMap fun e =>
    match e.splitOn ":" with
    | [a, b] => some (a.toList, b.toList)
    | _ => none

/-! ### rose trees (one token: fields separated by `|`, preorder, explicit counts) -/

inductive Rose where
  | mk (label : List String) (kids : List Rose)
instance : Inhabited Rose := ⟨.mk [] []⟩

mutual
partial def parseRose : List String → Option (Rose × List String)
  | n :: rest => do
      let nl ← n.toNat?
      let label := rest.take nl
      match rest.drop nl with
      | k :: rest => do
          let nk ← k.toNat?
          let (kids, rest) ← parseRoses nk rest
          pure (.mk label kids, rest)
      | [] => none
  | [] => none
partial def parseRoses : Nat → List String → Option (List Rose × List String)
  | 0, rest => some ([], rest)
  | k + 1, rest => do
      let (r, rest) ← parseRose rest
      let (rs, rest) ← parseRoses k rest
      pure (r :: rs, rest)
end

def roseOfTok (t : String) : Option Rose :=
  match parseRose (t.splitOn "|") with
  | some (r, []) => some r
  | _ => none

partial def roseFields : Rose → List String
  | .mk l ks => toString l.length :: l ++ (toString ks.length :: ks.flatMap roseFields)
def roseTok (r : Rose) : String := "|".intercalate (roseFields r)

/-! XML <-> rose: label = ns, name, text(`~`=None), nattrs, (ans, aname, aval)* -/

partial def xmlToRose (canon : Bool) : Xml → Rose
  | .node t attrs text kids =>
    let kids := if canon && t = sq "allowedValueList"
                then sortBy (fun a b => strLt (a.text.getD []) (b.text.getD [])) kids else kids
    .mk ([sTok t.ns, sTok t.name, optTok text, toString attrs.length]
          ++ attrs.flatMap fun a => [sTok a.1.ns, sTok a.1.name, sTok a.2])
        (kids.map (xmlToRose canon))
def xmlTok (e : Xml) : String := roseTok (xmlToRose true e)

def attrsOf : List String → Option (List (QName × Str))
  | [] => some []
  | a :: b :: c :: r => do
      let a ← sOfTok a; let b ← sOfTok b; let c ← sOfTok c; let rest ← attrsOf r
      pure ((⟨a, b⟩, c) :: rest)
  | _ => none

partial def roseToXml : Rose → Option Xml
  | .mk (ns :: name :: text :: _ :: attrs) kids => do
      let ns ← sOfTok ns; let name ← sOfTok name; let text ← optOfTok text
      let attrs ← attrsOf attrs
      let kids ← kids.mapM roseToXml
      pure (.node ⟨ns, name⟩ attrs text kids)
  | _ => none

/-! device <-> rose: label = 12 fields (`~`=None), nsvc, 5 tokens per service -/

def svcInfosOf : List String → Option (List SvcInfo)
  | [] => some []
  | a :: b :: c :: d :: e :: r => do
      let a ← sOfTok a; let b ← sOfTok b; let c ← sOfTok c; let d ← sOfTok d; let e ← sOfTok e
      let rest ← svcInfosOf r
      pure (⟨a, b, c, d, e⟩ :: rest)
  | _ => none

partial def roseToDev : Rose → Option DevDef
  | .mk label kids => do
      let fields ← (label.take 12).mapM optOfTok
      let svcs ← svcInfosOf (label.drop 13)
      let emb ← kids.mapM roseToDev
      if fields.length = 12 then pure (.mk fields svcs emb) else none

partial def devToRose : DevDef → Rose
  | .mk f s e =>
    .mk (f.map optTok ++ [toString s.length]
          ++ s.flatMap fun x => [sTok x.stype, sTok x.sid, sTok x.ctl, sTok x.evt, sTok x.scpd])
        (e.map devToRose)

/-! ### state -/

structure SvcRec where
  info : SvcInfo
  vars : List VarDef := []
  acts : List ActDef := []
  sacts : Option (List SAct) := none                 -- server side (constructed)
  client : Option (List VarDef × List SAct) := none  -- model of the client's view

structure St where
  facts : Facts := []
  svcs : Array SvcRec := #[]
  dev : Option DevDef := none
  expectC : List String := []      -- model's expected client dump lines of the current service
  curSvc : Nat := 0
  obsVars : List VarView := []
  obsActs : List ActView := []
  pending : Option (List String) := none  -- the last call / raw line
  corrOk : Bool := true
  judgeOk : Bool := true
  notes : List String := []

def clip (s : String) : String := if s.length > 700 then String.ofList (s.toList.take 700) ++ "…" else s
def note (st : St) (s : String) : St := if st.notes.length < 6 then { st with notes := st.notes ++ [clip s] } else st
def corrFail (st : St) (s : String) : St := note { st with corrOk := false } ("corr " ++ s)
/-- judge notes go first (they are what a replay is read for) -/
def judgeFail (st : St) (s : String) : St :=
  { st with judgeOk := false, notes := (clip ("judge " ++ s) :: st.notes).take 6 }

def svcDefault : SvcRec := { info := ⟨[], [], [], [], []⟩ }

def cvarLine (fs : Facts) (i : Nat) (v : VarDef) : String :=
  let w := viewOf fs v
  let al := match v.allowed with
    | some l => if l.isEmpty then "-" else ",".intercalate ((sortBy strLt l).map sTok)
    | none => "~"
  let tal := match w.tallowed with
    | some l => if l.isEmpty then "~" else
        ";".intercalate (sortBy (fun a b => a < b) (l.map valTok))
    | none => "!"
  s!"cvar {i} {String.ofList v.name} {String.ofList v.dtype} {if v.evented then 1 else 0} {optTok v.min} {optTok v.max} {al} {optTok v.default} {tvTok w.tmin} {tvTok w.tmax} {tvTok w.tdefault} {tal}"

def cactLine (i : Nat) (a : SAct) : String :=
  let v := actViewOf a
  s!"cact {i} {String.ofList v.name} {argsTok v.ins} {argsTok v.outs}"

def scriptOfTok (t : String) : Option HandlerRes :=
  if t.startsWith "R:" then (dictOfTok (String.ofList (t.toList.drop 2))).map .ret
  else if t.startsWith "E:" then (natOptOfTok (String.ofList (t.toList.drop 2))).map .err
  else if t.startsWith "V:" then
    -- `V:<k1;k2>:<dict>`: the keys returned as state-variable objects, then the values
    let rest := t.toList.drop 2
    let names := rest.takeWhile (· != ':')
    let d := String.ofList ((rest.dropWhile (· != ':')).drop 1)
    (dictOfTok d).map fun vals => .retVars vals (((String.ofList names).splitOn ";").map (·.toList))
  else none

def callResTok : CallRes → String
  | .ok d => s!"ok:{dictTok d}"
  | .actionError c s => s!"ae:{natOptTok c}:{natOptTok s}"
  | .responseError s => s!"re:{s}"
  | .clientError e => s!"ce:{e}"

def callResOfTok (t : String) : Option CallRes :=
  match t.splitOn ":" with
  | "ok" :: rest => (dictOfTok (":".intercalate rest)).map .ok
  | ["ae", c, s] => do let c ← natOptOfTok c; let s ← natOptOfTok s; pure (.actionError c s)
  | ["re", s] => s.toNat?.map .responseError
  | ["ce", e] => some (.clientError e)
  | _ => none

/-- model's view of a raw outcome in the `robs` format -/
def rawObsOf (fs : Facts) (stype : Str) (cacts : List SAct) (o : Outcome) (actName : Option Str) : RawObs :=
  match o with
  | .unhandled e => .unhandled e
  | .http s _ => .resp s none none
  | .resp s b =>
    let fault := match parseFault b with
      | some (.ok c) => some c
      | some (.error _) => some none
      | none => none
    let rets := if s = 200 then
        match actName.bind (fun n => cacts.find? (fun a => a.name = n)) with
        | some ca => (match clientDecode fs stype ca o with | .ok d => some d | _ => none)
        | none => none
      else none
    .resp s fault rets

def rawObsTok : RawObs → String
  | .unhandled e => s!"unh:{String.ofList e}"
  | .resp s f r =>
    let ft := match f with | none => "~" | some c => natOptTok c
    s!"resp:{s}:{ft}:{optDictTok r}"

def rawObsOfTok (t : String) : Option RawObs :=
  match t.splitOn ":" with
  | ["unh", e] => some (.unhandled e.toList)
  | "resp" :: s :: f :: rest => do
      let s ← s.toNat?
      let f ← if f = "~" then some none else (natOptOfTok f).map some
      let r ← optDictOfTok (":".intercalate rest)
      pure (.resp s f r)
  | _ => none

/-! ### steps -/

def getSvc (st : St) (i : Nat) : SvcRec := st.svcs.getD i svcDefault
def setSvc (st : St) (i : Nat) (r : SvcRec) : St :=
  if i < st.svcs.size then { st with svcs := st.svcs.set! i r } else st

def scriptHandler (script : HandlerRes) : Handler := fun _ _ => script

def stepLine (st : St) (toks : List String) : St :=
  match toks with
  | ["fact", dt, w, v] =>
      (match sOfTok w with
       | some w => { st with facts := ⟨dt.toList, w, if v = "!" then none else valOfTok v⟩ :: st.facts }
       | none => corrFail st "bad fact")
  | ["svc", _, a, b, c, d, e] =>
      (match sOfTok a, sOfTok b, sOfTok c, sOfTok d, sOfTok e with
       | some a, some b, some c, some d, some e => { st with svcs := st.svcs.push { info := ⟨a, b, c, d, e⟩ } }
       | _, _, _, _, _ => corrFail st "bad svc")
  | ["var", i, name, dt, ev, mn, mx, al, df] =>
      let i := i.toNat!
      let r := getSvc st i
      let allowed : Option (List Str) := if al = "~" then none else some ((al.splitOn ",").filterMap sOfTok)
      (match optOfTok mn, optOfTok mx, optOfTok df with
       | some mn, some mx, some df =>
          setSvc st i { r with vars := r.vars ++ [⟨name.toList, dt.toList, ev = "1", mn, mx, allowed, df⟩] }
       | _, _, _ => corrFail st "bad var")
  | ["act", i, name, ins, outs] =>
      let i := i.toNat!
      let r := getSvc st i
      let mk := fun (l : List (Str × Str)) => l.map fun p => (⟨p.1, p.2⟩ : ArgDef)
      setSvc st i { r with acts := r.acts ++ [⟨name.toList, mk (argsOfTok ins), mk (argsOfTok outs)⟩] }
  | ["dev", t] =>
      (match (roseOfTok t).bind roseToDev with
       | some d => { st with dev := some d }
       | none => corrFail st "bad dev")
  | ["built", res] =>
      -- construct every service on the model side, and the model's client view of it
      let svcs := st.svcs.map fun r =>
        let sacts := resolveActs r.vars r.acts
        let ok := r.vars.all (schemaBuilds st.facts)
        let sacts := if ok then sacts else none
        let client := sacts.bind fun sa => parseScpd st.facts (serializeScpd st.facts r.vars sa)
        { r with sacts := sacts, client := client }
      let st := { st with svcs := svcs }
      let mok := svcs.all (·.sacts.isSome)
      if (res = "ok") = mok then st else corrFail st s!"built impl={res} model={mok}"
  | ["sdoc", t] =>
      (match st.dev with
       | some d => let m := xmlTok (serializeRoot d)
                   if m = t then st else corrFail st s!"sdoc impl[{t}] model[{m}]"
       | none => corrFail st "no dev")
  | ["sscpd", i, t] =>
      let r := getSvc st i.toNat!
      (match r.sacts with
       | some sa => let m := xmlTok (serializeScpd st.facts r.vars sa)
                    if m = t then st else corrFail st s!"sscpd {i} impl[{t}] model[{m}]"
       | none => corrFail st "sscpd: model did not construct")
  | ["cdevres", res] =>
      let mok := st.svcs.all (·.client.isSome) && st.dev.isSome
      let st := if (res = "ok") = mok then st else corrFail st s!"cdevres impl={res} model={mok}"
      if res = "ok" then st else judgeFail st s!"client could not create the device: {res}"
  | ["cdev", t] =>
      (match st.dev with
       | some d =>
          let m := (parseRoot 64 (serializeRoot d)).map fun c => roseTok (devToRose c)
          let st := if m = some t then st else corrFail st s!"cdev impl[{t}] model[{m}]"
          (match (roseOfTok t).bind roseToDev with
           | some o => if devMatches 64 d o then st else judgeFail st s!"client device tree differs from the definition: {t}"
           | none => judgeFail st "unparsable cdev")
       | none => corrFail st "no dev")
  | ["cbegin", i] =>
      let i := i.toNat!
      let r := getSvc st i
      let exp := match r.client with
        | some (vs, as) => vs.map (cvarLine st.facts i) ++ as.map (cactLine i)
        | none => []
      { st with curSvc := i, expectC := exp, obsVars := [], obsActs := [] }
  | "cvar" :: i :: name :: dt :: ev :: _mn :: _mx :: _al :: _df :: tmn :: tmx :: tdf :: tal :: [] =>
      let line := " ".intercalate toks
      let st := match st.expectC with
        | e :: rest => if e = line then { st with expectC := rest }
                       else corrFail { st with expectC := rest } s!"impl[{line}] model[{e}]"
        | [] => corrFail st s!"impl[{line}] model[<none>]"
      let tallowed : Option (Option (List Val)) :=
        if tal = "!" then some none else if tal = "~" then some (some [])
        else ((tal.splitOn ";").mapM valOfTok).map some
      (match tvOfTok tmn, tvOfTok tmx, tvOfTok tdf, tallowed with
       | some a, some b, some c, some d =>
          { st with obsVars := st.obsVars ++ [⟨name.toList, dt.toList, ev = "1", a, b, c, d⟩] }
       | _, _, _, _ => judgeFail st s!"unparsable cvar {i} {name}")
  | ["cact", _, name, ins, outs] =>
      let line := " ".intercalate toks
      let st := match st.expectC with
        | e :: rest => if e = line then { st with expectC := rest }
                       else corrFail { st with expectC := rest } s!"impl[{line}] model[{e}]"
        | [] => corrFail st s!"impl[{line}] model[<none>]"
      { st with obsActs := st.obsActs ++ [⟨name.toList, argsOfTok ins, argsOfTok outs⟩] }
  | ["cend", i] =>
      let r := getSvc st i.toNat!
      let st := if st.expectC.isEmpty then st else corrFail st s!"client dump of service {i} misses {st.expectC.length} line(s)"
      if svcMatches st.facts r.vars r.acts st.obsVars st.obsActs then st
      else
        let bad := (r.vars.zip st.obsVars).filter fun p => !varMatches st.facts p.1 p.2
        let what := match bad with
          | (v, _) :: _ => s!"variable {String.ofList v.name} ({String.ofList v.dtype})"
          | [] => "variable/action lists"
        judgeFail st s!"client model of service {i} differs from the definition: {what}"
  | ["xcheck", res] =>
      -- harness self-check: mocked-request path vs. real HTTP on loopback (see harness/c14.py)
      if res = "ok" then st else corrFail st s!"loopback cross-check: {((tokStr (String.ofList (res.toList.drop 5))).getD res)}"
  | "call" :: _ => { st with pending := some toks }
  | "raw" :: _ => { st with pending := some toks }
  | ["cobs", seen, res] =>
      (match st.pending with
       | some ["call", i, actName, argsT, scriptT] =>
          let r := getSvc st i.toNat!
          (match r.sacts, r.client, dictOfTok argsT, scriptOfTok scriptT with
           | some sacts, some (_, cacts), some args, some script =>
              (match cacts.find? (fun a => a.name = actName.toList), sacts.find? (fun a => a.name = actName.toList) with
               | some ca, some sa =>
                  let server := serverHandle st.facts r.info.stype sacts (scriptHandler script)
                  let mres := clientCall st.facts r.info.stype ca server args
                  let mseen : Option (List (Str × Val)) :=
                    match createRequest st.facts r.info.stype ca args with
                    | .ok req => (handlerInput st.facts sacts req).map (·.2)
                    | .error _ => none
                  let m := s!"{optDictTok mseen} {callResTok mres}"
                  let st := if m = s!"{seen} {res}" then st else corrFail st s!"call {actName} {argsT} impl[{seen} {res}] model[{m}]"
                  (match optDictOfTok seen, callResOfTok res with
                   | some oseen, some ores =>
                      if callOk st.facts sa args script ⟨oseen, ores⟩ then st
                      else judgeFail st s!"call {actName} args[{argsT}] script[{scriptT}] observed seen[{seen}] result[{res}]"
                   | _, _ => judgeFail st s!"unparsable cobs {seen} {res}")
               | _, _ => corrFail st s!"call: no action {actName}")
           | _, _, _, _ => corrFail st "call: model has no service / bad tokens")
       | _ => corrFail st "cobs without call")
  | ["robs", seen, res] =>
      (match st.pending with
       | some ["raw", i, sa, body, script] =>
          let r := getSvc st i.toNat!
          let bodyX : Option (Option Xml) :=
            if body = "X" then some none else ((roseOfTok body).bind roseToXml).map some
          (match r.sacts, r.client, optOfTok sa, bodyX, scriptOfTok script with
           | some sacts, some (_, cacts), some sa, some bodyX, some script =>
              let req : Req := ⟨sa, bodyX⟩
              let o := serverHandle st.facts r.info.stype sacts (scriptHandler script) req
              let hin := handlerInput st.facts sacts req
              let actName := match parseActionBody st.facts sacts req with
                | .ok a _ => some a.name | .bad _ => none
              let mobs := rawObsOf st.facts r.info.stype cacts o actName
              let m := s!"{optDictTok (hin.map (·.2))} {rawObsTok mobs}"
              let st := if m = s!"{seen} {res}" then st else corrFail st s!"raw impl[{seen} {res}] model[{m}]"
              (match optDictOfTok seen, rawObsOfTok res with
               | some oseen, some ores =>
                  if rawOk st.facts r.info.stype sacts req script oseen ores then st
                  else judgeFail st s!"raw request answered [{seen} {res}] (invalid={invalidReq st.facts sacts req})"
               | _, _ => judgeFail st s!"unparsable robs {seen} {res}")
           | _, _, _, _, _ => corrFail st "raw: model has no service / bad tokens")
       | _ => corrFail st "robs without raw")
  | _ => corrFail st s!"bad line {" ".intercalate (toks.take 3)}"

def main : IO UInt32 := do
  let lines ← readLines (← IO.getStdin)
  let out ← IO.getStdout
  let mut st : St := {}
  let mut cur := ""
  let mut n := 0
  for line in lines do
    let toks := tokens line
    match toks with
    | ["case", id] => cur := id; st := {}
    | ["end"] =>
        n := n + 1
        out.putStrLn s!"case {cur} corr={if st.corrOk then "ok" else "MISMATCH"} judge={if st.judgeOk then "ok" else "FAIL"} {" ; ".intercalate (st.notes.take 3)}"
    | [] => pure ()
    | _ => st := stepLine st toks
  out.putStrLn s!"done {n}"
  return 0

end Upnp.Drv.C14
