/-
  Driver for C15: replays the harness' operation lines through the server-eventing model
  (`Model/C15Server.lean`), compares the implementation's observations with the model's
  (correspondence) and runs the judge monitor (`Spec/C15.lean`) on the implementation's trace.
  A device may carry several services: each has its own model state and its own monitor; a line
  starting with `@k` belongs to service k (default 0), `adv` goes to every service.

  Lines:  cfg <base> | [@k] var <0|1> <rate µs> <val|N> | start
          [@k] sub <cb|~> <timeout|~> | [@k] renew <k|u> <cb|~> <timeout|~> | [@k] unsub <k|u|~>
          [@k] set <x> <val> | [@k] burst <x>=<val>,... | adv <dt µs> | [@k] done <n> | [@k] fail <n> | [@k] setkey <sid> <key>
          [@k] o resp <status> <sid|~> <granted|~> | [@k] o notify <sid> <seq> <t> <url> <body> | [@k] o trig <x> <t>
          [@k] o ret <sid> | [@k] o exc <sid> | [@k] h trig <x> <t>
  `o trig` (observed through a hook on `trigger_event`) is compared with the model only; `h trig` is the attribution
  of the following NOTIFYs to a variable that the harness derived from the HTTP-level observations: only judged.
  val = i<int> | b0 | b1 | s<hex>;  body = <x>=<hex of the element text>,... or ~.
  Text travels as hex tokens (`-` = empty string, `~` = absent).
-/
import Upnp.Proto
import Upnp.Model.C15Server
import Upnp.Spec.C15
namespace Upnp.Drv.C15
open Upnp Upnp.Proto Upnp.C15

structure Svc where
  cfg : List VarCfg := []
  m : State := init { base := 0, vars := [] }
  expected : List Obs := []
  mon : Mon := Mon.init [] [] []

structure St where
  base : Int := 0
  svcs : Array Svc := #[]
  corrOk : Bool := true
  notes : List String := []
  lineNo : Nat := 0

def St.judgeOk (st : St) : Bool := st.svcs.all fun s => s.mon.ok

def note (st : St) (s : String) : St :=
  if st.notes.length < 4 then { st with notes := st.notes ++ [s] } else st

def optStr (t : String) : Option (Option Str) :=
  if t = "~" then some none else (tokStr t).map fun s => some s.toList

def parseVal (t : String) : Option Val :=
  match t.toList with
  | 'i' :: r => (String.ofList r).toInt?.map Val.int
  | ['b', '0'] => some (.bool false)
  | ['b', '1'] => some (.bool true)
  | 's' :: r => (tokStr (String.ofList r)).map fun s => Val.str s.toList
  | _ => none

def fmtBody (b : List (Nat × Str)) : String :=
  if b.isEmpty then "~" else ",".intercalate (b.map fun p => s!"{p.1}={strTok (String.ofList p.2)}")

def parseBody (s : String) : Option (List (Nat × Str)) :=
  if s = "~" then some [] else
  (s.splitOn ",").mapM fun t =>
    match t.splitOn "=" with
    | [a, b] => do
        let i ← a.toNat?
        let v ← tokStr b
        pure (i, v.toList)
    | _ => none

def fmtOptNat : Option Nat → String
  | some k => toString k
  | none => "~"
def fmtOptInt : Option Int → String
  | some k => toString k
  | none => "~"

def fmtObs : Obs → String
  | .resp st sid g => s!"resp {st} {fmtOptNat sid} {fmtOptInt g}"
  | .notify sid seq t url body => s!"notify {sid} {seq} {t} {strTok (String.ofList url)} {fmtBody body}"
  | .trig x t => s!"trig {x} {t}"
  | .ret sid => s!"ret {sid}"
  | .exc sid => s!"exc {sid}"

def parseOptNat (t : String) : Option (Option Nat) := if t = "~" then some none else t.toNat?.map some
def parseOptInt (t : String) : Option (Option Int) := if t = "~" then some none else t.toInt?.map some

def parseObs : List String → Option Obs
  | ["resp", st, sid, g] => do pure (.resp (← st.toNat?) (← parseOptNat sid) (← parseOptInt g))
  | ["notify", sid, seq, t, url, body] => do
      pure (.notify (← sid.toNat?) (← seq.toNat?) (← t.toInt?) ((← tokStr url).toList) (← parseBody body))
  | ["trig", x, t] => do pure (.trig (← x.toNat?) (← t.toInt?))
  | ["ret", sid] => do pure (.ret (← sid.toNat?))
  | ["exc", sid] => do pure (.exc (← sid.toNat?))
  | _ => none

def parseSid (t : String) : Option SidRef :=
  if t = "~" then some .absent else if t = "u" then some .unknown else t.toNat?.map .known

def parseOp : List String → Option Op
  | ["sub", cb, to] => do pure (.subscribe .absent (← optStr cb) (← optStr to))
  | ["renew", sid, cb, to] => do pure (.subscribe (← parseSid sid) (← optStr cb) (← optStr to))
  | ["unsub", sid] => do pure (.unsubscribe (← parseSid sid))
  | ["set", x, v] => do pure (.set (← x.toNat?) (← parseVal v))
  | ["burst", l] => do
      let ps ← (l.splitOn ",").mapM fun t =>
        match t.splitOn "=" with
        | [a, b] => do pure ((← a.toNat?), (← parseVal b))
        | _ => none
      pure (.setMany ps)
  | ["adv", dt] => do pure (.adv (← dt.toNat?))
  | ["done", k] => do pure (.done (← k.toNat?))
  | ["fail", k] => do pure (.fail (← k.toNat?))
  | ["setkey", sid, k] => do pure (.setKey (← sid.toNat?) (← k.toNat?))
  | _ => none

def Svc.empty : Svc := {}
def getSvc (st : St) (k : Nat) : Svc := st.svcs.getD k Svc.empty
def setSvc (st : St) (k : Nat) (s : Svc) : St :=
  let a := if k < st.svcs.size then st.svcs else st.svcs ++ Array.replicate (k + 1 - st.svcs.size) Svc.empty
  { st with svcs := a.set! k s }

/-- feed one item to the judge of service k; remember where it first said no -/
def judge (st : St) (k : Nat) (it : Item) (line : String) : St :=
  let sv := getSvc st k
  let was := sv.mon.ok
  let closed := match it with
    | .op _ => (sv.mon.close).ok
    | .obs _ => true
  let mon := sv.mon.step it
  let st := setSvc st k { sv with mon := mon }
  if was && !closed then note st s!"judge: idle check (J2/J6) of service {k} failed before line {st.lineNo} [{line}]"
  else if was && !mon.ok then note st s!"judge: rejected line {st.lineNo} [{line}]"
  else st

def flushExpected (st : St) (k : Nat) : St :=
  let sv := getSvc st k
  match sv.expected with
  | [] => st
  | o :: _ =>
    note { (setSvc st k { sv with expected := [] }) with corrOk := false }
      s!"corr: model of service {k} also expected [{fmtObs o}] before line {st.lineNo}"

def applyOp (st : St) (k : Nat) (op : Op) (line : String) : St :=
  let st := flushExpected st k
  let sv := getSvc st k
  let r := step sv.m op
  judge (setSvc st k { sv with m := r.1, expected := r.2 }) k (.op op) line

def stepLine (st : St) (line : String) (toks : List String) : St :=
  let st := { st with lineNo := st.lineNo + 1 }
  let (k, toks) := match toks with
    | t :: rest => if t.startsWith "@" then ((t.drop 1).toNat!, rest) else (0, toks)
    | [] => (0, [])
  match toks with
  | ["cfg", b] => { st with base := b.toInt!, svcs := #[] }
  | ["var", e, r, d] =>
      let sv := getSvc st k
      setSvc st k { sv with cfg := sv.cfg ++ [{ evented := e = "1", rate := r.toNat!, default := if d = "N" then none else parseVal d }] }
  | ["start"] =>
      { st with svcs := st.svcs.map fun sv =>
          { sv with m := init { base := st.base, vars := sv.cfg },
                    mon := Mon.init (sv.cfg.map (·.evented)) (sv.cfg.map (·.rate)) (sv.cfg.map (·.default)) } }
  | "o" :: rest =>
      (match parseObs rest with
       | none =>
         let sv := getSvc st k
         note { (setSvc st k { sv with mon := fail sv.mon }) with corrOk := false } s!"unparsable observation [{line}]"
       | some o =>
         let sv := getSvc st k
         let st := match sv.expected with
           | e :: es =>
             if e = o then setSvc st k { sv with expected := es }
             else note { (setSvc st k { sv with expected := es }) with corrOk := false }
                    s!"corr: line {st.lineNo} impl[{fmtObs o}] model[{fmtObs e}]"
           | [] => note { st with corrOk := false } s!"corr: line {st.lineNo} impl[{fmtObs o}] model[nothing]"
         -- which variable triggered is seen through a hook (`trigger_event`): it ties the model, it is not judged
         match o with
         | .trig _ _ => st
         | _ => judge st k (.obs o) line)
  | "h" :: rest =>
      -- an attribution found by the harness from the HTTP-level observations: judged, not compared with the model
      (match parseObs rest with
       | some (.trig x t) => judge st k (.obs (.trig x t)) line
       | _ => note { st with corrOk := false } s!"bad attribution line [{line}]")
  | _ =>
      (match parseOp toks with
       | none => note { st with corrOk := false } s!"bad-op [{line}]"
       | some (.adv dt) => (List.range st.svcs.size).foldl (fun st i => applyOp st i (.adv dt) line) st
       | some op => applyOp st k op line)

def finish (st : St) : St :=
  let st := { st with lineNo := st.lineNo + 1 }
  (List.range st.svcs.size).foldl (fun st k =>
    let st := flushExpected st k
    let sv := getSvc st k
    let was := sv.mon.ok
    let fin := sv.mon.close
    let st := setSvc st k { sv with mon := fin }
    if was && !fin.ok then note st s!"judge: idle check (J2/J6) of service {k} failed at the end of the history" else st) st

def main : IO UInt32 := do
  let lines ← readLines (← IO.getStdin)
  let out ← IO.getStdout
  let mut st : St := {}
  let mut cur := ""
  let mut n := 0
  for line in lines do
    let toks := tokens line
    match toks with
    | ["case", id] => cur := id; st := {}
    | ["end"] =>
        n := n + 1
        st := finish st
        out.putStrLn s!"case {cur} corr={if st.corrOk then "ok" else "MISMATCH"} judge={if st.judgeOk then "ok" else "FAIL"} {" ; ".intercalate (st.notes.take 3)}"
    | [] => pure ()
    | _ => st := stepLine st line toks
  out.putStrLn s!"done {n}"
  return 0

end Upnp.Drv.C15
