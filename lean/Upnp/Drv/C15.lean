/-
  Driver for C15: replays the harness' operation lines through the server-eventing model
  (`Model/C15Server.lean`), compares the implementation's observations with the model's
  (correspondence) and runs the judge monitor (`Spec/C15.lean`) on the implementation's trace.

  Lines:  cfg <base> | var <0|1> <rate µs> <N|int> | start
          sub <cb|~> <timeout|~> | renew <k|u> <cb|~> <timeout|~> | unsub <k|u|~>
          set <x> <v> | burst <x>=<v>,... | adv <dt µs> | done <k> | setkey <sid> <k>
          o resp <status> <sid|~> <granted|~> | o notify <sid> <seq> <t> <url> <body> | o trig <x> <t> | o ret <sid>
  Text travels as hex tokens (`-` = empty string, `~` = absent).
-/
import Upnp.Proto
import Upnp.Model.C15Server
import Upnp.Spec.C15
namespace Upnp.Drv.C15
open Upnp Upnp.Proto Upnp.C15

structure St where
  base : Int := 0
  cfg : List VarCfg := []
  m : State := init { base := 0, vars := [] }
  expected : List Obs := []
  mon : Mon := Mon.init [] [] []
  started : Bool := false
  corrOk : Bool := true
  notes : List String := []
  lineNo : Nat := 0

def note (st : St) (s : String) : St :=
  if st.notes.length < 4 then { st with notes := st.notes ++ [s] } else st

def optStr (t : String) : Option (Option Str) :=
  if t = "~" then some none else (tokStr t).map fun s => some s.toList

def fmtBody (b : List (Nat × Option Int)) : String :=
  if b.isEmpty then "~" else ",".intercalate (b.map fun p => s!"{p.1}={match p.2 with | some v => toString v | none => "N"}")

def parseBody (s : String) : Option (List (Nat × Option Int)) :=
  if s = "~" then some [] else
  (s.splitOn ",").mapM fun t =>
    match t.splitOn "=" with
    | [a, b] => do
        let i ← a.toNat?
        if b = "N" then pure (i, none) else do
          let v ← b.toInt?
          pure (i, some v)
    | _ => none

def fmtOptNat : Option Nat → String
  | some k => toString k
  | none => "~"
def fmtOptInt : Option Int → String
  | some k => toString k
  | none => "~"

def fmtObs : Obs → String
  | .resp st sid g => s!"resp {st} {fmtOptNat sid} {fmtOptInt g}"
  | .notify sid seq t url body => s!"notify {sid} {seq} {t} {strTok (String.ofList url)} {fmtBody body}"
  | .trig x t => s!"trig {x} {t}"
  | .ret sid => s!"ret {sid}"

def parseOptNat (t : String) : Option (Option Nat) := if t = "~" then some none else t.toNat?.map some
def parseOptInt (t : String) : Option (Option Int) := if t = "~" then some none else t.toInt?.map some

def parseObs : List String → Option Obs
  | ["resp", st, sid, g] => do pure (.resp (← st.toNat?) (← parseOptNat sid) (← parseOptInt g))
  | ["notify", sid, seq, t, url, body] => do
      pure (.notify (← sid.toNat?) (← seq.toNat?) (← t.toInt?) ((← tokStr url).toList) (← parseBody body))
  | ["trig", x, t] => do pure (.trig (← x.toNat?) (← t.toInt?))
  | ["ret", sid] => do pure (.ret (← sid.toNat?))
  | _ => none

def parseSid (t : String) : Option SidRef :=
  if t = "~" then some .absent else if t = "u" then some .unknown else t.toNat?.map .known

def parseOp : List String → Option Op
  | ["sub", cb, to] => do pure (.subscribe .absent (← optStr cb) (← optStr to))
  | ["renew", sid, cb, to] => do pure (.subscribe (← parseSid sid) (← optStr cb) (← optStr to))
  | ["unsub", sid] => do pure (.unsubscribe (← parseSid sid))
  | ["set", x, v] => do pure (.set (← x.toNat?) (← v.toInt?))
  | ["burst", l] => do
      let ps ← (l.splitOn ",").mapM fun t =>
        match t.splitOn "=" with
        | [a, b] => do pure ((← a.toNat?), (← b.toInt?))
        | _ => none
      pure (.setMany ps)
  | ["adv", dt] => do pure (.adv (← dt.toNat?))
  | ["done", k] => do pure (.done (← k.toNat?))
  | ["setkey", sid, k] => do pure (.setKey (← sid.toNat?) (← k.toNat?))
  | _ => none

/-- feed one item to the judge; remember where it first said no -/
def judge (st : St) (it : Item) (line : String) : St :=
  let was := st.mon.ok
  let closed := match it with
    | .op _ => (st.mon.close).ok
    | .obs _ => true
  let mon := st.mon.step it
  let st := { st with mon := mon }
  if was && !closed then note st s!"judge: idle check (J2/J6) failed before line {st.lineNo} [{line}]"
  else if was && !mon.ok then note st s!"judge: rejected line {st.lineNo} [{line}]"
  else st

def flushExpected (st : St) : St :=
  match st.expected with
  | [] => st
  | o :: _ => note { st with corrOk := false, expected := [] } s!"corr: model also expected [{fmtObs o}] before line {st.lineNo}"

def stepLine (st : St) (line : String) (toks : List String) : St :=
  let st := { st with lineNo := st.lineNo + 1 }
  match toks with
  | ["cfg", b] => { st with base := b.toInt!, cfg := [] }
  | ["var", e, r, d] =>
      { st with cfg := st.cfg ++ [{ evented := e = "1", rate := r.toNat!, default := if d = "N" then none else d.toInt? }] }
  | ["start"] =>
      { st with started := true, m := init { base := st.base, vars := st.cfg },
                mon := Mon.init (st.cfg.map (·.evented)) (st.cfg.map (·.rate)) (st.cfg.map (·.default)) }
  | "o" :: rest =>
      (match parseObs rest with
       | none => note { st with corrOk := false, mon := fail st.mon } s!"unparsable observation [{line}]"
       | some o =>
         let st := match st.expected with
           | e :: es =>
             if e = o then { st with expected := es }
             else note { st with corrOk := false, expected := es } s!"corr: line {st.lineNo} impl[{fmtObs o}] model[{fmtObs e}]"
           | [] => note { st with corrOk := false } s!"corr: line {st.lineNo} impl[{fmtObs o}] model[nothing]"
         judge st (.obs o) line)
  | _ =>
      (match parseOp toks with
       | none => note { st with corrOk := false } s!"bad-op [{line}]"
       | some op =>
         let st := flushExpected st
         let r := step st.m op
         judge { st with m := r.1, expected := r.2 } (.op op) line)

def finish (st : St) : St :=
  let st := { st with lineNo := st.lineNo + 1 }
  let st := flushExpected st
  let was := st.mon.ok
  let fin := st.mon.close
  if was && !fin.ok then note { st with mon := fin } "judge: idle check (J2/J6) failed at the end of the history"
  else { st with mon := fin }

def main : IO UInt32 := do
  let lines ← readLines (← IO.getStdin)
  let out ← IO.getStdout
  let mut st : St := {}
  let mut cur := ""
  let mut n := 0
  for line in lines do
    let toks := tokens line
    match toks with
    | ["case", id] => cur := id; st := {}
    | ["end"] =>
        n := n + 1
        st := finish st
        out.putStrLn s!"case {cur} corr={if st.corrOk then "ok" else "MISMATCH"} judge={if st.mon.ok then "ok" else "FAIL"} {" ; ".intercalate (st.notes.take 3)}"
    | [] => pure ()
    | _ => st := stepLine st line toks
  out.putStrLn s!"done {n}"
  return 0

end Upnp.Drv.C15
